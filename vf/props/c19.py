"""C19 - caches and remembered parameters never change what a later call returns.

 1. TLC checks CacheSys exhaustively for all histories over small constants (2 methods, 2
    degrees, <= 3 live objects): FreshIsShipped, CacheClean, NoAliasCacheUser, CacheMonotone;
    the as-shipped aliasing variant must be refuted; a witness run shows that "edit, then build
    the same grid again" is reached.  ScaleSys (remembered scale b) is checked the same way.
 2. TLC enumerates every behaviour of length 3 of CacheSys; each is replayed on the real
    library under two concretisations (lebedev/maxdet and spherical/ahrens_beylkin), plus
    VERIF_SEED-random longer behaviours over all four methods and the Coulomb parameter table.
    After every step the harness measures, against the shipped files loaded independently,
    the content of what was built, memory sharing with cached arrays, and cache integrity.
 3. The recorded traces are judged by TLC (CacheTrace / ScaleTrace).

Added by the audit (all judged by TLC; the pure model runs execute beside the replays):
 4. Request layer (spec/CacheReq.tla): a grid may be asked for by any number that denotes it (tabulated or not, degree or
    size, Python or NumPy integer, 0) and with the method name in any letter case.  The specification resolves the
    request over the tables extracted from the library; CacheTrace cross-checks the harness' resolution, the degree and
    size the object reports, and the content against the file of the REQUESTED grid.
 5. CacheSys.NewAtomSet / Use: atomic grids whose shells use several degrees, built through degrees= (list / array),
    sizes= (tabulated / not), from_pruned (d_sectors / s_sectors) and from_preset, with and without rotation and an r = 0
    shell; both branches of get_shell_grid (r_sq, rotation) - every shell grid is the matching slice of the atomic grid;
    MolGrid.from_size with store on/off and get_atomic_grid; read-only uses (integrate, get_localgrid) of returned grids.
    No new tolerance: the Gram-matrix comparison of rotated shells re-uses the bound of the AtomRot event
    (atol 1e-11 (1 + r^2); measured on the unchanged tree over all grids <= 200 points, three seeds: <= 9e-16 (1 + r^2);
    a relative change of 1e-7 of the points - the shell-grid-scales-cache mutant - gives 2e-7 r^2), everything else the existing allclose(1e-12, 1e-13).
 6. ScaleMulti / ScaleMultiTrace: TWO transform objects (same or different class, bare or wrapped in InverseRTransform),
    all eight transform / derivative / inverse-derivative operations, argument arrays ascending, descending, shuffled,
    with a duplicated maximum, int64, float32, NumPy scalars and 0-d arrays; after a call the caller scribbles over the
    array it passed; a call with an all-zero grid while the scale is undetermined must leave nothing behind
    (the library did leave b = 0.0 behind - found by this clause, repaired in /repo by 71a2ad0; the selftest mutant
    refused-grid-leaves-scale-behind puts the defect back).  All comparisons are exact
    (array_equal against a fresh object with the scale passed explicitly; scales are integers).
 7. CoulombSys / CoulombGen / CoulombTrace: the lazily loaded parameter table as its own machine - TLC enumerates every
    behaviour of length 4 (Load by number / symbol, refused lookups, Edit, Drop), each is replayed with several
    spellings of the element (int, numpy int, symbol in any case, padded) and kinds of refused lookups; every Load is
    compared with the JSON file read independently, with the first values returned for that element, and for memory
    shared with the module's table or with an earlier result.  The variant that hands out cached arrays is refuted.
"""
from __future__ import annotations

import json
import os
import random
import warnings

import numpy as np

from .. import extract, tlc
from ..evidence import Report

PROP = "C19"
FOURPI = ("lebedev", "spherical")


# --------------------------------------------------------------------------------------------
def _shipped(method, degree, tabs, _memo={}):
    """Points and weights of the shipped file, loaded independently of grid.angular."""
    key = (method, degree)
    if key not in _memo:
        size = dict(tabs[method]["deg"])[degree]
        d = extract.DATA / extract.METHODS[method][1] / f"{method}_{degree}_{size}.npz"
        z = np.load(d)
        p = np.array(z["points"], dtype=float)
        w = np.array(z["weights"], dtype=float)
        if len(w) == 1:
            w = np.ones(len(p)) * w
        if method in FOURPI:
            w = w * 4 * np.pi
        _memo[key] = (p, w)
    return _memo[key]


def _caches():
    import grid.angular as ang
    return {"lebedev": ang.LEBEDEV_CACHE, "spherical": ang.SPHERICAL_CACHE,
            "maxdet": ang.MAX_DET_CACHE, "ahrens_beylkin": ang.AHRENS_BEYLKIN_CACHE}


def _okd(a, b):
    a, b = np.asarray(a, dtype=float), np.asarray(b, dtype=float)
    return "ok" if a.shape == b.shape and np.allclose(a, b, rtol=1e-12, atol=1e-13) else "dirty"


def _resolve(tabs, m, by, r):
    """(degree, size) of the tabulated grid that a request denotes: the first row whose degree (size) is >= r.
    The specification (CacheReq.tla) states the same rule and TLC cross-checks every New event against it."""
    for deg, size in tabs[m]["deg"]:
        if (deg if by == "degree" else size) >= r:
            return int(deg), int(size)
    return 0, 0


SPELL = {"lebedev": ["lebedev", "Lebedev", "LEBEDEV", "lEbEdEv"], "spherical": ["spherical", "Spherical", "SPHERICAL", "sPhErIcAl"],
         "maxdet": ["maxdet", "Maxdet", "MAXDET", "MaxDet"], "ahrens_beylkin": ["ahrens_beylkin", "Ahrens_Beylkin", "AHRENS_BEYLKIN", "Ahrens_beylkin"]}


def _requests(tabs, m, d):
    """Every way the harness asks for the tabulated grid (m, d): (by, number, numpy-integer?)."""
    rows = [(int(a), int(b)) for a, b in tabs[m]["deg"]]
    k = [a for a, _ in rows].index(int(d))
    size = rows[k][1]
    out = [("degree", d, False), ("degree", d, True), ("size", size, False), ("size", size, True)]
    lo_d = rows[k - 1][0] + 1 if k else 0
    lo_s = rows[k - 1][1] + 1 if k else 0
    if lo_d < d:
        out += [("degree", lo_d, False), ("degree", d - 1, True)]
    if lo_s < size:
        out += [("size", lo_s, False), ("size", size - 1, True)]
    return out


class CacheDriver:
    def __init__(self, tabs, coul_ref):
        import grid.coulomb as coul
        self.tabs = tabs
        self.coul_ref = coul_ref
        for c in _caches().values():
            c.clear()
        coul._ATOMIC_GAUSS_PARAMS_CACHE = None
        self.objs = []
        self.events = []

    # -- measurements ---------------------------------------------------------------------
    def _cache_arrays(self, m):
        if m == "coulomb":
            import grid.coulomb as coul
            tab = coul._ATOMIC_GAUSS_PARAMS_CACHE or {}
            out = []
            for v in tab.values():
                for x in (v.values() if isinstance(v, dict) else []):
                    if isinstance(x, np.ndarray):
                        out.append(x)
            return out
        out = []
        for ent in _caches()[m].values():
            out += [x for x in ent if isinstance(x, np.ndarray)]
        return out

    def _aliases(self, arr, m):
        return any(np.shares_memory(arr, c) for c in self._cache_arrays(m))

    def _clean(self):
        for m, c in _caches().items():
            for deg, ent in c.items():
                try:
                    p, w = _shipped(m, int(deg), self.tabs)
                except Exception:
                    return False
                raw_w = np.asarray(ent[1], dtype=float)
                exp_w = w / (4 * np.pi) if m in FOURPI else w
                if _okd(ent[0], p) != "ok" or _okd(raw_w, exp_w) != "ok":
                    return False
        import grid.coulomb as coul
        tab = coul._ATOMIC_GAUSS_PARAMS_CACHE
        if tab is not None:
            for sym, v in tab.items():
                for k, ref in self.coul_ref.get(sym, {}).items():
                    if k in v and _okd(v[k], ref) != "ok":
                        return False
        return True

    def _ev(self, ev, **kw):
        e = {"ev": ev, "exc": "", "clean": True}
        e.update(kw)
        return e

    # -- actions ----------------------------------------------------------------------------
    def new(self, m, d, flag, by_size=False, ignored_degree=None, req=None, mreq=None):
        """AngularGrid(degree=d) - or, with by_size, the same grid requested through its size, the degree
        argument (default 50, or ``ignored_degree``) being documented as ignored.  ``req`` = (by, number, numpy?)
        asks for the grid through any number that denotes it (see _requests), ``mreq`` spells the method."""
        e = self._ev("New", m=m, d=int(d), flag=bool(flag), p="dirty", w="dirty", pa=False, wa=False, incache=False)
        if m != "coulomb":
            if req is None:
                req = ("size", dict(self.tabs[m]["deg"])[int(d)], False) if by_size else ("degree", int(d), False)
            by, num, npint = req
            mreq = mreq or m
            e.update(by=by, req=int(num), mreq=mreq, od=-1, os=-1)
            num = np.int64(num) if npint else int(num)
        try:
            with warnings.catch_warnings():
                warnings.simplefilter("ignore")
                if m == "coulomb":
                    import grid.coulomb as coul
                    a, b = coul.load_atomic_gaussian_params(int(d))
                    ref = self.coul_ref[_sym(int(d))]
                    e["p"], e["w"] = _okd(a, ref["coeffs_s"]), _okd(b, ref["alphas_s"])
                    e["pa"], e["wa"] = self._aliases(a, m), self._aliases(b, m)
                    e["incache"] = True
                    self.objs.append((m, a, b))
                else:
                    from grid.angular import AngularGrid
                    if by == "size":
                        if ignored_degree is None:
                            g = AngularGrid(size=num, method=mreq, cache=bool(flag))
                        else:
                            g = AngularGrid(degree=int(ignored_degree), size=num, method=mreq, cache=bool(flag))
                    else:
                        g = AngularGrid(degree=num, method=mreq, cache=bool(flag))
                    e["od"], e["os"] = int(g.degree), int(g.size)
                    # the grid REQUESTED (a tabulated degree, or the size of one) - not whatever degree the
                    # returned object reports
                    p, w = _shipped(m, int(d), self.tabs)
                    e["p"], e["w"] = _okd(g.points, p), _okd(g.weights, w)
                    e["pa"], e["wa"] = self._aliases(g.points, m), self._aliases(g.weights, m)
                    e["incache"] = int(d) in _caches()[m]
                    self.objs.append((m, g.points, g.weights, g))
        except Exception as ex:
            e["exc"] = type(ex).__name__
        e["clean"] = self._clean()
        self.events.append(e)

    def edit(self, i, part):
        if not (1 <= i <= len(self.objs)):
            return
        e = self._ev("Edit", i=int(i), part=part)
        o = self.objs[i - 1]
        try:
            arr = o[1] if part == "p" else o[2]
            arr += 1.0          # in place, through the array the library handed out
            arr *= 1.5
        except Exception as ex:
            e["exc"] = type(ex).__name__
        e["clean"] = self._clean()
        self.events.append(e)

    def drop(self, i):
        if not (1 <= i <= len(self.objs)):
            return
        e = self._ev("Drop", i=int(i))
        del self.objs[i - 1]
        e["clean"] = self._clean()
        self.events.append(e)

    def _rgrid(self, with_zero=False):
        from grid.basegrid import OneDGrid
        r = np.array([0.0, 1.5]) if with_zero else np.array([0.5, 1.5])
        return OneDGrid(r, np.array([0.25, 0.75]), (0, np.inf))

    def atom(self, m, d, kind):
        """kind: Atom (construction), Shell (get_shell_grid), AtomOp (r = 0 regeneration paths)."""
        e = self._ev(kind, m=m, d=int(d), p="dirty", w="dirty", pa=False, wa=False)
        try:
            with warnings.catch_warnings():
                warnings.simplefilter("ignore")
                from grid.atomgrid import AtomGrid
                rg = self._rgrid(with_zero=(kind == "AtomOp"))
                ag = AtomGrid(rg, degrees=[int(d)], method=m)
                P, W = _shipped(m, int(d), self.tabs)
                n = len(W)
                if kind == "Atom":
                    exp_p = np.vstack([P * r for r in rg.points])
                    exp_w = np.hstack([W * wr * r ** 2 for r, wr in zip(rg.points, rg.weights)])
                    e["p"], e["w"] = _okd(ag.points, exp_p), _okd(ag.weights, exp_w)
                    e["pa"], e["wa"] = self._aliases(ag.points, m) or self._aliases(ag._points, m), self._aliases(ag.weights, m)
                elif kind == "Shell":
                    sg = ag.get_shell_grid(1)
                    e["p"] = _okd(sg.points, P * rg.points[1])
                    e["w"] = _okd(sg.weights, W * rg.weights[1] * rg.points[1] ** 2)
                    e["pa"], e["wa"] = self._aliases(sg.points, m), self._aliases(sg.weights, m)
                    self.objs.append((m, sg.points, sg.weights, sg))
                elif kind == "AtomRot":
                    ar = AtomGrid(rg, degrees=[int(d)], method=m, rotate=11, center=np.array([0.3, -0.1, 0.2]))
                    ok = True
                    for i, r in enumerate(rg.points):
                        sh = np.asarray(ar.points)[i * n:(i + 1) * n] - np.array([0.3, -0.1, 0.2])
                        # an orthogonal image of r * shipped points has the same Gram matrix
                        ok = ok and np.allclose(sh @ sh.T, (P * r) @ (P * r).T, rtol=0, atol=1e-11 * (1 + r * r))
                    e["p"] = "ok" if ok else "dirty"
                    e["w"] = _okd(ar.weights, np.hstack([W * wr * r ** 2 for r, wr in zip(rg.points, rg.weights)]))
                    e["pa"], e["wa"] = self._aliases(ar._points, m), self._aliases(ar.weights, m)
                elif kind == "Mol":
                    from grid.becke import BeckeWeights
                    from grid.molgrid import MolGrid
                    c1, c2 = np.array([0.0, 0.0, -0.8]), np.array([0.0, 0.3, 0.9])
                    a1 = AtomGrid(rg, degrees=[int(d)], method=m, center=c1)
                    a2 = AtomGrid(rg, degrees=[int(d)], method=m, center=c2)
                    mg = MolGrid(np.array([1, 8]), [a1, a2], BeckeWeights(), store=True)
                    exp_p = np.vstack([P * r + c for c in (c1, c2) for r in rg.points])
                    exp_w = np.hstack([W * wr * r ** 2 for _ in (0, 1) for r, wr in zip(rg.points, rg.weights)])
                    e["p"], e["w"] = _okd(mg.points, exp_p), _okd(mg.atweights, exp_w)
                    e["pa"], e["wa"] = self._aliases(mg.points, m), self._aliases(mg.atweights, m) or self._aliases(mg.weights, m)
                else:
                    v = np.cos(np.arange(2 * n) * 0.37) + 2.0
                    got = ag.integrate_angular_coordinates(v)
                    exp = np.array([np.sum(v[:n] * W), np.sum(v[n:] * W)])
                    e["w"] = _okd(got, exp)
                    sph = ag.convert_cartesian_to_spherical()
                    from grid.utils import convert_cart_to_sph
                    e["p"] = _okd(sph[:n, 1:], convert_cart_to_sph(P)[:, 1:])
                # ... and then the caller scribbles over every array this object hands out (centre, weights,
                # index table, points): nothing of that may reach a LATER construction
                for obj in [x for x in (locals().get("ag"), locals().get("ar"), locals().get("mg"), locals().get("a1")) if x is not None]:
                    for name in ("center", "weights", "indices", "points", "atcoords", "atweights", "aim_weights"):
                        try:
                            arr = getattr(obj, name)
                            if isinstance(arr, np.ndarray) and arr.flags.writeable:
                                arr += 3
                        except Exception:  # noqa: BLE001
                            pass
        except Exception as ex:
            e["exc"] = type(ex).__name__
        e["clean"] = self._clean()
        self.events.append(e)

    # -- atomic grids whose shells use several degrees; every constructor that reaches _generate_atomic_grid ------
    HOWS = ("list", "array", "sizes", "sizes-nontab", "pruned-d", "pruned-s", "preset")

    def atomset(self, m, ds, how="list", rot=0, mreq=None, zero=False):
        """AtomGrid over three shells of degrees ds = [d1, d2] (pattern depends on the constructor), built through
        ``how``; then both shell-extraction branches (r_sq, rotation), then the caller scribbles over everything."""
        from grid.atomgrid import AtomGrid
        from grid.basegrid import OneDGrid
        # (only the degrees= path of AtomGrid lower-cases the method name before it is used; the sizes / pruned / preset
        #  paths refuse other spellings whatever the history - not a matter of this property, so they get the plain name)
        mreq = (mreq or m) if how in ("list", "array") else m
        d1, d2 = int(ds[0]), int(ds[1])
        size = dict(self.tabs[m]["deg"])
        r = np.array([0.0, 1.5, 2.5]) if zero else np.array([0.5, 1.5, 2.5])
        rg = OneDGrid(r, np.array([0.25, 0.75, 0.5]), (0, np.inf))
        cen = np.array([0.2, -0.3, 0.1])
        e = self._ev("AtomSet", m=m, mreq=mreq, how=how, rot=int(rot), by="degree", reqs=[], ds=[], p="dirty", w="dirty", pa=False, wa=False)
        try:
            with warnings.catch_warnings():
                warnings.simplefilter("ignore")
                kw = dict(center=cen.copy(), rotate=int(rot), method=mreq)
                if how == "list":
                    reqs, ag = [d1, d2, d1], AtomGrid(rg, degrees=[d1, d2, d1], **kw)
                elif how == "array":
                    reqs, ag = [d2, d1, d1], AtomGrid(rg, degrees=np.array([d2, d1, d1]), **kw)
                elif how == "sizes":
                    reqs, ag = [size[d1], size[d2], size[d1]], AtomGrid(rg, sizes=[size[d1], size[d2], size[d1]], **kw)
                    e["by"] = "size"
                elif how == "sizes-nontab":
                    reqs = [size[d1] - 1, size[d2] - 1, size[d2]]
                    ag = AtomGrid(rg, degrees=None, sizes=np.array(reqs), **kw)
                    e["by"] = "size"
                elif how == "pruned-d":
                    reqs, ag = [d1, d2, d2], AtomGrid.from_pruned(rg, 1.0, r_sectors=[1.0], d_sectors=[d1, d2], **kw)
                elif how == "pruned-s":
                    reqs = [size[d1], size[d2], size[d2]]
                    ag = AtomGrid.from_pruned(rg, 1.0, r_sectors=[1.0], d_sectors=None, s_sectors=[size[d1], size[d2]], **kw)
                    e["by"] = "size"
                else:   # preset: the degrees come from the shipped preset table; the object's own report names the shells
                    ag = AtomGrid.from_preset(atnum=1, preset="coarse", rgrid=rg, **kw)
                    reqs = [int(x) for x in ag.degrees]
                degs = [_resolve(self.tabs, m, e["by"], q)[0] for q in reqs]
                e["reqs"], e["ds"] = [int(q) for q in reqs], degs
                okp = okw = True
                al_p = self._aliases(ag.points, m) or self._aliases(ag._points, m)
                al_w = self._aliases(ag.weights, m)
                pts = np.asarray(ag.points) - cen
                idx = np.asarray(ag.indices)
                okp = okp and len(idx) == 4 and [int(x) for x in ag.degrees] == degs
                for k, (dk, rk, wk) in enumerate(zip(degs, rg.points, rg.weights)):
                    P, W = _shipped(m, dk, self.tabs)
                    if not okp or idx[k + 1] - idx[k] != len(W):
                        okp = False
                        break
                    sh = pts[idx[k]:idx[k + 1]]
                    if rot:
                        okp = okp and np.allclose(sh @ sh.T, (P * rk) @ (P * rk).T, rtol=0, atol=1e-11 * (1 + rk * rk))
                    else:
                        okp = okp and _okd(sh, P * rk) == "ok"
                    okw = okw and _okd(ag.weights[idx[k]:idx[k + 1]], W * wk * rk ** 2) == "ok"
                    # shell extraction: both weight conventions; the shell grid is the matching slice of the atomic grid
                    for r_sq in (True, False):
                        sg = ag.get_shell_grid(k, r_sq=r_sq)
                        okp = okp and _okd(sg.points, sh) == "ok"
                        okw = okw and _okd(sg.weights, W * wk * (rk ** 2 if r_sq else 1.0)) == "ok"
                        al_p = al_p or self._aliases(sg.points, m)
                        al_w = al_w or self._aliases(sg.weights, m)
                        sg.points[...] = 7.0
                        sg.weights[...] = -1.0
                e["p"], e["w"] = ("ok" if okp else "dirty"), ("ok" if okw else "dirty")
                e["pa"], e["wa"] = bool(al_p), bool(al_w)
                for name in ("center", "weights", "indices", "points"):
                    arr = getattr(ag, name)
                    if isinstance(arr, np.ndarray) and arr.flags.writeable:
                        arr += 3
        except Exception as ex:
            e["exc"] = type(ex).__name__
        e["clean"] = self._clean()
        self.events.append(e)

    def molsize(self, d, store):
        """MolGrid.from_size (Lebedev only; seeded rotation of every shell) and the per-atom grids it hands out."""
        m = "lebedev"
        e = self._ev("MolSize", m=m, d=int(d), p="dirty", w="dirty", pa=False, wa=False)
        try:
            with warnings.catch_warnings():
                warnings.simplefilter("ignore")
                from grid.molgrid import MolGrid
                P, W = _shipped(m, int(d), self.tabs)
                n = len(W)
                rg = self._rgrid()
                cs = np.array([[0.0, 0.0, -0.8], [0.0, 0.3, 0.9]])
                mg = MolGrid.from_size(np.array([1, 8]), cs.copy(), size=n, rgrid=rg, rotate=5, store=bool(store))
                okp, al = True, self._aliases(mg.points, m)
                for a in (0, 1):
                    at = mg.get_atomic_grid(a)
                    pts = np.asarray(at.points) - cs[a]
                    al = al or self._aliases(at.points, m)
                    for i, r in enumerate(rg.points):
                        sh = pts[i * n:(i + 1) * n]
                        okp = okp and sh.shape == P.shape and np.allclose(sh @ sh.T, (P * r) @ (P * r).T, rtol=0, atol=1e-11 * (1 + r * r))
                    at.points[...] = 9.0
                exp_w = np.hstack([W * wr * r ** 2 for _ in (0, 1) for r, wr in zip(rg.points, rg.weights)])
                e["p"], e["w"] = ("ok" if okp else "dirty"), _okd(mg.atweights, exp_w)
                e["pa"], e["wa"] = bool(al), self._aliases(mg.atweights, m) or self._aliases(mg.weights, m)
                for name in ("weights", "points", "atweights", "atcoords", "indices"):
                    arr = getattr(mg, name)
                    if isinstance(arr, np.ndarray) and arr.flags.writeable:
                        arr += 2
        except Exception as ex:
            e["exc"] = type(ex).__name__
        e["clean"] = self._clean()
        self.events.append(e)

    def use(self, i):
        """Read-only use of a returned grid (integration, local grid): nothing may reach the caches, and what the
        operations hand out is not cached memory either."""
        if not (1 <= i <= len(self.objs)):
            return
        e = self._ev("Use", i=int(i), pa=False)
        o = self.objs[i - 1]
        try:
            with warnings.catch_warnings():
                warnings.simplefilter("ignore")
                if len(o) == 4:
                    g = o[3]
                    g.integrate(np.ones(g.size))
                    loc = g.get_localgrid(np.array([0.0, 0.0, 1.0]), 1.2)
                    e["pa"] = self._aliases(loc.points, o[0]) or self._aliases(loc.weights, o[0])
                    if loc.size:
                        loc.points[...] = 5.0
                        loc.weights[...] = 5.0
        except Exception as ex:
            e["exc"] = type(ex).__name__
        e["clean"] = self._clean()
        self.events.append(e)

    def run(self, beh, mmap, dmap, pick=None):
        """Replay a behaviour of CacheGen.  ``pick`` (a random.Random) chooses, for every abstract action, one of the
        concrete ways to perform it (request spelling, constructor); without it the plain forms are used."""
        for act, a, b, c in beh:
            if pick is not None and act in ("New", "AtomSet", "Mol"):
                m = mmap[a]
                if act == "New":
                    d = dmap[m][b]
                    if pick.random() < 0.5:
                        self.new(m, d, c, req=pick.choice(_requests(self.tabs, m, d)), mreq=pick.choice(SPELL[m]))
                    else:
                        self.new(m, d, c)
                elif act == "AtomSet":
                    self.atomset(m, [dmap[m][3], dmap[m][5]], how=pick.choice(self.HOWS), rot=pick.choice([0, 0, 5]),
                                 mreq=pick.choice(SPELL[m]), zero=pick.random() < 0.25)
                elif m == "lebedev" and pick.random() < 0.3:
                    self.molsize(dmap[m][b], store=pick.random() < 0.5)
                else:
                    self.atom(m, dmap[m][b], act)
                continue
            if act == "AtomSet":
                self.atomset(mmap[a], [dmap[mmap[a]][3], dmap[mmap[a]][5]])
                continue
            if act == "Use":
                self.use(b)
                continue
            if act == "New":
                self.new(mmap[a], dmap[mmap[a]][b], c)
            elif act == "Edit":
                self.edit(b, a)
            elif act == "Drop":
                self.drop(b)
            else:
                self.atom(mmap[a], dmap[mmap[a]][b], act)
        return self.events


def _sym(z):
    """Element symbol of atomic number z (independent small table: the elements the harness uses)."""
    return {1: "H", 6: "C", 7: "N", 8: "O", 9: "F", 15: "P", 16: "S", 17: "Cl"}[z]


# --------------------------------------------------------------------------------------------
class ScaleDriver:
    OPS = ["transform", "deriv", "deriv2", "deriv3", "inverse", "deriv_inverse", "transform_1d_grid"]

    def __init__(self, cls, b0):
        import grid.rtransform as rt
        self.cls = getattr(rt, cls)
        self.args = (0.5, 20.0)
        self.tf = self.cls(*self.args, b=(None if b0 == 0 else float(b0)))
        self.events = [{"ev": "NewTf", "cls": cls, "b0": int(b0)}]

    @staticmethod
    def _b(tf):
        if tf.b is None:
            return 0
        try:
            a = np.asarray(tf.b, dtype=float).reshape(-1)
            b = float(a[0]) if a.size == 1 else float("nan")
        except Exception:  # noqa: BLE001   (whatever a changed library keeps there must not crash the harness)
            return -7
        return int(b) if (np.isfinite(b) and b.is_integer() and 0 < b < 1e6) else -7   # -7: not a value the harness ever supplied

    def _do(self, tf, op, x):
        from grid.basegrid import OneDGrid
        if op == "transform_1d_grid":
            g = tf.transform_1d_grid(OneDGrid(x.copy(), np.ones(len(x)), (0, np.inf)))
            return np.concatenate([g.points, g.weights])
        return np.asarray(getattr(tf, op)(x.copy()))

    def call(self, op, n):
        # arguments: 0..n-1 for forward operations, radii 1..n for inverse-type operations
        x = np.arange(n, dtype=float) + (1.0 if op in ("inverse", "deriv_inverse") else 0.0)
        e = {"ev": "Call", "op": op, "xmax": int(np.max(x)) if np.isfinite(np.max(x)) else -7, "bpre": self._b(self.tf), "bpost": 0, "pure": True,
             "dep": False, "exc": ""}
        try:
            with warnings.catch_warnings():
                warnings.simplefilter("ignore")
                got = self._do(self.tf, op, x)
                bnow = self.tf.b
                e["bpost"] = self._b(self.tf)
                fresh = self.cls(*self.args, b=bnow)
                ref = self._do(fresh, op, x)
                e["pure"] = bool(np.array_equal(got, ref, equal_nan=True))
                # does this operation use the scale at all?  (two explicit scales give different results)
                r1 = self._do(self.cls(*self.args, b=3.0), op, x)
                r2 = self._do(self.cls(*self.args, b=11.0), op, x)
                e["dep"] = not bool(np.array_equal(r1, r2, equal_nan=True))
        except Exception as ex:
            e["exc"] = type(ex).__name__
        self.events.append(e)


def _scale_traces(rng, n):
    """Random call sequences on the three b-inferring transforms (integer-valued arguments, so
    every inferred scale is an integer the specification can compare)."""
    out = []
    for k in range(n):
        cls = ["LinearInfiniteRTransform", "ExpRTransform", "PowerRTransform"][k % 3]
        b0 = rng.choice([0, 0, 5, 9])
        d = ScaleDriver(cls, b0)
        ops = [o for o in ScaleDriver.OPS]
        for _ in range(rng.randint(2, 7)):
            op = rng.choice(ops)
            d.call(op, rng.choice([4, 6, 11]))
        out.append(d.events)
    return out


# --------------------------------------------------------------------------------------------
class ScaleDriver2:
    """Two transform objects in one process (spec/ScaleMulti.tla): bare or wrapped in InverseRTransform, called with
    argument arrays in any order and dtype; after a call the caller may scribble over the array it passed."""
    XOPS = ["transform", "deriv", "deriv2", "deriv3", "transform_1d_grid"]                 # argument in the domain
    ROPS = ["inverse", "deriv_inverse", "deriv2_inverse", "deriv3_inverse"]                # argument in the codomain
    WRAP_ROPS = ["transform", "deriv", "deriv2", "deriv3"]                                 # InverseRTransform: radii in
    WRAP_XOPS = ["inverse", "deriv_inverse"]
    SHAPES = ["asc", "desc", "shuffled", "dupmax", "int", "f32", "scalar", "0d"]

    def __init__(self, specs):
        import grid.rtransform as rt
        self.rt = rt
        self.specs = specs                      # [(class name, b0, wrapped?)] * 2
        self.inner = [getattr(rt, c)(0.5, 20.0, b=(None if b0 == 0 else float(b0))) for c, b0, _ in specs]
        self.tfs = [rt.InverseRTransform(t) if w else t for t, (_, _, w) in zip(self.inner, specs)]
        self.last_x = [None, None]
        self.events = [{"ev": "Setup", "b0": [int(b0) for _, b0, _ in specs], "cls": [c for c, _, _ in specs],
                        "wrap": [bool(w) for _, _, w in specs]}]

    @staticmethod
    def _bval(tf):
        """The remembered scale as the specification sees it: 0 = None, a positive integer, -7 = anything else."""
        try:
            b = tf.b
            if b is None:
                return 0
            a = np.asarray(b, dtype=float).reshape(-1)
            if a.size != 1:
                return -7
            v = float(a[0])
            return int(v) if (np.isfinite(v) and v.is_integer() and 0 < v < 1e6) else -7
        except Exception:  # noqa: BLE001
            return -7

    def _ball(self):
        return [self._bval(t) for t in self.inner]

    def _fresh(self, k, b):
        t = getattr(self.rt, self.specs[k][0])(0.5, 20.0, b=b)
        return self.rt.InverseRTransform(t) if self.specs[k][2] else t

    @staticmethod
    def _do(tf, op, x):
        from grid.basegrid import OneDGrid
        if op == "transform_1d_grid":
            g = tf.transform_1d_grid(OneDGrid(x, np.ones(len(x)), (0, np.inf)))
            return np.concatenate([g.points, g.weights])
        return np.asarray(getattr(tf, op)(x))

    def ops(self, k):
        return (self.WRAP_ROPS + self.WRAP_XOPS) if self.specs[k][2] else (self.XOPS + self.ROPS)

    def array(self, k, op, n, shape, rng):
        radii = op in (self.WRAP_ROPS if self.specs[k][2] else self.ROPS)
        v = np.arange(n, dtype=float) + (1.0 if radii else 0.0)
        if shape == "desc":
            v = v[::-1].copy()
        elif shape == "shuffled":
            v = v[rng.permutation(n)]
            if v[-1] == v.max():                        # never leave the maximum at the end
                v[[0, -1]] = v[[-1, 0]]
        elif shape == "dupmax":
            v = np.concatenate([[v.max()], v[rng.permutation(n)], [v.min()]])
        elif shape == "int":
            v = v[rng.permutation(n)].astype(np.int64)
        elif shape == "f32":
            v = v[::-1].astype(np.float32)
        elif shape == "scalar":
            v = np.float64(n)
        elif shape == "0d":
            v = np.array(float(n))
        return v

    def call(self, k, op, x, zero=False):
        """k: 0/1.  x is handed to the library as it is and remembered for a later Scribble."""
        x0 = x.copy()
        e = {"ev": "Call", "k": k + 1, "op": op, "cls": self.specs[k][0], "wrap": bool(self.specs[k][2]), "dtype": str(x.dtype),
             "xmax": int(np.max(x0)), "maxlast": bool(np.ravel(x0)[-1] == np.max(x0)), "bpre": self._ball(), "bpost": [0, 0], "pure": True, "dep": False, "exc": ""}
        try:
            with warnings.catch_warnings():
                warnings.simplefilter("ignore")
                try:
                    got = self._do(self.tfs[k], op, x)
                finally:
                    e["bpost"] = self._ball()
                    self.last_x[k] = x
                bnow = self.inner[k].b
                ref = self._do(self._fresh(k, bnow), op, x0.copy())
                e["pure"] = bool(np.array_equal(got, ref, equal_nan=True))
                r1 = self._do(self._fresh(k, 3.0), op, x0.copy())
                r2 = self._do(self._fresh(k, 11.0), op, x0.copy())
                e["dep"] = not bool(np.array_equal(r1, r2, equal_nan=True))
        except Exception as ex:
            e["exc"] = type(ex).__name__
        self.events.append(e)

    def refused_grid(self, k):
        """transform_1d_grid with a rule on (-1, 1): these half-line transformations refuse it.  Logged as "Refused"
        when the library raises; as an ordinary Call if it should ever accept such a grid."""
        from grid.basegrid import OneDGrid
        x = np.array([-0.5, 0.25, 0.75])
        e = {"ev": "Refused", "k": k + 1, "op": "transform_1d_grid[domain outside]", "cls": self.specs[k][0], "wrap": bool(self.specs[k][2]),
             "dtype": "float64", "xmax": 1, "maxlast": True, "bpre": self._ball(), "bpost": [0, 0], "pure": True, "dep": False, "exc": ""}
        try:
            with warnings.catch_warnings():
                warnings.simplefilter("ignore")
                self.tfs[k].transform_1d_grid(OneDGrid(x, np.ones(3), (-1, 1)))
        except Exception as ex:
            e["exc"] = type(ex).__name__
        e["bpost"] = self._ball()
        if e["exc"] == "":
            return          # accepted: not this clause's subject (C04 / X01 judge the domain check itself)
        self.events.append(e)

    def scribble(self, k):
        if self.last_x[k] is None:
            return
        e = {"ev": "Scribble", "k": k + 1, "cls": self.specs[k][0], "wrap": bool(self.specs[k][2]), "op": "caller-edits-passed-array",
             "bpre": self._ball(), "exc": ""}
        if isinstance(self.last_x[k], np.ndarray):
            self.last_x[k] += 100
            if self.last_x[k].ndim:
                self.last_x[k][...] = self.last_x[k][::-1].copy()
        e["bpost"] = self._ball()
        self.events.append(e)


def _scale2_traces(rng, nprng, n):
    classes = ["LinearInfiniteRTransform", "ExpRTransform", "PowerRTransform"]
    out = []
    for t in range(n):
        c1 = classes[t % 3]
        c2 = c1 if rng.random() < 0.5 else rng.choice(classes)      # often two objects of ONE class
        d = ScaleDriver2([(c1, rng.choice([0, 0, 5, 9]), rng.random() < 0.25), (c2, rng.choice([0, 0, 0, 7]), rng.random() < 0.25)])
        zero_trace = (t % 7 == 3)       # a minority of the traces contains a call with an all-zero grid (see the ZeroCall action)
        lastk = None
        for _ in range(rng.randint(3, 8)):
            k = rng.randint(0, 1)
            u = rng.random()
            if u < 0.2 and lastk is not None:
                d.scribble(lastk)
                lastk = None
                continue
            if t % 5 == 1 and 0.6 < u <= 0.8 and not d.specs[k][2]:
                d.refused_grid(k)           # a minority of the traces: a grid whose domain the transformation refuses
                lastk = None
                continue
            if zero_trace and u > 0.8 and not d.specs[k][2]:
                d.call(k, rng.choice(["transform", "deriv"]), np.zeros(rng.choice([1, 4])))
                lastk = k
                continue
            op = rng.choice(d.ops(k))
            shape = rng.choice(ScaleDriver2.SHAPES)
            if op == "transform_1d_grid" and shape in ("int", "scalar", "0d"):
                shape = "desc"
            d.call(k, op, d.array(k, op, rng.choice([4, 6, 11]), shape, nprng))
            lastk = k
        out.append(d.events)
    return out


# --------------------------------------------------------------------------------------------
class CoulombDriver:
    """The lazily loaded Coulomb parameter table (spec/CoulombSys.tla)."""
    SPELLINGS = ["int", "npint", "symbol", "lower", "upper", "padded"]
    REFUSED = {"unknown-symbol": "Xx", "unknown-number": 200, "not-fitted": 2, "not-fitted-symbol": "he", "bad-type": 1.0}

    def __init__(self, coul_ref):
        import grid.coulomb as coul
        self.coul = coul
        self.ref = coul_ref
        coul._ATOMIC_GAUSS_PARAMS_CACHE = None
        self.held = []
        self.first = {}
        self.events = []

    def _kept(self):
        """Every ndarray reachable from the module's cache (one level of nesting is what the loader could keep)."""
        tab = self.coul._ATOMIC_GAUSS_PARAMS_CACHE
        out = []
        if isinstance(tab, dict):
            for v in tab.values():
                for x in (v.values() if isinstance(v, dict) else v if isinstance(v, (list, tuple)) else []):
                    if isinstance(x, np.ndarray):
                        out.append(x)
        return out

    def _clean(self):
        tab = self.coul._ATOMIC_GAUSS_PARAMS_CACHE
        if tab is None:
            return True
        if not isinstance(tab, dict):
            return False
        for sym, ref in self.ref.items():
            if sym in tab:
                v = tab[sym]
                for k, r in ref.items():
                    if not isinstance(v, dict) or k not in v or _okd(v[k], r) != "ok":
                        return False
        return True

    def _arg(self, z, sp):
        sym = _sym(int(z))
        return {"int": int(z), "npint": np.int64(z), "symbol": sym, "lower": sym.lower(), "upper": sym.upper(), "padded": f"  {sym} "}[sp]

    def load(self, z, sp):
        e = {"ev": "Load", "z": int(z), "sp": sp, "c": "dirty", "a": "dirty", "ca": False, "aa": False, "ua": False, "same": False,
             "clean": True, "exc": ""}
        try:
            c, a = self.coul.load_atomic_gaussian_params(self._arg(z, sp))
            ref = self.ref[_sym(int(z))]
            e["c"], e["a"] = _okd(c, ref["coeffs_s"]), _okd(a, ref["alphas_s"])
            kept = self._kept()
            e["ca"] = any(np.shares_memory(c, x) for x in kept)
            e["aa"] = any(np.shares_memory(a, x) for x in kept)
            e["ua"] = any(np.shares_memory(y, x) for y in (c, a) for h in self.held for x in h[1:]) or np.shares_memory(c, a)
            f = self.first.setdefault(int(z), (np.array(c, copy=True), np.array(a, copy=True)))
            e["same"] = bool(np.array_equal(f[0], c) and np.array_equal(f[1], a))
            self.held.append((int(z), c, a))
        except Exception as ex:
            e["exc"] = type(ex).__name__
        e["clean"] = self._clean()
        self.events.append(e)

    def edit(self, i, part):
        if not (1 <= i <= len(self.held)):
            return
        e = {"ev": "Edit", "i": int(i), "part": part, "clean": True, "exc": ""}
        arr = self.held[i - 1][1 if part == "c" else 2]
        try:
            arr += 1.0
            arr *= 1.5
        except Exception as ex:
            e["exc"] = type(ex).__name__
        e["clean"] = self._clean()
        self.events.append(e)

    def drop(self, i):
        if not (1 <= i <= len(self.held)):
            return
        del self.held[i - 1]
        self.events.append({"ev": "Drop", "i": int(i), "clean": self._clean(), "exc": ""})

    def refused(self, kind):
        e = {"ev": "Refused", "kind": kind, "clean": True, "exc": "", "returned": False}
        try:
            self.coul.load_atomic_gaussian_params(self.REFUSED[kind])
            e["returned"] = True
        except Exception as ex:
            e["exc"] = type(ex).__name__
        e["clean"] = self._clean()
        self.events.append(e)

    def run(self, beh, spmap, kindmap):
        for act, a, b in beh:
            if act == "Load":
                self.load(b, spmap[a])
            elif act == "Edit":
                self.edit(b, a)
            elif act == "Drop":
                self.drop(b)
            else:
                self.refused(kindmap[a])
        return self.events


SPMAPS = [{"int": "int", "lower": "lower"}, {"int": "npint", "lower": "upper"}, {"int": "symbol", "lower": "padded"},
          {"int": "padded", "lower": "int"}]
KINDMAPS = [{"unknown-symbol": "unknown-symbol", "not-fitted": "not-fitted"}, {"unknown-symbol": "unknown-number", "not-fitted": "not-fitted-symbol"},
            {"unknown-symbol": "bad-type", "not-fitted": "not-fitted"}]


# --------------------------------------------------------------------------------------------
def _model_runs(rep, wd, parts=("cache", "scale", "coulomb")):
    """The pure model-checking runs (no observation of the library involved)."""
    if "cache" in parts:
        r = tlc.run_tlc("CacheSys", "MC_Cache_copying.cfg", wd, workers=8, coverage=True, timeout=900).require_ok("copying")
        rep.tlc(r, "MC_Cache_copying")
        if r.status == "violation":
            rep.violation("model:design", f"the copying design violates {r.violated}", tlc.last_state(r))
        for act in ("NewAngular", "Edit", "Drop", "NewAtom", "Shell", "AtomOp", "NewAtomRot", "NewMol", "NewAtomSet", "Use"):
            if act in r.coverage and r.coverage[act][1] == 0:
                raise tlc.MachineryError(f"vacuity: action {act} never taken")
        r2 = tlc.run_tlc("CacheSys", "MC_Cache_asShippedFresh.cfg", wd, workers=4).require_ok("asShipped")
        rep.set("as_shipped_variant_refuted", r2.status == "violation")
        if r2.status != "violation":
            raise tlc.MachineryError("as-shipped aliasing variant is not refuted: the model lost its teeth")
        r3 = tlc.run_tlc("CacheSys", "MC_Cache_witness.cfg", wd, workers=4).require_ok("witness")
        if r3.status != "violation":
            raise tlc.MachineryError("vacuity: witness edit-then-rebuild not reachable")
    if "scale" in parts:
        r4 = tlc.run_tlc("ScaleSys", "MC_Scale.cfg", wd, workers=4).require_ok("scale")
        rep.tlc(r4, "MC_Scale")
        if r4.status == "violation":
            rep.violation("model:scale", f"ScaleSys violates {r4.violated}", tlc.last_state(r4))
        r5 = tlc.run_tlc("ScaleMulti", "MC_ScaleMulti.cfg", wd, workers=2).require_ok("scale-multi")
        rep.tlc(r5, "MC_ScaleMulti")
        if r5.status == "violation":
            rep.violation("model:scale-multi", f"ScaleMulti violates {r5.violated}", tlc.last_state(r5))
        r6 = tlc.run_tlc("ScaleMulti", "MC_ScaleMulti_witness.cfg", wd, workers=2).require_ok("scale-multi-witness")
        if r6.status != "violation":
            raise tlc.MachineryError("vacuity: two objects with different fixed scales not reachable")
    if "coulomb" in parts:
        r7 = tlc.run_tlc("CoulombSys", "MC_CoulombTab_fresh.cfg", wd, workers=2).require_ok("coulomb-fresh")
        rep.tlc(r7, "MC_CoulombTab_fresh")
        if r7.status == "violation":
            rep.violation("model:coulomb", f"CoulombSys (fresh arrays on every call) violates {r7.violated}", tlc.last_state(r7))
        r8 = tlc.run_tlc("CoulombSys", "MC_CoulombTab_cached.cfg", wd, workers=2).require_ok("coulomb-cached")
        rep.set("coulomb_handing_out_cached_arrays_refuted", r8.status == "violation")
        if r8.status != "violation":
            raise tlc.MachineryError("the variant that hands out cached parameter arrays is not refuted")
        r9 = tlc.run_tlc("CoulombSys", "MC_CoulombTab_witness.cfg", wd, workers=2).require_ok("coulomb-witness")
        if r9.status != "violation":
            raise tlc.MachineryError("vacuity: witness edit-then-load not reachable")


def _validate(rep, wd, traces, meta, module, cfgname, fname, label, who=None):
    with open(wd / fname, "w") as f:
        json.dump(traces, f)
    res = tlc.run_tlc(module, cfgname, wd, workers=1, timeout=1500, xmx="12g").require_ok(module)
    rep.tlc(res, module)
    acc = tlc.tagged(res.stdout, "ACCEPT")
    rej = tlc.tagged(res.stdout, "REJECT")
    if res.status == "violation":
        rep.violation(f"{label}:spec-invariant:{','.join(res.violated)}", f"invariant {res.violated} fails on a recorded trace", tlc.last_state(res))
    for _, tid, pos, evname, clause in rej:
        ev = traces[tid - 1][pos - 1]
        mt = meta[tid - 1]
        what = who(ev) if who else (ev.get("m") or (mt.get("cls") if isinstance(mt, dict) else None) or "?")
        rep.violation(f"{label}:{what}:{evname}:{clause}",
                      f"{label}: event {pos} ({evname}) of a recorded trace is not allowed by the specification: {clause}; "
                      f"trace so far {json.dumps(traces[tid - 1][:pos])[:600]}",
                      {"trace": traces[tid - 1][:pos], "meta": meta[tid - 1]})
    if res.status == "ok" and len(acc) + len(rej) != len(traces):
        raise tlc.MachineryError(f"{module}: {len(acc)}+{len(rej)} verdicts for {len(traces)} traces")
    return len(acc)


ALLM = ["lebedev", "spherical", "maxdet", "ahrens_beylkin"]
_G: dict = {}


def _replay_chunk(jobs):
    out = []
    for beh, ci, vs in jobs:
        mmap, dmap = _G["conc"][ci]
        out.append(CacheDriver(_G["tabs"], _G["coul_ref"]).run(beh, mmap, dmap, pick=None if vs is None else random.Random(vs)))
    return out


def _cache_part(rep, wd, tier, rng, tabs, coul_ref, pool=None):
    with open(wd / "tabs_c19.json", "w") as f:
        json.dump({m: [{"d": int(d), "s": int(s)} for d, s in tabs[m]["deg"]] for m in ALLM}, f)
    g = tlc.run_tlc("CacheGen", "Gen_Cache.cfg", wd, workers=8, timeout=900).require_ok("Gen_Cache")
    rep.tlc(g, "Gen_Cache")
    behs = sorted(b[1] for b in tlc.tagged(g.stdout, "BEH"))
    if len(behs) < 500:
        raise tlc.MachineryError(f"only {len(behs)} behaviours generated")
    rep.set("tlc_behaviours_generated", len(behs))

    concretisations = _G["conc"]
    traces, meta = [], []
    sel = behs if tier == "thorough" else rng.sample(behs, 1500)
    jobs = []
    for bi, beh in enumerate(sel):
        for ci in range(len(concretisations)):
            if tier == "quick" and (bi + ci) % 2:
                continue
            # every other behaviour is replayed with the plain forms of the calls, the others with randomly chosen
            # equivalent forms (request spelling, constructor, rotation); the choice depends on (seed, behaviour) only
            varied = (bi // 2 + ci) % 2 == 1
            jobs.append((beh, ci, (rep.seed * 1000003 + bi * 2 + ci) if varied else None))
    if pool is not None:
        # the replays are independent (every one starts from empty caches): eight forked workers (they inherit the imported
        # library as it is, including the in-process mutants of the selftest)
        chunks = [jobs[k:k + 400] for k in range(0, len(jobs), 400)]
        done = [ev for part in pool.map(_replay_chunk, chunks) for ev in part]
    else:
        done = _replay_chunk(jobs)
    for (beh, ci, vs), ev in zip(jobs, done):
        if ev:
            traces.append(ev)
            meta.append({"behaviour": beh, "methods": concretisations[ci][0], "varied": vs is not None})
    # random longer behaviours over all methods + the Coulomb table
    allm = ALLM
    small = {m: [d for d, s in tabs[m]["deg"] if s <= 200][:3] for m in allm}
    # also: Lebedev degrees with negative weights (warning branch), the smallest grids, and in the thorough tier larger ones
    extra = {"lebedev": [13, 25, 27], "spherical": [1], "maxdet": [1, 2], "ahrens_beylkin": []}
    if tier == "thorough":
        for m in allm:
            extra[m] = extra[m] + [d for d, s in tabs[m]["deg"] if 200 < s <= 1600][::4]
    nrand = 150 if tier == "quick" else 2000
    elements = [1, 6, 8, 17]
    for _ in range(nrand):
        d = CacheDriver(tabs, coul_ref)
        for _ in range(rng.randint(4, 12)):
            x = rng.random()
            m = rng.choice(allm)
            pool = small[m] + (extra[m] if rng.random() < 0.15 else [])
            if x < 0.35:
                if rng.random() < 0.15:
                    d.new("coulomb", rng.choice(elements), True)
                else:
                    r = rng.random()
                    dd = rng.choice(pool)
                    built = [o for o in d.objs if o[0] == m and len(o) == 4]
                    if r < 0.08:
                        d.new("maxdet", 50, True)          # the default value of the (ignored) degree argument is tabulated here
                    elif r < 0.25:
                        d.new(m, dd, rng.random() < 0.6, by_size=True)
                    elif r < 0.40 and built:
                        d.new(m, dd, rng.random() < 0.6, by_size=True, ignored_degree=int(rng.choice(built)[3].degree))
                    elif r < 0.70:
                        d.new(m, dd, rng.random() < 0.6, req=rng.choice(_requests(tabs, m, dd)), mreq=rng.choice(SPELL[m]))
                    else:
                        d.new(m, dd, rng.random() < 0.6)
            elif x < 0.57:
                if d.objs:
                    d.edit(rng.randint(1, len(d.objs)), rng.choice("pw"))
            elif x < 0.62:
                if d.objs:
                    d.use(rng.randint(1, len(d.objs)))
            elif x < 0.7:
                if d.objs:
                    d.drop(rng.randint(1, len(d.objs)))
            elif x < 0.82:
                ds = rng.sample(small[m], 2)
                d.atomset(m, ds, how=rng.choice(CacheDriver.HOWS), rot=rng.choice([0, 0, 5]), mreq=rng.choice(SPELL[m]), zero=rng.random() < 0.25)
            elif x < 0.86:
                d.molsize(rng.choice(small["lebedev"]), store=rng.random() < 0.5)
            else:
                d.atom(m, rng.choice(small[m]), rng.choice(["Atom", "Shell", "AtomOp", "AtomRot", "Mol"]))
        if d.events:
            traces.append(d.events)
            meta.append({"random": True})
    for ev in traces:
        rep.evaluated(len(ev), json.dumps([(e["ev"], e.get("m"), e.get("d"), e.get("flag"), e.get("i"), e.get("part"), e.get("req"), e.get("how")) for e in ev]))
    useddeg = sorted({e["d"] for t in traces for e in t if "d" in e} | {x for t in traces for e in t for x in e.get("ds", [])})
    (wd / "Trace_Cache.cfg").write_text(
        "SPECIFICATION TSpec\nCONSTANTS\n  Methods = {\"lebedev\", \"spherical\", \"maxdet\", \"ahrens_beylkin\", \"coulomb\"}\n"
        "  Scaled = {\"lebedev\", \"spherical\"}\n  Degrees = {" + ", ".join(map(str, useddeg)) + "}\n  MaxObjs = 1000\n"
        "  Aliasing = \"copying\"\nINVARIANT FreshIsShipped\nINVARIANT CacheClean\nINVARIANT NoAliasCacheUser\n")
    nacc = _validate(rep, wd, traces, meta, "CacheTrace", wd / "Trace_Cache.cfg", "traces_c19.json", "cache")
    kinds = {}
    for t in traces:
        for e in t:
            k = e["ev"] + (":" + e["how"] if "how" in e else "") + (":nontab" if e.get("req") not in (None, e.get("d"), e.get("os")) else "")
            kinds[k] = kinds.get(k, 0) + 1
    rep.set("cache_events_by_kind", kinds)
    rep.sample({"cache_trace": traces[0]})
    rep.sample({"cache_trace_random": traces[-1][:5]})
    return len(traces), nacc


def _scale_part(rep, wd, tier, rng):
    st = _scale_traces(rng, 300 if tier == "quick" else 5000)
    for ev in st:
        rep.evaluated(len(ev) - 1, json.dumps([(e.get("cls"), e.get("b0"), e.get("op"), e.get("xmax")) for e in ev]))
    (wd / "Trace_Scale.cfg").write_text("SPECIFICATION TSpec\nCONSTANTS\n  Ops = {}\n  XMaxs = {}\n  BInit = {}\n")
    nacc = _validate(rep, wd, st, [e[0] for e in st], "ScaleTrace", wd / "Trace_Scale.cfg", "traces_scale.json", "scale")
    # two objects, arrays in any order / dtype, wrapped transforms, the caller scribbling over what it passed
    nprng = np.random.default_rng(rep.seed)
    st2 = _scale2_traces(rng, nprng, 400 if tier == "quick" else 6000)
    for ev in st2:
        rep.evaluated(len(ev) - 1, json.dumps([ev[0]["cls"], ev[0]["b0"], ev[0]["wrap"]] + [(e["ev"], e["k"], e.get("op"), e.get("xmax"), e.get("dtype")) for e in ev[1:]]))
    (wd / "Trace_Scale2.cfg").write_text("SPECIFICATION TSpec\nCONSTANTS\n  Inst = {1, 2}\n  Ops = {}\n  XMaxs = {}\n  BInit = {}\n")
    nacc += _validate(rep, wd, st2, [e[0] for e in st2], "ScaleMultiTrace", wd / "Trace_Scale2.cfg", "traces_scale2.json", "scale2",
                      who=lambda e: ("Inverse(" + e["cls"] + ")" if e.get("wrap") else e.get("cls", "?")) + ":" + str(e.get("op", "")))
    rep.set("scale2_events", {"calls": sum(1 for t in st2 for e in t if e["ev"] == "Call"),
                              "scribbles": sum(1 for t in st2 for e in t if e["ev"] == "Scribble"),
                              "zero_grid_calls": sum(1 for t in st2 for e in t if e["ev"] == "Call" and e["xmax"] == 0),
                              "maximum_not_the_last_element": sum(1 for t in st2 for e in t if e["ev"] == "Call" and not e["maxlast"])})
    rep.sample({"scale_trace": st[0]})
    rep.sample({"scale2_trace": st2[0]})
    return len(st) + len(st2), nacc


def _coulomb_part(rep, wd, tier, rng, coul_ref):
    g = tlc.run_tlc("CoulombGen", "Gen_CoulombTab.cfg", wd, workers=4, timeout=900).require_ok("Gen_CoulombTab")
    rep.tlc(g, "Gen_CoulombTab")
    behs = sorted(b[1] for b in tlc.tagged(g.stdout, "CBEH"))
    if len(behs) < 1000:
        raise tlc.MachineryError(f"only {len(behs)} Coulomb-table behaviours generated")
    rep.set("tlc_coulomb_behaviours_generated", len(behs))
    traces, meta = [], []
    for bi, beh in enumerate(behs):
        for si in (range(len(SPMAPS)) if tier == "thorough" else [(bi + rep.seed) % len(SPMAPS)]):
            ev = CoulombDriver(coul_ref).run(beh, SPMAPS[si], KINDMAPS[(bi + si) % len(KINDMAPS)])
            traces.append(ev)
            meta.append({"behaviour": beh, "spellings": SPMAPS[si]})
    # random longer histories over every fitted element and spelling
    for _ in range(200 if tier == "quick" else 3000):
        d = CoulombDriver(coul_ref)
        for _ in range(rng.randint(4, 12)):
            x = rng.random()
            if x < 0.5:
                d.load(rng.choice([1, 6, 7, 8, 17]), rng.choice(CoulombDriver.SPELLINGS))
            elif x < 0.75:
                if d.held:
                    d.edit(rng.randint(1, len(d.held)), rng.choice("ca"))
            elif x < 0.85:
                if d.held:
                    d.drop(rng.randint(1, len(d.held)))
            else:
                d.refused(rng.choice(sorted(CoulombDriver.REFUSED)))
        if d.events:
            traces.append(d.events)
            meta.append({"random": True})
    for ev in traces:
        rep.evaluated(len(ev), json.dumps([(e["ev"], e.get("z"), e.get("sp"), e.get("i"), e.get("part"), e.get("kind")) for e in ev]))
    (wd / "Trace_CoulombTab.cfg").write_text(
        "SPECIFICATION TSpec\nCONSTANTS\n  Fitted = {1, 6, 7, 8, 17}\n  Spell = {" + ", ".join(json.dumps(x) for x in CoulombDriver.SPELLINGS) + "}\n"
        "  RefusedKinds = {" + ", ".join(json.dumps(x) for x in sorted(CoulombDriver.REFUSED)) + "}\n  MaxObjs = 1000\n  Handout = \"fresh\"\n"
        "INVARIANT EveryCallEqual\nINVARIANT TableClean\nINVARIANT NoAliasTableUser\n")
    nacc = _validate(rep, wd, traces, meta, "CoulombTrace", wd / "Trace_CoulombTab.cfg", "traces_coulomb.json", "coulomb",
                     who=lambda e: f"{e.get('z', e.get('kind', ''))}:{e.get('sp', '')}")
    rep.sample({"coulomb_trace": traces[0]})
    return len(traces), nacc


def run(tier: str, parts=("models", "cache", "scale", "coulomb", "suite")) -> int:
    from concurrent.futures import ThreadPoolExecutor
    rep = Report(PROP, tier, "model_checking")
    rng = random.Random(rep.seed)
    wd = tlc.scratch(f"{PROP}-{tier}")
    tabs = extract.angular_tables()
    with open(extract.DATA / "atomic_gauss_params.json") as f:
        coul_ref = {k: {kk: np.asarray(vv, dtype=float) for kk, vv in v.items() if isinstance(vv, list)}
                    for k, v in json.load(f).items()}
    ntr = nacc = 0

    def degs(m):
        ds = [d for d, s in tabs[m]["deg"] if s <= 200]
        return {3: ds[0], 5: ds[1]}
    _G.update(tabs=tabs, coul_ref=coul_ref, conc=[
        ({"lebedev": "lebedev", "maxdet": "maxdet"}, {m: degs(m) for m in ("lebedev", "maxdet")}),
        ({"lebedev": "spherical", "maxdet": "ahrens_beylkin"}, {m: degs(m) for m in ("spherical", "ahrens_beylkin")})])
    pool = None
    if tier == "thorough" and "cache" in parts:
        import multiprocessing as mp
        pool = mp.get_context("fork").Pool(8)      # forked before any thread exists
    # the pure model runs need nothing from the library: they run (as subprocesses) beside the replays
    with ThreadPoolExecutor(1) as ex:
        fut = ex.submit(_model_runs, rep, tlc.scratch(f"{PROP}-{tier}-models"),
                        tuple(p for p in ("cache", "scale", "coulomb") if p in parts)) if "models" in parts else None
        try:
            if "cache" in parts:
                a, b = _cache_part(rep, wd, tier, rng, tabs, coul_ref, pool)
                ntr, nacc = ntr + a, nacc + b
            if "scale" in parts:
                a, b = _scale_part(rep, wd, tier, random.Random(rep.seed + 101))
                ntr, nacc = ntr + a, nacc + b
            if "coulomb" in parts:
                a, b = _coulomb_part(rep, wd, tier, random.Random(rep.seed + 202), coul_ref)
                ntr, nacc = ntr + a, nacc + b
            if tier == "thorough" and "suite" in parts and "cache" in parts:
                # every AngularGrid construction made by the repository's angular / atomic-grid tests
                from .. import record
                record.judge_suite(rep, wd, "angular", ["src/grid/tests/test_angular.py", "src/grid/tests/test_atomgrid.py"], "angular")
        finally:
            if pool is not None:
                pool.terminate()
            if fut is not None:
                fut.result()
    rep.set("traces_validated_against_impl", ntr)
    rep.set("traces_accepted", nacc)
    rep.set("rule", "one case = one recorded event of a replayed behaviour (cache machine: New/Edit/Drop/Use/Atom/Shell/AtomOp/AtomRot/Mol/"
                    "MolSize/AtomSet; scale machines: Call/Scribble; Coulomb table: Load/Edit/Drop/Refused), judged by TLC; "
                    "distinct = distinct event sequences")
    rep.assume("contents are compared with the shipped .npz/.json files loaded independently (allclose rtol 1e-12); an in-place edit adds 1 and scales by 1.5")
    rep.assume("which tabulated grid a request denotes (least tabulated degree / size >= the number asked for) is stated by CacheReq.tla over the "
               "tables extracted from the library; TLC cross-checks the harness' resolution of every request")
    return rep.finish()


def selftest(tier: str = "quick") -> int:
    from ..evidence import patched, run_mutants
    import grid.angular as ang
    import grid.atomgrid as agm
    import grid.rtransform as rt
    import grid.coulomb as coul
    from grid.basegrid import Grid

    def alias_points():  # the defect repaired by c8137f6
        orig = ang.AngularGrid.__init__

        def init(self, degree=50, *, size=None, cache=True, method="lebedev"):
            orig(self, degree, size=size, cache=cache, method=method)
            c = _caches()[method.lower()]
            if self._degree in c:
                self._points = c[self._degree][0]
        return patched(ang.AngularGrid, "__init__", init)

    def alias_weights_unscaled():
        orig = ang.AngularGrid.__init__

        def init(self, degree=50, *, size=None, cache=True, method="lebedev"):
            orig(self, degree, size=size, cache=cache, method=method)
            c = _caches()[method.lower()]
            if self._degree in c and method.lower() in ("maxdet", "ahrens_beylkin"):
                self._weights = c[self._degree][1]
        return patched(ang.AngularGrid, "__init__", init)

    def shell_scales_cache():  # get_shell_grid forgets .copy() and scales in place
        orig = agm.AtomGrid.get_shell_grid

        def gs(self, index, r_sq=True):
            c = _caches()[self.method]
            d = self.degrees[index]
            out = orig(self, index, r_sq)
            if d in c:
                c[d][0][:] = c[d][0] * 1.0000001
            return out
        return patched(agm.AtomGrid, "get_shell_grid", gs)

    def b_overwritten():  # a later call re-infers the scale
        def setb(self, x):
            self._b = np.max(x)
        return patched(rt.ExpRTransform, "set_maximum_parameter_b", setb)

    def coulomb_cached_arrays():  # loader caches ndarray objects and hands them out
        orig = coul.load_atomic_gaussian_params
        store = {}

        def load(element):
            if element not in store:
                store[element] = orig(element)
            return store[element]
        return patched(coul, "load_atomic_gaussian_params", load)

    # ---- mutants for the dimensions added by the audit (each needs only one part of the check) -----------------
    def nontab_degree_from_next_cached():  # "optimisation": a non-tabulated degree is served by the next degree already cached
        orig = ang.AngularGrid._get_degree_and_size

        def gds(degree, size, method):
            if degree is not None and isinstance(degree, (int, np.integer)):
                c = _caches().get(method, {})
                tab = dict(extract.angular_tables()[method]["deg"]) if method in _caches() else {}
                if degree not in tab:
                    bigger = sorted(k for k in c if k >= degree)
                    if bigger:
                        return int(bigger[0]), int(tab[int(bigger[0])])
            return orig(degree=degree, size=size, method=method)
        return patched(ang.AngularGrid, "_get_degree_and_size", staticmethod(gds))

    def mixed_case_method_aliases():  # the copy is skipped on the path taken by a method name that is not lower case
        orig = ang.AngularGrid.__init__

        def init(self, degree=50, *, size=None, cache=True, method="lebedev"):
            orig(self, degree, size=size, cache=cache, method=method)
            c = _caches()[method.lower()]
            if method != method.lower() and self._degree in c:
                self._points = c[self._degree][0]
        return patched(ang.AngularGrid, "__init__", init)

    def shell_unsquared_scales_cache():  # get_shell_grid(r_sq=False) works on the cached weights
        orig = agm.AtomGrid.get_shell_grid

        def gs(self, index, r_sq=True):
            out = orig(self, index, r_sq)
            c = _caches()[self.method]
            d = self.degrees[index]
            if r_sq is False and d in c:
                c[d][1][...] = c[d][1] * 1.0000001
            return out
        return patched(agm.AtomGrid, "get_shell_grid", gs)

    def sizes_branch_memo():  # sizes -> degrees conversion memoised without the method
        orig = ang.AngularGrid.convert_angular_sizes_to_degrees
        memo = {}

        def conv(sizes, method):
            key = len(sizes)
            if key not in memo:
                memo[key] = orig(sizes, method)
            return memo[key]
        return patched(ang.AngularGrid, "convert_angular_sizes_to_degrees", staticmethod(conv))

    def scale_from_last_element():  # assumes the grid is sorted
        def setb(self, x):
            if self.b is None:
                self._b = np.asarray(x).ravel()[-1]
        return patched(rt.PowerRTransform, "set_maximum_parameter_b", setb)

    def scale_is_view():  # remembers a view of the caller's array instead of a number
        def setb(self, x):
            if self.b is None:
                x = np.asarray(x)
                k = int(np.argmax(x))
                self._b = x.ravel()[k:k + 1] if x.dtype == float else np.max(x)
        return patched(rt.LinearInfiniteRTransform, "set_maximum_parameter_b", setb)

    def scale_shared_by_class():  # the inferred scale is kept per class: a second object never looks at its own grid
        store = {}

        def setb(self, x):
            if self.b is None:
                self._b = store.setdefault("b", np.max(x))
        return patched(rt.ExpRTransform, "set_maximum_parameter_b", setb)

    def refused_grid_leaves_scale():  # the defect repaired by 71a2ad0: the scale is stored before it is validated
        def setb(self, x):
            if self.b is None:
                self._b = np.max(x)
                if np.abs(self.b) < 1e-16:
                    raise ValueError("The parameter b is taken from the maximum of the grid and can't be zero.")
        return patched(rt.ExpRTransform, "set_maximum_parameter_b", setb)

    def wrapper_reinfers():  # InverseRTransform.transform forgets the scale of the wrapped transform
        orig = rt.InverseRTransform.transform

        def tr(self, r):
            if hasattr(self._tfm, "_b"):
                self._tfm._b = None
            return orig(self, r)
        return patched(rt.InverseRTransform, "transform", tr)

    def base_inverse_derivs_forget_scale():  # deriv3_inverse leaves the object without a scale ("each grid gets its own")
        orig = rt.BaseTransform.deriv3_inverse

        def d3i(self, r):
            out = orig(self, r)
            if hasattr(self, "_b"):
                self._b = None
            return out
        return patched(rt.BaseTransform, "deriv3_inverse", d3i)

    def coulomb_symbols_memoised():  # only lookups by symbol are memoised (after normalisation) - and the arrays are handed out
        orig = coul.load_atomic_gaussian_params
        store = {}

        def load(element):
            if isinstance(element, str):
                k = element.strip().title()
                if k not in store:
                    store[k] = orig(element)
                return store[k]
            return orig(element)
        return patched(coul, "load_atomic_gaussian_params", load)

    def coulomb_refusal_drops_entries():  # a refused lookup leaves the table truncated
        orig = coul.load_atomic_gaussian_params

        def load(element):
            try:
                return orig(element)
            except ValueError:
                if isinstance(coul._ATOMIC_GAUSS_PARAMS_CACHE, dict):
                    coul._ATOMIC_GAUSS_PARAMS_CACHE.pop("Cl", None)
                raise
        return patched(coul, "load_atomic_gaussian_params", load)

    def coulomb_table_sorted_in_place():  # "normalises" the cached lists in place after the first lookup of an element
        orig = coul.load_atomic_gaussian_params

        def load(element):
            out = orig(element)
            tab = coul._ATOMIC_GAUSS_PARAMS_CACHE
            for v in tab.values():
                v["alphas_s"].sort()
            return out
        return patched(coul, "load_atomic_gaussian_params", load)

    def only(*parts):
        return lambda t: run(t, parts=parts)

    groups = [
        # (the pure model runs see nothing of the library: the mutants are run against the observing parts only)
        (only("cache", "scale", "coulomb"), [("instance-aliases-cached-points", alias_points), ("instance-aliases-cached-weights", alias_weights_unscaled),
               ("shell-grid-scales-cache", shell_scales_cache), ("b-overwritten", b_overwritten),
               ("coulomb-loader-hands-out-cached-arrays", coulomb_cached_arrays)]),
        (only("cache"), [("nontabulated-degree-served-by-next-cached-degree", nontab_degree_from_next_cached),
                         ("mixed-case-method-name-aliases-cache", mixed_case_method_aliases),
                         ("unsquared-shell-grid-scales-cached-weights", shell_unsquared_scales_cache),
                         ("sizes-to-degrees-memoised-without-method", sizes_branch_memo)]),
        (only("scale"), [("scale-taken-from-last-element", scale_from_last_element), ("scale-is-a-view-of-the-callers-array", scale_is_view),
                         ("scale-shared-by-all-objects-of-a-class", scale_shared_by_class), ("inverse-wrapper-reinfers-scale", wrapper_reinfers), ("refused-grid-leaves-scale-behind", refused_grid_leaves_scale),
                         ("deriv3_inverse-forgets-the-scale", base_inverse_derivs_forget_scale)]),
        (only("coulomb"), [("coulomb-symbol-lookups-memoised", coulomb_symbols_memoised), ("coulomb-refusal-truncates-table", coulomb_refusal_drops_entries),
                           ("coulomb-table-sorted-in-place", coulomb_table_sorted_in_place)]),
    ]
    rc = 0
    for fn, muts in groups:
        rc = max(rc, run_mutants(PROP, fn, muts, tier))
    return rc
