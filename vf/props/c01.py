"""C01 - every 1D quadrature rule is exact on its polynomial class, for every size; nodes
ascending inside the declared domain; weights as the mathematical definition prescribes.

Flow (DESIGN.md section 5 C01, Appendix G):
 1. TLC checks spec/OneD.tla (instance MC_OneD_<tier>.cfg): exactness of the rational rules in
    integer arithmetic, the Chebyshev-coefficient-domain identities Q_n[T_m] = 2/(1-m^2) | 0
    for Clenshaw-Curtis / Fejer-1 / Fejer-2 with the spec's summation index sets (and the
    sine-exactness of the sine rectangle rule, Gauss-Chebyshev 1/2/Lobatto), tightness of the
    last series term, catalogue well-formedness, orthogonality of the test families against
    their moment functionals, laws of the sausage maps - and EMITS the catalogue, the cases
    of the tier, the definition trees (nodes, weights; derived Jacobian weights) and the test
    families (oned_emitted.json).  Two negated witness invariants must be violated
    (non-vacuity).
 2. The harness builds every emitted case with the real constructors and
      - compares points / weights elementwise with the evaluated definitions
        (mpmath, 50 digits; Fractions for the rational rules),
      - discharges the exactness obligations on the orthonormalised family of the rule
        (three-term recurrences, norms, weight functions and expected values all taken from
        the emitted trees),
      - records size / order / domain / number of obligations per case.
 3. TLC (spec/OneDAudit.tla) judges the recorded integer/boolean observables against the
    catalogue, case by case (nothing skipped, sizes, order, domain, number of obligations, of
    obligations passed through OneDGrid.integrate, of call forms replayed), and what the harness
    read off the library's signatures: every OneDGrid subclass of grid.onedgrid is in the
    catalogue, every declared default of an optional parameter is an admissible value.

Dimensions added by the audit of the check (OneD.tla section 7b, MC_OneD.tla):
  * n = 1 (smallest admissible size of GaussChebyshevType2 / TrefethenGC2 / TrefethenStripGC2
    and of the exp-sinh family) is in both tiers;
  * the fixed parameter lattices contain the declared defaults; in addition VERIF_SEED draws
    values from pools written in MC_OneD.tla (alpha in [-4/5, 8], step in [1/40, 3/2], rho in
    [21/20, 10], one more size: quick 14..49, thorough 257..383) - the harness only writes the
    indices (generated module OneDSeed);
  * every exactness obligation is evaluated a second time through OneDGrid.integrate (one array,
    two arrays, and the same array twice for the norms of the orthonormal families);
  * call forms: the same request spelled positionally / by keywords / with the optional
    parameter omitted / with n as np.int64, np.int32, np.uint64 / with the parameter as int,
    np.int64, np.float64, 0-d array / once more after the arrays of the first result were
    overwritten in place.  A form must return the grid of the reference request bit for bit;
    if it does not it is judged on its own against the definition and the exactness obligations
    (so a harmless rounding difference is no violation).  Forms are replayed for n <= 16 and
    n mod 32 in {0, 31};
  * more base rules for the *General classes (Simpson: odd n only; thorough also
    ClenshawCurtis and GaussChebyshev).

Tolerances (calibrated on the pinned tree, see CALIBRATION below):
  exactness obligations (orthonormal scale)   |sum - expected| <= 1e-9
  nodes vs definition                         <= max(1e-9 |x|, 1e-12)
  weights vs definition                       <= max(1e-8 |w|, 64 eps * mag)   (mag = largest
                                                 intermediate term of the definition tree)
CALIBRATION (thorough tier: n = 1..100, 127, 128, 255, 256 + one drawn size; the check is
deterministic given VERIF_SEED):
  largest exactness residual of a sound rule   8.8e-14 (GaussLegendre), 5.9e-14 (GaussChebyshev),
                                               2e-14 (GaussLaguerre, n <= 64, six alphas), <= 7e-15 others
  smallest residual of the defective rule      3.9e-3 (FejerSecond n=255; 1.6e-2 at n=64, 2.0 at n=2)
  largest node error / acceptance threshold    2.8e-4
  largest weight error / acceptance threshold  1.1e-4 (Gauss-Chebyshev end weights, n = 255: the
                                               factor sqrt(1-x^2) amplifies the rounding of x by
                                               1/(1-x^2); this is why the weight rtol is 1e-8)
  mutants (selftest) miss the thresholds by >= 5 orders of magnitude.
CALIBRATION of the drawn parameters (gen/C01-audit/calib.py: EVERY pool value x every size of the
thorough tier, not only the values a seed draws):
  GaussLaguerre, alpha in the pool (<= 8)      largest residual 4.7e-13 (alpha = 8); squares 1.1e-13
       alpha = 10 / 12 / 15 / 20 (NOT in the pool) 3.5e-12 / 3.7e-11 / 2.9e-9 / 3.2e-6: conditioning of the float
                                               evaluation of the orthonormal family, no claim made
  substitution rules, steps of the pool        node error / threshold <= 1.1e-4, weight <= 7e-6
  strip maps, rho of the pool (21/20 .. 10)    node error / threshold <= 4.7e-4, weight <= 6.2e-5
  OneDGrid.integrate vs the weighted sum       <= 3.2e-13 (threshold 1e-9); mutants of integrate >= 1e-3
  call forms                                   all bit-identical to the reference on the pinned tree, except
                                               TanhSinh with an unsigned n (known finding, known_findings.d/C01.json)
"""
from __future__ import annotations

import inspect
import json
import math
import multiprocessing as mp_
import os
import random
import warnings
from fractions import Fraction

import numpy as np

from .. import expr_eval, tlc
from ..evidence import Report
from ..expr_ext import evaluate_mag_x, evaluate_np, evaluate_x

PROP = "C01"
EXACT_ATOL = 1e-9
RTOL = 1e-9
W_RTOL = 1e-8
NODE_ATOL = 1e-12
DOMAIN_SLACK = 1e-12
EPS = 2.220446049250313e-16
WORKERS = 8
# values drawn from the pools of spec/MC_OneD.tla per tier: (alpha, step, rho, n)
SEED_COUNTS = {"quick": {"alpha": 1, "step": 1, "rho": 1, "n": 1},
               "thorough": {"alpha": 3, "step": 2, "rho": 1, "n": 1}}

mpm = expr_eval.mp

_EM = None  # emitted data, set before the worker pool forks


# ---------------------------------------------------------------------------------------------
# helpers

def _frac(q):
    return Fraction(int(q[0]), int(q[1]))


def _parstr(entry, par):
    f = _frac(par)
    return {"alpha": f"alpha={f}", "step": f"step={f}", "d": f"d={f}", "rho": f"rho={f}"}.get(entry["parkind"], "")


def _case_key(entry, c):
    parts = [c["rule"], f"n={c['n']}"]
    ps = _parstr(entry, c["par"])
    if ps:
        parts.append(ps)
    if c["base"] and entry["rule"] in ("TrefethenGeneral", "TrefethenStripGeneral"):
        parts.append(f"base={c['base']}")
    return ":".join(parts)


def _build(rule, n, par, base):
    """Construct the rule with the real library (may raise)."""
    import grid.onedgrid as og
    cls = getattr(og, rule)
    p = _frac(par)
    with warnings.catch_warnings():
        warnings.simplefilter("ignore")
        if rule == "GaussLaguerre":
            return cls(n, alpha=float(p))
        if rule == "TanhSinh":
            return cls(n, delta=float(p))
        if rule in ("ExpSinh", "LogExpSinh", "ExpExp", "SingleTanh", "SingleExp", "SingleArcSinhExp"):
            return cls(n, h=float(p))
        if rule in ("TrefethenCC", "TrefethenGC2"):
            return cls(n, d=int(p))
        if rule == "TrefethenGeneral":
            return cls(n, getattr(og, base), d=int(p))
        if rule in ("TrefethenStripCC", "TrefethenStripGC2"):
            return cls(n, rho=float(p))
        if rule == "TrefethenStripGeneral":
            return cls(n, getattr(og, base), rho=float(p))
        return cls(n)


def _signames(cls):
    """Parameter names of the constructor after self, and the declared defaults."""
    sig = inspect.signature(cls.__init__)
    ps = list(sig.parameters.values())[1:]
    return [p.name for p in ps], {p.name: p.default for p in ps if p.default is not inspect.Parameter.empty}


def _rat_of_default(v):
    """Declared default as a small rational [p, q]; [0, 0] if it is none."""
    try:
        f = Fraction(v).limit_denominator(10 ** 4)
        if float(f) == float(v) and abs(f.numerator) < 10 ** 6:
            return [f.numerator, f.denominator]
    except Exception:
        pass
    return [0, 0]


def _signature_record():
    """What the library itself declares: all OneDGrid subclasses of grid.onedgrid and the default
    of the optional (last) parameter of every constructor."""
    import grid.onedgrid as og
    from grid.basegrid import OneDGrid
    classes, defaults = [], {}
    for name, cls in sorted(vars(og).items()):
        if inspect.isclass(cls) and issubclass(cls, OneDGrid) and cls is not OneDGrid and cls.__module__ == og.__name__:
            classes.append(name)
    for name in classes:
        try:
            names, dfl = _signames(getattr(og, name))
            defaults[name] = _rat_of_default(dfl[names[-1]]) if names and names[-1] in dfl else [0, 0]
        except Exception:
            defaults[name] = [0, 0]
    return {"classes": classes, "defaults": defaults}


_NTYPE = {"int": int, "int64": np.int64, "int32": np.int32, "uint64": np.uint64}


def _par_value(entry, par, how):
    f = _frac(par)
    base = int(f) if entry["parkind"] == "d" else float(f)
    if how == "same":
        return base
    if how == "int":
        return int(f)
    if how == "int64":
        return np.int64(int(f))
    if how == "float64":
        return np.float64(float(f))
    if how == "array0d":
        return np.array(base)
    raise tlc.MachineryError(f"unknown parameter spelling {how}")


def _form_applies(form, entry, c, default):
    """Mirror of FormApplies of OneD.tla (the TLC audit recounts the forms per case)."""
    w = form["when"]
    if w == "always":
        return True
    if w == "par":
        return entry["parkind"] != "none"
    if w == "integral":
        return entry["parkind"] in ("alpha", "step", "rho") and int(c["par"][1]) == 1
    if w == "default":
        return entry["parkind"] != "none" and [int(c["par"][0]), int(c["par"][1])] == list(default)
    raise tlc.MachineryError(f"unknown form condition {w}")


def _build_form(entry, c, form):
    """Construct the rule of case c in the spelling ``form`` (names taken from the signature)."""
    import grid.onedgrid as og
    rule, n, par, base = c["rule"], c["n"], c["par"], c["base"]
    cls = getattr(og, rule)
    names, _dfl = _signames(cls)
    takes_base = rule in ("TrefethenGeneral", "TrefethenStripGeneral")
    has_par = entry["parkind"] != "none"
    nval = _NTYPE[form["n"]](n)
    args, kwargs = [], {}
    style = form["style"]
    if style == "kw":
        kwargs[names[0]] = nval
    else:
        args.append(nval)
    if takes_base:
        if style == "kw":
            kwargs[names[1]] = getattr(og, base)
        else:
            args.append(getattr(og, base))
    if has_par and form["par"] != "omit":
        pv = _par_value(entry, par, form["par"])
        if style == "pos":
            args.append(pv)
        else:
            kwargs[names[-1]] = pv
    with warnings.catch_warnings():
        warnings.simplefilter("ignore")
        return cls(*args, **kwargs)


class _Defs:
    """Evaluates the emitted definitions; caches per (rule, n[, par])."""

    def __init__(self, em):
        self.em = em
        self.rules = {r["rule"]: r for r in em["rules"]}
        self.angle = {(a["rule"], a["n"]): a for a in em["angle"]}
        self.rational = {(a["rule"], a["n"]): a for a in em["rational"]}
        self.subst = {a["rule"]: a for a in em["subst"]}
        self.tofi = {a["n"]: a["t"] for a in em["tOfI"]}
        self.sausage = {int(a["d"]): a for a in em["sausage"]}
        self.strip = {tuple(a["rho"]): a for a in em["strip"]}
        self.cache = {}

    def base_def(self, rule, n, par):
        """(nodes, weights, wmags, exact) for rules that have a closed-form definition, else None.
        nodes/weights are Fractions (exact=True) or mpf."""
        key = (rule, n, tuple(par))
        if key in self.cache:
            return self.cache[key]
        kind = self.rules[rule]["kind"]
        out = None
        if kind == "rational":
            e = self.rational[(rule, n)]
            xs = [_frac(q) for q in e["nodes"]]
            ws = [_frac(q) for q in e["weights"]]
            out = (xs, ws, [abs(w) for w in ws], True)
        elif kind == "angle":
            e = self.angle[(rule, n)]
            xs, ws, mags = [], [], []
            for i in range(1, n + 1):
                xs.append(expr_eval.evaluate(e["node"], {"i": i}, "mp"))
                w, m = expr_eval.evaluate_mag(e["weight"], {"i": i}, "mp")
                if e["endHalf"] and i in (1, n):
                    w, m = w / 2, m / 2
                ws.append(w)
                mags.append(m)
            out = (xs, ws, mags, False)
        elif kind == "subst":
            e = self.subst[rule]
            h = _frac(par)
            xs, ws, mags = [], [], []
            for i in range(1, n + 1):
                t = expr_eval.evaluate(self.tofi[n], {"i": i, "h": h}, "fraction")
                xs.append(expr_eval.evaluate(e["node"], {"t": t}, "mp"))
                w, m = expr_eval.evaluate_mag(e["weight"], {"t": t, "h": h}, "mp")
                ws.append(w)
                mags.append(m)
            out = (xs, ws, mags, False)
        self.cache[key] = out
        return out

    def mapped_def(self, rule, n, par, base, base_grid):
        """Definition of a Trefethen rule: map applied to the base rule (its definition when it
        has one, else the nodes/weights the library's base rule returned)."""
        bd = self.base_def(base, n, [0, 1])
        if bd is not None:
            bx, bw, bm, exact = bd
        else:
            bx = [mpm.mpf(float(v)) for v in base_grid.points]
            bw = [mpm.mpf(float(v)) for v in base_grid.weights]
            bm = [abs(v) for v in bw]
            exact = False
        sausage = rule in ("TrefethenCC", "TrefethenGC2", "TrefethenGeneral")
        m = self.sausage[int(_frac(par))] if sausage else self.strip[tuple(par)]
        mode = "fraction" if (exact and sausage) else "mp"
        xs, ws, mags = [], [], []
        for s, w, wm in zip(bx, bw, bm):
            if mode == "mp" and isinstance(s, Fraction):
                s = mpm.mpf(s.numerator) / mpm.mpf(s.denominator)
                w = mpm.mpf(w.numerator) / mpm.mpf(w.denominator)
                wm = abs(w)
            xs.append(expr_eval.evaluate(m["map"], {"s": s}, mode))
            at_end = (not sausage) and abs(abs(s) - 1) < mpm.mpf(10) ** (-40)
            if at_end:
                dv, dm = expr_eval.evaluate_mag(m["derivEnd"], {}, mode)
            else:
                dv, dm = expr_eval.evaluate_mag(m["deriv"], {"s": s}, mode)
            ws.append(dv * w)
            mags.append(dm * wm)
        return xs, ws, mags, mode == "fraction"


def _to_mp(v):
    if isinstance(v, Fraction):
        return mpm.mpf(v.numerator) / mpm.mpf(v.denominator)
    return v


_FAMCACHE = {}


def _family(em, fam, alpha):
    for f in em["families"]:
        if f["family"] == fam and (fam != "laguerre" or tuple(f["alpha"]) == tuple(alpha)):
            return f
    raise tlc.MachineryError(f"family {fam} {alpha} not emitted")


def _family_matrix(f, x, kmax):
    """Rows k = 0..kmax of the (ortho)normalised family evaluated at x, by the emitted
    three-term recurrence p_{k+1} = (A_k x + B_k) p_k - C_k p_{k-1}; norms from h0, hratio."""
    key = (f["family"], tuple(f["alpha"]), kmax)
    if key not in _FAMCACHE:
        A, B, C, HR = [], [], [], []
        for k in range(kmax + 1):
            env = {"k": k}
            A.append(float(expr_eval.evaluate(f["A0"] if k == 0 else f["A"], env, "fraction")))
            B.append(float(expr_eval.evaluate(f["B"], env, "fraction")))
            C.append(float(expr_eval.evaluate(f["C"], env, "fraction")))
            HR.append(float(expr_eval.evaluate(f["hratio0"] if k == 0 else f["hratio"], env, "fraction")))
        h0 = float(evaluate_x(f["h0"], {}, "mp"))
        _FAMCACHE[key] = (A, B, C, HR, h0)
    A, B, C, HR, h0 = _FAMCACHE[key]
    P = np.zeros((kmax + 1, len(x)))
    P[0] = 1.0
    prev = np.zeros(len(x))
    h = [h0]
    for k in range(kmax):
        nxt = (A[k] * x + B[k]) * P[k] - C[k] * prev
        prev = P[k]
        P[k + 1] = nxt
        h.append(h[-1] * HR[k])
    if f["normalise"]:
        P = P / np.sqrt(np.array(h))[:, None]
    return P


def _expected_vector(f, kmax):
    out = np.zeros(kmax + 1)
    out[0] = float(evaluate_x(f["exp0"], {}, "mp"))
    for k in range(1, kmax + 1):
        out[k] = float(evaluate_x(f["expEven"] if k % 2 == 0 else f["expOdd"], {"k": k}, "mp"))
    return out


# ---------------------------------------------------------------------------------------------
# one case

def _integrate_obligations(g, F, Wv, direct, nsq, what):
    """The obligations once more, through OneDGrid.integrate (OneD.tla section 7b).
    F: (m, n) rows of test functions at the nodes, Wv: (n,) weight function at the nodes,
    direct: (m,) the weighted sums sum_i w_i W(x_i) F[k, i] already judged against the exact
    values by the exactness clause - integrate must return these numbers in both spellings;
    nsq: number of rows whose square is an obligation of its own (expected 1).
    Returns (number of obligations, largest residual, failure or None)."""
    m = F.shape[0]
    total = 2 * m + nsq
    worst = (0.0, None)
    try:
        with np.errstate(all="ignore"):
            for k in range(m):
                f = np.ascontiguousarray(F[k], dtype=float)
                for form, val in (("product", g.integrate(f * Wv)), ("factors", g.integrate(f, Wv))):
                    err = abs(float(val) - float(direct[k]))
                    if not err <= worst[0]:
                        worst = (err if err == err else math.inf, (form, k, float(val), float(direct[k])))
            for k in range(nsq):
                f = np.ascontiguousarray(F[k], dtype=float)
                val = g.integrate(f, f, Wv)
                err = abs(float(val) - 1.0)
                if not err <= worst[0]:
                    worst = (err if err == err else math.inf, ("square", k, float(val), 1.0))
    except Exception as e:
        return total, math.inf, ("integrate", f"{what}: OneDGrid.integrate raised {type(e).__name__}: {e}", None)
    if not worst[0] <= EXACT_ATOL:
        form, k, gv, ev = worst[1]
        ref = "norm of the orthonormal test function" if form == "square" else "sum_i w_i f(x_i)"
        return total, worst[0], ("integrate", f"{what} number {k} through OneDGrid.integrate (form '{form}'): {gv!r}, "
                                 f"{ref} = {ev!r}, error {worst[0]:.3e} > {EXACT_ATOL}",
                                 {"form": form, "k": k, "observed": gv, "expected": ev})
    return total, worst[0], None


def _judge_grid(defs, entry, c, g):
    """Judge one constructed grid against the case: (obs record, failures, stats, (x, w, dom))."""
    em = defs.em
    rule, n, par, base = c["rule"], c["n"], c["par"], c["base"]
    obs = {"n": n, "par": [int(par[0]), int(par[1])], "base": base, "built": True, "size": -1,
           "asc": False, "dom": False, "nobl": 0, "ndef": 0, "nint": 0, "nform": 0}
    fails = []
    stats = {"exact_max": 0.0, "node_ratio": 0.0, "weight_ratio": 0.0, "int_max": 0.0}
    try:
        x = np.array(g.points, dtype=float)      # copies: the caller may overwrite the grid's arrays later
        w = np.array(g.weights, dtype=float)
        dom = g.domain
        size = int(g.size)
    except Exception as e:
        fails.append(("construct", f"points / weights / domain / size not readable: {type(e).__name__}: {e}", None))
        obs["built"] = False
        return obs, fails, stats, None
    # ---- size -------------------------------------------------------------------------------
    ok_size = x.ndim == 1 and w.ndim == 1 and len(x) == n and len(w) == n and size == n
    obs["size"] = n if ok_size else (len(x) if len(x) != n else (len(w) if len(w) != n else size))
    if not ok_size or not (np.all(np.isfinite(x)) and np.all(np.isfinite(w))):
        if ok_size:  # reported here; nothing further can be judged on such arrays
            fails.append(("finite", "points or weights contain nan/inf", None))
            obs["built"] = False
        return obs, fails, stats, (x, w, dom)
    # ---- definition ------------------------------------------------------------------------------
    kind = entry["kind"]
    d = None
    if kind in ("rational", "angle", "subst"):
        d = defs.base_def(rule, n, par)
    elif kind == "mapped":
        try:
            bg = _build(base, n, [0, 1], "")
        except Exception as e:
            fails.append(("construct", f"base rule {base}({n}) raised {type(e).__name__}: {e}", None))
            return obs, fails, stats, (x, w, dom)
        d = defs.mapped_def(rule, n, par, base, bg)
    # ---- order and domain ---------------------------------------------------------------------
    dx = np.diff(x)
    asc = bool(np.all(dx >= 0))
    if d is not None:  # strict wherever the definition separates neighbours beyond rounding
        ex = [float(v) for v in d[0]]
        for i in range(n - 1):
            if ex[i + 1] - ex[i] > 1e-10 * max(1.0, abs(ex[i + 1])) and not dx[i] > 0:
                asc = False
    else:
        asc = asc and bool(np.all(dx > 0))
    obs["asc"] = asc
    lo = float(_frac(entry["domain"]["lo"]))
    hi = math.inf if entry["domain"]["inf"] else float(_frac(entry["domain"]["hi"]))
    in_dom = bool(np.all(x >= lo - DOMAIN_SLACK) and np.all(x <= hi + DOMAIN_SLACK))
    try:
        dom_ok = dom is not None and len(dom) == 2 and float(dom[0]) == lo and float(dom[1]) == hi
    except Exception:
        dom_ok = False
    obs["dom"] = in_dom and dom_ok
    # ---- elementwise agreement with the definition ---------------------------------------------
    if d is not None:
        xs, ws, mags, _exact = d
        worst = None
        for i in range(n):
            ex_, ew_ = _to_mp(xs[i]), _to_mp(ws[i])
            errx = abs(mpm.mpf(float(x[i])) - ex_)
            tolx = max(RTOL * abs(ex_), NODE_ATOL)
            errw = abs(mpm.mpf(float(w[i])) - ew_)
            tolw = max(W_RTOL * abs(ew_), 64 * EPS * _to_mp(mags[i]), mpm.mpf(10) ** (-300))
            stats["node_ratio"] = max(stats["node_ratio"], float(errx / tolx))
            stats["weight_ratio"] = max(stats["weight_ratio"], float(errw / tolw))
            obs["ndef"] += 2
            if errx > tolx and (worst is None or worst[0] != "nodes"):
                worst = ("nodes", f"node {i + 1} of {n} (ascending): library {float(x[i])!r}, definition "
                         f"{mpm.nstr(ex_, 17)}, error {mpm.nstr(errx, 3)} > {mpm.nstr(tolx, 3)}",
                         {"index": i + 1, "observed": float(x[i]), "expected": mpm.nstr(ex_, 20)})
                fails.append(worst)
            if errw > tolw and not any(f[0] == "weights" for f in fails):
                fails.append(("weights", f"weight {i + 1} of {n}: library {float(w[i])!r}, definition "
                              f"{mpm.nstr(ew_, 17)}, error {mpm.nstr(errw, 3)} > {mpm.nstr(tolw, 3)}",
                              {"index": i + 1, "observed": float(w[i]), "expected": mpm.nstr(ew_, 20)}))
    # ---- exactness obligations -------------------------------------------------------------------
    fam = entry["family"]
    if fam == "sine":
        s = em["sine"]
        ks = np.arange(1, n + 1, dtype=float)
        with np.errstate(all="ignore"):
            T = evaluate_np(s["test"], {"k": ks[:, None], "x": x[None, :]})
            got = T @ w
        worst = (0.0, None)
        expv = np.zeros(n)
        for m in range(1, n + 1):
            exp = float(evaluate_x(s["expOdd"] if m % 2 else s["expEven"], {"k": m}, "mp"))
            expv[m - 1] = exp
            err = abs(got[m - 1] - exp)
            obs["nobl"] += 1
            if not err <= worst[0]:
                worst = (float(err), (m, float(got[m - 1]), exp))
        stats["exact_max"] = worst[0]
        if not worst[0] <= EXACT_ATOL:
            m, gv, ev = worst[1]
            fails.append(("exactness", f"sum_i w_i sin({m} pi (x_i+1)/2) = {gv!r}, exact integral {ev!r}, "
                          f"error {worst[0]:.3e} > {EXACT_ATOL}", {"m": m, "observed": gv, "expected": ev}))
        obs["nint"], stats["int_max"], f_int = _integrate_obligations(
            g, np.asarray(T, dtype=float), np.ones(n), got, 0, "sine test function (k = index + 1)")
        if f_int is not None:
            fails.append(f_int)
    elif fam != "none":
        f = _family(em, fam, par)
        deg = None
        if kind == "angle":
            deg = defs.angle[(rule, n)]["degree"]
        elif kind == "rational":
            deg = defs.rational[(rule, n)]["degree"]
        else:
            deg = 2 * n - 1
        with np.errstate(all="ignore"):
            P = _family_matrix(f, x, deg)
            W = evaluate_np(f["W"], {"x": x})
            got = P @ (w * W)
        exp = _expected_vector(f, deg)
        err = np.abs(got - exp)
        obs["nobl"] += deg + 1
        bad = ~(err <= EXACT_ATOL)
        stats["exact_max"] = float(np.nanmax(err)) if not np.all(np.isnan(err)) else math.inf
        if np.any(np.isnan(err)):
            stats["exact_max"] = math.inf
        if np.any(bad):
            k = int(np.argmax(np.where(np.isnan(err), np.inf, err)))
            fails.append(("exactness", f"family {fam}: degree {k}: quadrature {float(got[k])!r}, exact "
                          f"{float(exp[k])!r}, error {float(err[k]):.3e} > {EXACT_ATOL} "
                          f"({int(np.sum(bad))} of {deg + 1} degrees fail)",
                          {"degree": k, "observed": float(got[k]), "expected": float(exp[k]),
                           "failing_degrees": int(np.sum(bad))}))
        with np.errstate(all="ignore"):
            Wv = np.array(np.broadcast_to(np.asarray(W, dtype=float), x.shape))
        nsq = (deg // 2 + 1) if f["normalise"] else 0
        obs["nint"], stats["int_max"], f_int = _integrate_obligations(
            g, P, Wv, got, nsq, f"family {fam}: degree")
        if f_int is not None:
            fails.append(f_int)
    return obs, fails, stats, (x, w, dom)


def _same_grid(ref, g):
    """The grid g carries exactly the numbers of the reference (x, w, dom)."""
    x0, w0, dom0 = ref
    try:
        x = np.asarray(g.points, dtype=float)
        w = np.asarray(g.weights, dtype=float)
        dom = g.domain
        return (x.shape == x0.shape and w.shape == w0.shape and int(g.size) == len(x0)
                and np.array_equal(x, x0) and np.array_equal(w, w0)
                and (dom is None) == (dom0 is None)
                and (dom is None or (len(dom) == 2 and float(dom[0]) == float(dom0[0]) and float(dom[1]) == float(dom0[1]))))
    except Exception:
        return False


def _scribble(g):
    """Overwrite the arrays a grid handed out, in place (what a careless caller may do)."""
    for arr in (g.points, g.weights):
        try:
            arr[...] = -12345
        except Exception:
            pass      # read-only arrays protect themselves: nothing to overwrite


def _check_case(defs, entry, c):
    """Returns (obs record for the audit, list of (clause, message, detail), stats)."""
    em = defs.em
    rule, n, par, base = c["rule"], c["n"], c["par"], c["base"]
    try:
        g = _build(rule, n, par, base)
    except Exception as e:  # an admissible request must be built
        obs = {"n": n, "par": [int(par[0]), int(par[1])], "base": base, "built": False, "size": -1,
               "asc": False, "dom": False, "nobl": 0, "ndef": 0, "nint": 0, "nform": 0}
        return obs, [("construct", f"constructor raised {type(e).__name__}: {e}", None)], \
            {"exact_max": 0.0, "node_ratio": 0.0, "weight_ratio": 0.0, "int_max": 0.0}
    obs, fails, stats, ref = _judge_grid(defs, entry, c, g)
    stats["forms_identical"] = 0
    if not obs["built"] or obs["size"] != n or not em["formN_"].get(n, False):
        return obs, fails, stats
    # ---- call forms (OneD.tla section 7b) ---------------------------------------------------------
    default = em["defaults_"].get(rule, [0, 0])
    forms = [fm for fm in em["callForms"] if _form_applies(fm, entry, c, default)]
    forms.sort(key=lambda fm: bool(fm["scribble"]))      # overwriting comes last
    scribbled = False
    for fm in forms:
        obs["nform"] += 1
        tag = f"call={fm['name']}"
        if fm["scribble"] and not scribbled:
            _scribble(g)
            scribbled = True
        try:
            g2 = _build_form(entry, c, fm)
        except Exception as e:
            fails.append((f"{tag}:construct", f"the same request in the form '{fm['name']}' raised "
                          f"{type(e).__name__}: {e}", {"form": fm}))
            continue
        if _same_grid(ref, g2):
            stats["forms_identical"] += 1
            continue
        # not bit-identical: the form is judged on its own, like a case
        o2, f2, _s2, _r2 = _judge_grid(defs, entry, c, g2)
        if o2["size"] != n:
            f2.append(("size", f"{o2['size']} points/weights instead of n = {n}", None))
        elif o2["built"]:
            if not o2["asc"]:
                f2.append(("order", "nodes are not in ascending order", None))
            if not o2["dom"]:
                f2.append(("domain", "a node lies outside the declared domain or .domain differs from it", None))
        for clause, msg, detail in f2:
            fails.append((f"{tag}:{clause}", f"the same request in the form '{fm['name']}' "
                          f"(n as {fm['n']}, arguments {fm['style']}, parameter {fm['par']}"
                          f"{', after the arrays of the first result were overwritten' if fm['scribble'] else ''}): {msg}",
                          {"form": fm, "detail": detail}))
    return obs, fails, stats


def _worker(n):
    defs = _Defs(_EM)
    out = []
    for entry in _EM["rules"]:
        for qi, c in enumerate(entry["cases"]):
            if c["n"] != n:
                continue
            try:
                obs, fails, stats = _check_case(defs, entry, c)
            except Exception as e:  # harness bug: surface as machinery failure in the parent
                import traceback
                return ("ERROR", f"{c}: {type(e).__name__}: {e}\n{traceback.format_exc()}")
            out.append((entry["rule"], qi, obs, fails, stats))
    return ("OK", out)


# ---------------------------------------------------------------------------------------------
# spec-side sanity of the oracle (failures here are machinery errors, not violations)

def _check_lemma(em):
    """Numerical cross-check of the assumed discrete cosine sums DSum."""
    for g, rows in em["lemma"].items():
        for row in rows:
            n = row["n"]
            if g == "f1":
                th = (2 * np.arange(1, n + 1) - 1) * np.pi / (2 * n)
                hw = np.ones(n)
            elif g == "f2":
                th = np.arange(1, n + 1) * np.pi / (n + 1)
                hw = np.ones(n)
            else:
                th = np.arange(0, n) * np.pi / (n - 1)
                hw = np.ones(n)
                hw[0] = hw[-1] = 0.5
            a = np.arange(len(row["sums"]))
            s = (np.cos(np.outer(a, th)) * hw).sum(axis=1)
            if np.max(np.abs(s - np.array(row["sums"], dtype=float))) > 1e-8:
                raise tlc.MachineryError(f"lemma DSum({g}, n={n}) of OneD.tla is numerically false")


def _check_maps(em):
    """Sausage maps: g(1) = 1 exactly (Fractions); strip maps: u-formulation of the derivative
    equals the chain-rule derivative through asin, limit value equals the interior formula
    close to the end point, g(1) = 1."""
    for a in em["sausage"]:
        if expr_eval.evaluate(a["map"], {"s": Fraction(1)}, "fraction") != 1:
            raise tlc.MachineryError("sausage map not normalised")
        if expr_eval.evaluate(a["map"], {"s": Fraction(-1, 3)}, "fraction") != \
                -expr_eval.evaluate(a["map"], {"s": Fraction(1, 3)}, "fraction"):
            raise tlc.MachineryError("sausage map not odd")
    for a in em["strip"]:
        for s in (Fraction(-9, 10), Fraction(1, 7), Fraction(999, 1000)):
            v1 = expr_eval.evaluate(a["deriv"], {"s": s}, "mp")
            v2 = expr_eval.evaluate(a["derivChain"], {"s": s}, "mp")
            if abs(v1 - v2) > 1e-30 * abs(v1):
                raise tlc.MachineryError("strip map: D through asin and u-formulation disagree")
        near = expr_eval.evaluate(a["deriv"], {"s": 1 - Fraction(1, 10 ** 16)}, "mp")
        end = expr_eval.evaluate(a["derivEnd"], {}, "mp")
        if abs(near - end) > 1e-6 * abs(end):
            raise tlc.MachineryError("strip map: l'Hopital end value is not the limit of the derivative")
        if abs(expr_eval.evaluate(a["map"], {"s": 1}, "mp") - 1) > 1e-40:
            raise tlc.MachineryError("strip map not normalised")


# ---------------------------------------------------------------------------------------------

def _cfg_text(tier, invariants, outfile):
    """Configuration with the constants of spec/MC_OneD_<tier>.cfg but other invariants."""
    lines = []
    for ln in (tlc.SPEC / f"MC_OneD_{tier}.cfg").read_text().splitlines():
        if ln.startswith("INVARIANT"):
            continue
        if ln.strip().startswith("OutFile"):
            ln = f'    OutFile = "{outfile}"'
        lines.append(ln)
    return "\n".join(lines) + "\n" + "".join(f"INVARIANT {i}\n" for i in invariants)


def _write_inputs(wd, tier, seed, sig=None):
    """Files the specification reads: the draws of VERIF_SEED (module OneDSeed: start index and
    count per pool of MC_OneD.tla) and what the library's own signatures declare (oned_sig.json)."""
    wd.mkdir(parents=True, exist_ok=True)
    rng = random.Random(f"C01/{int(seed)}")
    draw = {k: [rng.randrange(10 ** 6), cnt] for k, cnt in sorted(SEED_COUNTS[tier].items())}
    (wd / "_draws").mkdir(exist_ok=True)
    (wd / "_draws" / "OneDSeed.tla").write_text(
        "------------------------------ MODULE OneDSeed ------------------------------\n"
        f"\\* generated by vf/props/c01.py: draws of VERIF_SEED={int(seed)}, tier {tier}\n"
        + "".join(f"Seed{k.capitalize()} == <<{v[0]}, {v[1]}>>\n" for k, v in sorted(draw.items()))
        + "=============================================================================\n")
    with open(wd / "oned_seed.json", "w") as f:      # for the record (evidence); TLC reads the module
        json.dump(draw, f)
    if sig is None:
        sig = _signature_record()
    with open(wd / "oned_sig.json", "w") as f:
        json.dump(sig, f)
    return sig


def _tlc(module, cfg, wd, **kw):
    """run_tlc with the generated module OneDSeed of this run (copied over the default of spec/)."""
    return tlc.run_tlc(module, cfg, wd, extra_modules=(wd / "_draws" / "OneDSeed.tla",), **kw)


def _run_model(rep, wd, tier, patch=None):
    """TLC on the model; returns the emitted data."""
    cfgname = f"MC_OneD_{tier}.cfg"
    _write_inputs(wd, tier, rep.seed)
    res = _tlc("MC_OneD", cfgname, wd, workers=WORKERS, timeout=1500).require_ok(cfgname)
    rep.tlc(res, f"MC_OneD_{tier}")
    if res.status == "violation":
        st = tlc.last_state(res)
        c = st.get("vcase", {}) if isinstance(st.get("vcase"), dict) else {}
        key = f"model:{','.join(res.violated)}:{c.get('rule', '')}:n={c.get('n', '')}"
        rep.violation(key, f"TLC: invariant(s) {res.violated} of OneD.tla violated; last state {st}", st)
    # non-vacuity: the negated witnesses must be violated
    for wit in ("WitnessNoSeriesCase", "WitnessNoOddF1"):
        (wd / f"W_{wit}.cfg").write_text(_cfg_text(tier, [wit], "oned_witness.json"))
        r = _tlc("MC_OneD", wd / f"W_{wit}.cfg", wd, workers=4, timeout=900).require_ok(wit)
        if r.status != "violation":
            raise tlc.MachineryError(f"vacuity guard: witness {wit} was not reached")
    path = wd / "oned_emitted.json"
    if not path.exists():
        raise tlc.MachineryError("TLC did not write oned_emitted.json")
    with open(path) as f:
        return json.load(f)[0]


def run(tier: str) -> int:
    rep = Report(PROP, tier, "model_checking")
    return _run(tier, rep, tlc.scratch(f"{PROP}-{tier}"))


def _run(tier, rep, wd, em=None, corrupt=None) -> int:
    """The check proper.  ``em``: reuse already emitted data (selftest only); ``corrupt``:
    function applied to the recorded observations before the audit (selftest only)."""
    global _EM
    wd.mkdir(parents=True, exist_ok=True)
    if em is None:
        em = _run_model(rep, wd, tier)
        _check_lemma(em)
        _check_maps(em)
    else:
        rep.count("states", 1)
        rep.count("transitions", 1)
    _EM = em
    entries = {r["rule"]: r for r in em["rules"]}
    sig = _write_inputs(wd, tier, rep.seed)      # the audit reads the same draws and the signatures observed NOW
    em["formN_"] = {int(a["n"]): bool(a["forms"]) for a in em["formN"]}
    em["defaults_"] = sig["defaults"]
    ns = sorted({c["n"] for r in em["rules"] for c in r["cases"]}, reverse=True)
    obs_all = {r["rule"]: [None] * len(r["cases"]) for r in em["rules"]}
    stats_by_rule = {}
    with mp_.get_context("fork").Pool(min(WORKERS, len(ns))) as pool:
        results = pool.map(_worker, ns, chunksize=1)
    ncases = nforms = nint = 0
    for status, payload in results:
        if status != "OK":
            raise tlc.MachineryError(f"harness failure in C01 worker: {payload}")
        for rule, qi, obs, fails, stats in payload:
            entry = entries[rule]
            c = entry["cases"][qi]
            obs_all[rule][qi] = obs
            ncases += 1
            rep.evaluated(1 + obs["nobl"] + obs["ndef"] + obs["nint"] + obs["nform"],
                          (rule, c["n"], tuple(c["par"]), c["base"]))
            st = stats_by_rule.setdefault(rule, {"exact_max": 0.0, "node_ratio": 0.0, "weight_ratio": 0.0,
                                                 "int_max": 0.0, "cases": 0, "forms": 0, "forms_identical": 0})
            st["cases"] += 1
            st["forms"] += obs["nform"]
            st["forms_identical"] += stats.get("forms_identical", 0)
            nforms += obs["nform"]
            nint += obs["nint"]
            failed = {f[0] for f in fails}
            for k in ("exact_max", "node_ratio", "weight_ratio", "int_max"):
                skip = (k == "exact_max" and "exactness" in failed) or (k == "node_ratio" and "nodes" in failed) \
                    or (k == "weight_ratio" and "weights" in failed) or (k == "int_max" and "integrate" in failed)
                if not skip:
                    st[k] = max(st[k], stats[k])
            key0 = _case_key(entry, c)
            for clause, msg, detail in fails:
                rep.violation(f"{key0}:{clause}", f"{key0}: {msg}",
                              {"rule": rule, "n": c["n"], "par": c["par"], "base": c["base"], "clause": clause,
                               "detail": detail, "tier": tier})
            if c["n"] in (5, 12) and rule in ("ClenshawCurtis", "GaussLaguerre", "TanhSinh", "TrefethenStripCC"):
                rep.sample({"case": key0, "observed": obs, "max_exactness_residual": stats["exact_max"]})
    # ---- audit by TLC --------------------------------------------------------------------------
    if corrupt is not None:
        corrupt(obs_all)
    with open(wd / "oned_obs.json", "w") as f:
        json.dump(obs_all, f)
    (wd / "Audit.cfg").write_text(_cfg_text(tier, ["AuditOK", "AuditComplete", "AuditCatalogue", "AuditDefaults"],
                                            "oned_audit.json"))
    res = _tlc("OneDAudit", wd / "Audit.cfg", wd, workers=WORKERS, timeout=900).require_ok("OneDAudit")
    rep.tlc(res, "OneDAudit")
    if res.status == "violation":
        rep.violation(f"audit:{','.join(res.violated)}", f"TLC: audit invariant(s) {res.violated} violated: the harness did "
                      f"not discharge every emitted case; {tlc.last_state(res)}")
    for t in tlc.tagged(res.stdout, "UNCATALOGUED"):
        rep.violation(f"catalogue:{t[1]}", f"grid.onedgrid defines the rule class {t[1]} which is not in the catalogue of "
                      f"OneD.tla: 'every rule' cannot be judged for it", {"clause": "catalogue", "class": t[1], "tier": tier})
    for t in tlc.tagged(res.stdout, "BADDEFAULT"):
        rep.violation(f"{t[1]}:default", f"{t[1]}: the default {t[2]} declared for the optional parameter is not an "
                      f"admissible value of it (or not a plain number): the request without the optional argument "
                      f"is not a rule of the catalogue", {"clause": "default", "rule": t[1], "default": t[2], "tier": tier})
    for t in tlc.tagged(res.stdout, "MISMATCH"):
        _, c, o, expd = t
        entry = entries[c["rule"]]
        key0 = _case_key(entry, c)
        if o.get("size") != c["n"]:
            rep.violation(f"{key0}:size", f"{key0}: {o.get('size')} points/weights (or .size) instead of n = {c['n']}",
                          {"rule": c["rule"], "n": c["n"], "par": c["par"], "base": c["base"], "clause": "size", "tier": tier})
        elif not o.get("asc"):
            rep.violation(f"{key0}:order", f"{key0}: nodes are not in ascending order",
                          {"rule": c["rule"], "n": c["n"], "par": c["par"], "base": c["base"], "clause": "order", "tier": tier})
        elif not o.get("dom"):
            rep.violation(f"{key0}:domain", f"{key0}: a node lies outside the declared domain {entry['domain']} or "
                          f".domain differs from it",
                          {"rule": c["rule"], "n": c["n"], "par": c["par"], "base": c["base"], "clause": "domain", "tier": tier})
        else:
            raise tlc.MachineryError(f"audit mismatch not explained by an observable: {t}")
    rep.set("cases_replayed", ncases)
    rep.set("call_forms_replayed", nforms)
    rep.set("obligations_through_integrate", nint)
    rep.set("seed_draws", json.load(open(wd / "oned_seed.json")))
    rep.set("sizes", sorted(ns))
    rep.set("parameters", {r["rule"]: sorted({str(_frac(c["par"])) for c in r["cases"]}, key=lambda t: float(Fraction(t)))
                           for r in em["rules"] if r["parkind"] != "none" and r["rule"] in
                           ("GaussLaguerre", "TanhSinh", "TrefethenCC", "TrefethenStripCC")})
    rep.set("traces_validated_against_impl", ncases)
    rep.set("exhaustive", True)
    rep.set("per_rule", {r: {k: (float(f"{v:.3g}") if isinstance(v, float) else v) for k, v in s.items()}
                         for r, s in sorted(stats_by_rule.items())})
    rep.set("tolerances", {"exactness_abs": EXACT_ATOL, "node": f"max({RTOL}|x|, {NODE_ATOL})",
                           "weight": f"max({W_RTOL}|w|, 64 eps mag)"})
    rep.set("rule", "one case = one (rule class, n, parameter, base rule) emitted by OneD.tla, built with the real "
                    "constructor; evaluations = cases + exactness obligations + node/weight values compared + "
                    "obligations discharged through OneDGrid.integrate + call forms replayed")
    rep.assume("discrete cosine sums DSum on the three Chebyshev node families (textbook lemma; cross-checked "
               "numerically for every n of the tier)")
    rep.assume("moments of the weight functions (Beta/Gamma integrals) used by FamiliesOrthogonal")
    rep.assume("functional form of the Hale-Trefethen strip map; normalisation, derivative and end-point limit are derived")
    rep.assume("vf/expr_eval.py (mpmath, 50 digits) evaluates the emitted trees")
    return rep.finish()


def replay(path: str) -> int:
    global _EM
    with open(path) as f:
        v = json.load(f)
    c = v.get("case") or {}
    if not c.get("rule"):
        print("replay: model-level violation; rerun ./check C01")
        return run("quick")
    if c.get("clause") in ("catalogue", "default"):
        print("replay: violation found by the TLC audit of the signatures; rerun ./check C01")
        return run(c.get("tier") or "quick")
    tier = c.get("tier") or v.get("tier") or "quick"
    if "seed" in v:      # the cases of a tier depend on the draws of the seed
        os.environ["VERIF_SEED"] = str(v["seed"])
    wd = tlc.scratch(f"{PROP}-replay")
    rep = Report(PROP, tier, "model_checking")
    em = _run_model(rep, wd, tier)
    em["formN_"] = {int(a["n"]): bool(a["forms"]) for a in em["formN"]}
    em["defaults_"] = _signature_record()["defaults"]
    _EM = em
    entry = {r["rule"]: r for r in em["rules"]}[c["rule"]]
    case = {"rule": c["rule"], "n": c["n"], "par": c["par"], "base": c["base"]}
    obs, fails, stats = _check_case(_Defs(em), entry, case)
    print("replay:", _case_key(entry, case), "observed", obs, "failures", [(f[0], f[1]) for f in fails])
    return 1 if fails or not (obs["built"] and obs["size"] == c["n"] and obs["asc"] and obs["dom"]) else 0


# ---------------------------------------------------------------------------------------------
# sensitivity: in-process mutants of grid.onedgrid (never touches /repo) and corrupted records

MUTANTS = [
    # (name, old text, new text, clause(s) expected among the violation keys)
    ("FejerFirst-drop-last-term (the repaired defect; only odd n)",
     "        nsum = npoints // 2\n        j = np.arange(nsum) + 1\n\n        bj = 2.0 * np.ones(nsum) / (4 * j**2 - 1)",
     "        nsum = npoints // 2 - 1\n        j = np.arange(nsum) + 1\n\n        bj = 2.0 * np.ones(nsum) / (4 * j**2 - 1)",
     "FejerFirst:"),
    ("ClenshawCurtis-parity-branch (last b_j not halved for odd npoints)",
     "        if 2 * jmed + 1 == npoints:\n            bj[jmed - 1] = 1.0", "        if 2 * jmed == npoints:\n            bj[jmed - 1] = 1.0",
     "ClenshawCurtis:"),
    ("ClenshawCurtis-truncation-index (jmed = npoints // 2 - 1)",
     "        jmed = (npoints - 1) // 2", "        jmed = max(npoints // 2 - 1, 0)", "ClenshawCurtis:"),
    ("GaussChebyshevType2-weight-power (multiplied instead of divided by sqrt(1-x^2))",
     "        weights /= np.sqrt(1 - np.power(points, 2))\n        super().__init__(points, weights, (-1, 1))",
     "        weights *= np.sqrt(1 - np.power(points, 2))\n        super().__init__(points, weights, (-1, 1))",
     "GaussChebyshevType2:"),
    ("GaussLaguerre-weight-power (x^(-alpha) -> x^(1-alpha))",
     "np.power(points, -alpha)", "np.power(points, 1 - alpha)", "GaussLaguerre:"),
    ("GaussChebyshev-order-not-reversed", "super().__init__(points[::-1], weights, (-1, 1))",
     "super().__init__(points, weights, (-1, 1))", "GaussChebyshev:"),
    ("TanhSinh-index-off-by-one", "        j = int((1 - int(npoints)) / 2) + np.arange(npoints)",
     "        j = int(-npoints / 2) + np.arange(npoints) + 1", "TanhSinh:"),
    ("Trefethen-derg3-coefficient-typo (12600 -> 12060)", "12600 * x**6", "12060 * x**6", "Trefethen"),
    ("strip-endpoint-limit (tanh^2 -> tanh; only nodes at +-1)",
     "np.tanh(tau * np.pi / 2) ** 2", "np.tanh(tau * np.pi / 2)", "TrefethenStrip"),
    ("Simpson-4-2-pattern-swapped", "        weights[1 : npoints - 1 : 2] *= 4.0\n        weights[2 : npoints - 1 : 2] *= 2.0",
     "        weights[1 : npoints - 1 : 2] *= 2.0\n        weights[2 : npoints - 1 : 2] *= 4.0", "Simpson:"),
    ("ExpExp-derivative-term-dropped", "weights = h * np.exp(-np.exp(-k * h)) * (np.exp(k * h) + 1)",
     "weights = h * np.exp(-np.exp(-k * h)) * np.exp(k * h)", "ExpExp:"),
    ("LogExpSinh-missing-denominator", "        weights /= np.exp(np.pi * np.sinh(k * h) / 2) + 1\n", "", "LogExpSinh:"),
    ("UniformInteger-wrong-domain-tuple", "super().__init__(points, weights, (0, np.inf))\n\n\nclass GaussChebyshevType2",
     "super().__init__(points, weights, (0, npoints))\n\n\nclass GaussChebyshevType2", "UniformInteger:"),
    ("SineRectangle-series-one-term-short (only odd n)", "        m = np.arange(1, npoints + 1, 1)\n        bm =",
     "        m = np.arange(1, npoints, 1)\n        bm =", "RectangleRuleSineEndPoints:"),
    ("MidPoint-node-shift (2i+1)/n -> (2i+1)/(n+1)+1/(n(n+1))", "points = -1 + (2 * np.arange(npoints) + 1) / npoints",
     "points = -1 + (2 * np.arange(npoints) + 1) / (npoints + 1) + 1 / (npoints + 1)", "MidPoint:"),
    ("GaussLegendre-one-point-short", "points, weights = np.polynomial.legendre.leggauss(npoints)",
     "points, weights = np.polynomial.legendre.leggauss(npoints - 1 if npoints > 7 else npoints)", "GaussLegendre:"),
    ("FejerSecond-order-not-reversed (must not be masked by the known finding)",
     "        points = points[::-1]\n        weights = weights[::-1] / (npoints + 1)", "        weights = weights[::-1] / (npoints + 1)",
     "FejerSecond:n=5:order"),
    ("strip-map-constant-sign (termd = 0.5 - 1/(exp(tau pi)+1) in _gstrip only)",
     "    termd = 0.5 + 1 / (np.exp(tau * np.pi) + 1)\n    u = np.arcsin(s)\n\n    cn =",
     "    termd = 0.5 - 1 / (np.exp(tau * np.pi) + 1)\n    u = np.arcsin(s)\n\n    cn =", "TrefethenStrip"),
    ("Trapezoidal-docstring-weights (2/n instead of 2/(n-1))", "weights = 2 * np.ones(npoints) / (npoints - 1)\n        weights[0] /= 2",
     "weights = 2 * np.ones(npoints) / npoints\n        weights[0] /= 2", "Trapezoidal:"),
    ("Lobatto-weight-scale pi/n instead of pi/(n-1)",
     "weights = np.pi * np.sqrt(1 - np.power(points, 2)) / (npoints - 1)", "weights = np.pi * np.sqrt(1 - np.power(points, 2)) / npoints",
     "GaussChebyshevLobatto:"),
    # ---- dimensions added by the audit of the check (n = 1, call forms, state, drawn parameters and sizes) ----
    ("GaussChebyshevType2 rejects its smallest admissible size n = 1",
     "        if npoints < 1:\n            raise ValueError(f\"Argument npoints must be an integer > 1, given {npoints}\")\n"
     "        # compute points and weights for Gauss-Chebyshev quadrature (Type 2)",
     "        if npoints <= 1:\n            raise ValueError(f\"Argument npoints must be an integer > 1, given {npoints}\")\n"
     "        # compute points and weights for Gauss-Chebyshev quadrature (Type 2)",
     "GaussChebyshevType2:n=1:construct"),
    ("SingleTanh rejects n = 1",
     "        if npoints < 1:\n            raise ValueError(f\"npoints must be bigger than 1, given {npoints}\")\n"
     "        if npoints % 2 == 0:\n            raise ValueError(f\"npoints must be odd, given {npoints}\")\n"
     "        m = int((npoints - 1) / 2)\n        k = np.arange(-m, m + 1)\n        points = np.tanh(k * h)",
     "        if npoints <= 1:\n            raise ValueError(f\"npoints must be bigger than 1, given {npoints}\")\n"
     "        if npoints % 2 == 0:\n            raise ValueError(f\"npoints must be odd, given {npoints}\")\n"
     "        m = int((npoints - 1) / 2)\n        k = np.arange(-m, m + 1)\n        points = np.tanh(k * h)",
     "SingleTanh:n=1:"),
    ("GaussLaguerre: weight division skipped when alpha is left at its default (explicit alpha = 0.0 correct)",
     "        weights *= np.exp(points) * np.power(points, -alpha)",
     "        weights *= (np.exp(points) * np.power(points, -alpha)) if alpha is not GaussLaguerre.__init__.__defaults__[0] else 1.0",
     "call=omitted"),
    ("MidPoint: type validation that only lets Python ints through (NumPy integers rejected)",
     "        if npoints <= 1:\n            raise ValueError(f\"Argument npoints must be an integer > 1, given {npoints}\")\n\n"
     "        points = -1 + (2 * np.arange(npoints) + 1) / npoints",
     "        if not isinstance(npoints, int) or npoints <= 1:\n            raise ValueError(f\"Argument npoints must be an integer > 1, given {npoints}\")\n\n"
     "        points = -1 + (2 * np.arange(npoints) + 1) / npoints",
     "MidPoint:n=2:call=n-int64:construct"),
    ("SingleExp: weights allocated with the dtype of h (integer h breaks the in-place product)",
     "        points = np.exp(k * h)\n        weights = h * np.exp(k * h)\n        super().__init__(points, weights, (0, np.inf))",
     "        points = np.exp(k * h)\n        weights = np.full(npoints, h)\n        weights *= np.exp(k * h)\n"
     "        super().__init__(points, weights, (0, np.inf))",
     "call=par-int"),
    ("ClenshawCurtis: nodes memoised per npoints and handed out without a copy (state survives the call)",
     "        theta = theta[::-1]\n        points = np.cos(theta)\n\n        jmed = (npoints - 1) // 2",
     "        theta = theta[::-1]\n        points = globals().setdefault(\"_CC_NODES\", {}).setdefault(npoints, np.cos(theta))\n\n"
     "        jmed = (npoints - 1) // 2",
     "ClenshawCurtis:n=2:call=again"),
    ("a new rule class the specification does not know",
     "        weights = h * np.exp(k * h) / np.sqrt(np.exp(2 * h * k) + 1)\n        super().__init__(points, weights, (0, np.inf))\n",
     "        weights = h * np.exp(k * h) / np.sqrt(np.exp(2 * h * k) + 1)\n        super().__init__(points, weights, (0, np.inf))\n"
     "\n\nclass BooleRule(OneDGrid):\n    def __init__(self, npoints: int):\n"
     "        super().__init__(np.linspace(-1, 1, npoints), np.full(npoints, 2.0 / npoints), (-1, 1))\n",
     "catalogue:BooleRule"),
    ("TrefethenStripCC: default rho = 1.0 (not an admissible rho: the call without rho is no rule)",
     "    def __init__(self, npoints: int, rho: float = 1.1):\n        r\"\"\"Generate grid on :math:`[-1,1]` interval based on Trefethen-Clenshaw-Curtis.",
     "    def __init__(self, npoints: int, rho: float = 1.0):\n        r\"\"\"Generate grid on :math:`[-1,1]` interval based on Trefethen-Clenshaw-Curtis.",
     "TrefethenStripCC:default"),
    ("GaussLaguerre: wrong power of x for every alpha outside the fixed lattice (only the drawn alpha sees it)",
     "        weights *= np.exp(points) * np.power(points, -alpha)",
     "        weights *= np.exp(points) * np.power(points, -(alpha if alpha in (-0.5, 0, 1 / 3, 0.5, 1, 2.5) else alpha + 0.05))",
     "GaussLaguerre:"),
    ("FejerFirst: series capped at 5 terms (sizes up to 12 unaffected; only the drawn size sees it)",
     "        nsum = npoints // 2\n        j = np.arange(nsum) + 1\n\n        bj = 2.0 * np.ones(nsum) / (4 * j**2 - 1)",
     "        nsum = min(npoints // 2, 5)\n        j = np.arange(nsum) + 1\n\n        bj = 2.0 * np.ones(nsum) / (4 * j**2 - 1)",
     "FejerFirst:"),
]


def _integrate_first_only(self, *value_arrays):
    return np.einsum("i,i", self.weights, value_arrays[0])


def _integrate_dedup(self, *value_arrays):
    arrs = list({id(a): a for a in value_arrays}.values())
    return np.einsum("i" + ",i" * len(arrs), self.weights, *arrs)


def _integrate_drop_last(self, *value_arrays):
    return np.einsum("i" + ",i" * len(value_arrays), self.weights[:-1], *(a[:-1] for a in value_arrays))


# (name, replacement of grid.basegrid.Grid.integrate, clause expected among the violation keys)
INTEGRATE_MUTANTS = [
    ("Grid.integrate: only the first value array is used", _integrate_first_only, ":integrate"),
    ("Grid.integrate: repeated value arrays are de-duplicated (f, f, W -> f, W)", _integrate_dedup, ":integrate"),
    ("Grid.integrate: last grid point left out", _integrate_drop_last, ":integrate"),
]


def selftest(tier: str) -> int:
    """Every mutant must be reported as a VIOLATION (beyond the known finding); corrupted
    observation records must be rejected by the TLC audit; the as-shipped Fejer variants of the
    specification must be refuted by TLC.  Nothing outside /verif/gen is written."""
    import inspect

    import grid.onedgrid as og

    from .. import evidence
    root = tlc.scratch(f"{PROP}-selftest")
    evidence.EVID = root / "evidence"
    evidence.REPLAYS = root / "replays"
    evidence.EVID.mkdir()
    src = inspect.getsource(og)
    wd0 = root / "model"
    rep0 = Report(PROP, tier, "model_checking")
    em = _run_model(rep0, wd0, tier)
    results = []

    def one(name, expect, corrupt=None):
        rep = Report(PROP, tier, "model_checking")
        try:
            _run(tier, rep, root / "run", em=em, corrupt=corrupt)
        except tlc.MachineryError as e:
            if corrupt is not None and "audit mismatch" in str(e):
                return True, ["audit-mismatch(machinery)"]
            raise
        keys = sorted({v["key"] for v in rep.violations if rep._match_known(v["key"]) is None})
        return any(expect in k for k in keys), keys

    ok, keys = one("baseline", "@@none@@")
    base_clean = not keys
    print(f"selftest baseline: unlisted violations = {keys}")
    killed = 0
    names_before = set(og.__dict__)
    for name, old, new, expect in MUTANTS:
        if old not in src or src.count(old) != 1:
            print(f"selftest MUTANT-NOT-APPLICABLE {name}")
            results.append((name, False))
            continue
        try:
            exec(compile(src.replace(old, new), og.__file__, "exec"), og.__dict__)
            ok, keys = one(name, expect)
        finally:
            exec(compile(src, og.__file__, "exec"), og.__dict__)
            for extra in set(og.__dict__) - names_before:      # classes / caches a mutant added
                del og.__dict__[extra]
        killed += ok
        results.append((name, ok))
        hit = [k for k in keys if expect in k]
        print(f"selftest mutant {'KILLED ' if ok else 'MISSED '} {name}: {len(keys)} violation key(s), e.g. {(hit or keys)[:3]}")
    import grid.basegrid as bg
    for name, fn, expect in INTEGRATE_MUTANTS:
        with evidence.patched(bg.Grid, "integrate", fn):
            ok, keys = one(name, expect)
        killed += ok
        results.append((name, ok))
        hit = [k for k in keys if expect in k]
        print(f"selftest mutant {'KILLED ' if ok else 'MISSED '} {name}: {len(keys)} violation key(s), e.g. {(hit or keys)[:3]}")

    def c_size(o):
        o["ClenshawCurtis"][3]["size"] += 1

    def c_drop(o):
        o["GaussLegendre"].pop()

    def c_obl(o):
        o["GaussLaguerre"][0]["nobl"] -= 1

    def c_int(o):
        o["GaussLegendre"][1]["nint"] -= 1

    def c_form(o):
        o["TanhSinh"][0]["nform"] -= 1
    for name, fn, expect in (("record: size of one case altered", c_size, ":size"),
                             ("record: one case missing", c_drop, "audit:"),
                             ("record: one obligation not discharged", c_obl, "audit-mismatch"),
                             ("record: one obligation not passed through integrate", c_int, "audit-mismatch"),
                             ("record: one call form not replayed", c_form, "audit-mismatch")):
        try:
            ok, keys = one(name, expect, corrupt=fn)
        except tlc.MachineryError as e:  # a missing record makes TLC fail to evaluate the audit: rejected as well
            ok, keys = True, [f"machinery: {str(e)[:80]}"]
        killed += ok
        results.append((name, ok))
        print(f"selftest corruption {'REJECTED' if ok else 'ACCEPTED'} {name}: {keys[:3]}")
    for inv in ("ShippedFejer2Exact", "ShippedFejer1Exact"):
        (wd0 / f"S_{inv}.cfg").write_text(_cfg_text(tier, [inv], "oned_shipped.json"))
        r = _tlc("MC_OneD", wd0 / f"S_{inv}.cfg", wd0, workers=4, timeout=600).require_ok(inv)
        ok = r.status == "violation"
        killed += ok
        results.append((f"spec variant {inv}", ok))
        print(f"selftest spec-variant {'REFUTED ' if ok else 'ACCEPTED'} {inv} (series with the last term dropped) "
              f"{tlc.last_state(r).get('vcase')}")
    total = len(results)
    print(f"selftest: {killed}/{total} detected; baseline clean = {base_clean}")
    return 0 if (killed == total and base_clean) else 1
