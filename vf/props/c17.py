"""C17 - closed-form Coulomb potentials of Gaussian densities are exact everywhere.

Flow (DESIGN.md section 5, C17 and Appendix E.1):
 1. observations of ``load_atomic_gaussian_params`` (every JSON key by symbol, case and
    whitespace variants, every atomic number 0..120, invalid strings) are recorded and written
    as JSON next to a generated ``Tables_coulomb`` module (keys and lengths read from the JSON
    file in /repo, independently of the library).
 2. TLC checks ``Coulomb.tla`` (MC_Coulomb.cfg): in the differential algebra {erf, E} with
    polynomial coefficients it DERIVES the potential of the documented s- and p-type
    densities from the radial Poisson equation (unique solution of the ansatz on a rational
    lattice, for every alpha of a rational set, as polynomial identities in r), checks
    regularity/V(0)/evenness at the origin, erf coefficient = total charge = 1, the
    normalisation constants through verified antiderivatives, linearity, refutes the p-type
    formula documented in coulomb.py (CodeU("p")), and judges the recorded
    ``load_atomic_gaussian_params`` observations.  A second tiny run (MC_Coulomb_Code.cfg) must
    produce TLC's counterexample for the documented p-type formula.
 3. the trees emitted by TLC (V, V(0), normalisation factor, densities) are first validated
    independently of both the code and the algebra by mpmath quadrature of the Coulomb integral
    V(r) = 4 pi [ (1/r) int_0^r rho s^2 ds + int_r^oo rho s ds ], then the implementation is
    compared with them: ``coulomb_gaussian_s/p`` (normalized and not) on an (alpha, r) set that
    covers 1e-3..1e4 in alpha and 0, both sides of the 1e-12 switch, the erf transition
    region, the underflow region of the Gaussian and 1e8 in r; ``coulomb_potential`` against the
    superposition of spec trees and against the superposition of the library's own
    single-centre functions.

 4. (audit, 2026-09-26) ``CoulombForms.tla`` states over which REQUESTS the statement is made; TLC
    (``CoulombFormsGen``) emits the tables, the harness realises them, TLC (``CoulombFormsJudge``) judges
    every observation and the completeness of the set:
    A. call forms of ``coulomb_gaussian_s/p``: 16 forms of r (float64 / list / tuple / int64 / float32 /
       float16 / longdouble / strided view / read-only / 2-d / Fortran 2-d / 3-d / 0-d / Python float, int /
       NumPy scalar) x 13 compositions with respect to the switch (mixed, all above, all below, zeros, far
       field, empty, one radius of each class: 0, below, exactly on, above the threshold, far, >= 1e150,
       infinity) x 12 forms of alpha (Python / NumPy floats and integers of every width, 0-d arrays) x 7 forms
       of the flag (omitted, positional, keyword, numpy.bool_) x {s, p}: shape of r, fresh float64 answer,
       every element against the tree at the exact value, arguments untouched, same answer for the same
       objects.  thorough: all 25200 requests; quick: a VERIF_SEED-drawn stratified ~1500.
    B. configurations of ``coulomb_potential``: s set (none / 1 / 3 / 24 / a shipped element set obtained
       through ``load_atomic_gaussian_params`` / three of them as a molecule) x p set (omitted / three Nones /
       empty / 1 / 3 / 24) x layout (distinct / p on s centres / centers_p IS centers_s / one centre / points
       IS centers_s / coeffs_s IS alphas_s) x points (0 / 1 / 6 / 1500) x array form (float64 / lists / int64 /
       float32 / Fortran / strided / read-only) x flag (omitted / bool / numpy.bool_) x style (positional /
       keyword): the first 4 points against the specification's superposition, all points against the sum
       of the library's own single-centre functions, the last point (1e6 bohr away) against total charge / r.
    C. value lattice: alpha = 10^k for k = -10..10, the exponents of the shipped sets (0.077 .. 3.0e6; quick:
       extremes and two drawn per element, thorough: all), radii 1e150, 1e200, 1e300 and infinity, with two
       more clauses that do not depend on the formula returned: unnormalised / normalised = the documented
       constant (Coulomb!DocNormIsDerived) and r V = Q for sqrt(alpha) r >= 7 (Coulomb!FarFieldForm).
    Lookups: NumPy integers of every width, numpy.str_, and the same lookups with the lazily loaded table
    forgotten first (first use), followed by a lookup of a fitted element (Coulomb!ParamsColdConform).

Calibration of the audit clauses (pinned tree, 2026-09-26, thorough): value lattice s 3.5e-15, p (documented
formula) 6.2e-15 - both at alpha = 1e10, r just below 1e-12, i.e. the truncation error alpha r^2 / 3 of the
library's small-r branch, which bounds the decade range at 1e10 (1e12 would cost 3e-13); documented-factor
clause 4.4e-16; far-field clause 4.4e-16; call forms (exact class) 4.2e-16, float32 alpha 9.6e-8 .. 1.4e-7
(tolerance 1e-4, derived in CoulombForms!TolExp); configurations vs spec 1.0e-15, vs own superposition 0
(bitwise); far point: twice the rigorous dipole bound d / (R - d) (the bound itself is attained by a centre on the axis: used
up to 0.5 of the tolerance).

Tolerance (calibrated on the pinned tree, 2026-09-25): largest relative deviation of
``coulomb_gaussian_s`` from the 50-digit tree value over the thorough set: 4.5e-16; of
``coulomb_gaussian_p`` from the tree of the formula it documents: 6.7e-16; coulomb_potential
(s-only, <= 4 centres, mixed signs) 6.1e-16 relative to the sum of |terms|, against the sum
of the library's own single-centre values 4.0e-16.  Acceptance rtol = 1e-12 (of the value; for
sums: of the sum of absolute terms): > 3 orders above sound behaviour.  The known p-type defect is 1e-1 .. 2.5 relative where the Gaussian tail matters.
"""
from __future__ import annotations

import os

import json
import math
import random
from pathlib import Path

import numpy as np

from .. import tlc, tlcx
from ..evidence import Report
from ..expr_eval import evaluate, evaluate_mag, mp

PROP = "C17"
RTOL = 1e-12
JSON_PARAMS = Path(os.environ.get("VERIF_REPO", "/repo")) / "src/grid/data/atomic_gauss_params.json"
THRESH = 1e-12  # documented switch of the implementation (only used to PLACE sample points)
TINY = 1e-290   # potentials below this are (nearly) subnormal floats: compared by magnitude only (radii >= 1e100)


# ---------------------------------------------------------------------------------------------
# specification side

_SYM = []


def _symbols():
    """The periodic table of the specification (Coulomb!Symbol), parsed from the module."""
    if not _SYM:
        import re
        src = (tlc.SPEC / "Coulomb.tla").read_text()
        m = re.search(r"Symbol == <<(.*?)>>", src, re.S)
        _SYM.extend(re.findall(r'"([A-Za-z]+)"', m.group(1)))
        if len(_SYM) != 118:
            raise tlc.MachineryError("could not read the periodic table from Coulomb.tla")
    return _SYM


def write_tables(wd: Path, keys=None, lens=None, obs_file: str | None = None, maxalpha=None) -> None:
    keys = list(keys or ["H"])
    lens = list(lens or [1] * len(keys))
    maxalpha = list(maxalpha or [1] * len(keys))
    lines = ["---- MODULE Tables_coulomb ----",
             "\\* generated by vf/props/c17.py from /repo/src/grid/data/atomic_gauss_params.json",
             "EXTENDS Integers, Sequences, Json",
             f"ParamKeys == {tlc.tla(keys)}",
             f"ParamLen == {tlc.tla(lens)}",
             f"ParamMaxAlpha == {tlc.tla([int(math.ceil(v)) for v in maxalpha])}",   # ceil of the largest exponent (C16 envelope rule)
             f'ParamObs == JsonDeserialize("{obs_file}")' if obs_file else "ParamObs == <<>>",
             "===="]
    (wd / "Tables_coulomb.tla").write_text("\n".join(lines) + "\n")


def coulomb_model(wd: Path, keys=None, lens=None, obs_file=None, workers=4):
    """Run TLC on Coulomb.tla; return (trees, TlcResult).  Also used by C16 for its oracles."""
    write_tables(wd, keys, lens, obs_file)
    res = tlc.run_tlc("Coulomb", "MC_Coulomb.cfg", wd, workers=workers, timeout=600).require_ok("MC_Coulomb")
    tf = wd / "coulomb_trees.json"
    if not tf.exists():
        raise tlc.MachineryError("Coulomb.tla did not emit coulomb_trees.json\n" + res.stdout[-2000:])
    with open(tf) as f:
        trees = json.load(f)
    return trees, res


class Oracle:
    """Evaluates the spec-emitted trees in 50-digit arithmetic."""

    def __init__(self, trees):
        self.t = trees
        self._cache = {}

    @staticmethod
    def _env(r, alpha):
        return {"r": mp.mpf(r), "alpha": mp.mpf(alpha)}

    def v(self, kind, r, alpha, which="spec"):
        """Potential of the NORMALISED density of ``kind`` at distance r >= 0 (value, magnitude)."""
        t = self.t[kind]
        if r == 0:
            return evaluate_mag(t["V0" if which == "spec" else "CodeV0"], self._env(r, alpha), "mp")
        if r == math.inf:      # Coulomb!FarFieldForm: r V -> Q, hence V -> 0 (both the derived and the documented formula)
            z = evaluate(t["VInf"], {}, "mp")
            return z, z
        return evaluate_mag(t["Vr" if which == "spec" else "CodeV"], self._env(r, alpha), "mp")

    def vc(self, kind, r, alpha, which="spec"):
        """Cached value of ``v`` (call forms and configurations reuse few distinct (r, alpha))."""
        k = (kind, float(r), float(alpha), which)
        if k not in self._cache:
            self._cache[k] = self.v(kind, float(r), float(alpha), which)[0]
        return self._cache[k]

    def norm(self, kind, alpha):
        k = ("norm", kind, float(alpha))
        if k not in self._cache:
            self._cache[k] = evaluate(self.t[kind]["Norm"], {"alpha": mp.mpf(alpha)}, "mp")
        return self._cache[k]

    def docnorm(self, kind, alpha):
        """The constant the docstrings give for the unnormalised variant (Coulomb!DocNormCoef)."""
        return evaluate(self.t[kind]["DocNorm"], {"alpha": mp.mpf(alpha)}, "mp")

    def farx(self):
        return float(evaluate(self.t["s"]["FarX"], {}, "mp"))

    def rho(self, kind, r, alpha, form="RhoAlg"):
        return evaluate(self.t[kind][form], self._env(r, alpha), "mp")

    def dist(self, p, c):
        env = {k: mp.mpf(float(v)) for k, v in zip("xyzXYZ", list(p) + list(c))}
        return evaluate(self.t["dist"], env, "mp")


def validate_oracle(orc: Oracle, rng, n_pairs: int):
    """Independent validation of the spec trees (no library code involved): documented density
    = algebra density, unnormalised = N * normalised, and V = multiprecision Coulomb integral.
    Returns (worst relative error, how far the library's documented p formula is off)."""
    worst = 0.0
    code_off = 0.0
    old = mp.mp.dps
    mp.mp.dps = 40
    try:
        pairs = [(0.5, 1.0), (3.0, 0.2), (0.07, 2.5), (50.0, 0.05)]
        while len(pairs) < n_pairs:
            a = 10 ** rng.uniform(-2, 2)
            pairs.append((a, rng.uniform(0.05, 3.0) / math.sqrt(a)))
        for alpha, r in pairs:
            for kind in ("s", "p"):
                doc = orc.rho(kind, r, alpha, "RhoDoc")
                alg = orc.rho(kind, r, alpha, "RhoAlg")
                worst = max(worst, float(abs(doc - alg) / abs(doc)))
                un = orc.rho(kind, r, alpha, "UnnormRhoDoc")
                worst = max(worst, float(abs(orc.norm(kind, alpha) * alg - un) / abs(un)))
                f = lambda s, kind=kind: orc.rho(kind, s, alpha, "RhoDoc")  # noqa: E731
                sa = 1 / mp.sqrt(alpha)
                inner = mp.quad(lambda s: f(s) * s * s, [0, r / 2, r])
                outer = mp.quad(lambda s: f(s) * s, [r, r + sa, r + 4 * sa, r + 12 * sa, mp.inf])
                vq = 4 * mp.pi * (inner / r + outer)
                vs, _ = orc.v(kind, r, alpha)
                worst = max(worst, float(abs(vq - vs) / abs(vq)))
                # V(0) = 4 pi int rho s ds
                v0q = 4 * mp.pi * mp.quad(lambda s: f(s) * s, [0, sa, 4 * sa, 12 * sa, mp.inf])
                v0, _ = orc.v(kind, 0, alpha)
                worst = max(worst, float(abs(v0q - v0) / abs(v0q)))
                if kind == "p":
                    vc, _ = orc.v("p", r, alpha, "code")
                    code_off = max(code_off, float(abs(vq - vc) / abs(vq)))
    finally:
        mp.mp.dps = old
    return worst, code_off


# ---------------------------------------------------------------------------------------------
# implementation side: load_atomic_gaussian_params observations (judged by TLC)

def _outcome(arg):
    from grid.coulomb import load_atomic_gaussian_params
    try:
        c, a = load_atomic_gaussian_params(arg)
        return ("ok", np.array(c, copy=True), np.array(a, copy=True))
    except Exception as e:  # noqa: BLE001
        return (type(e).__name__, None, None)


def _same_outcome(x, y):
    return x[0] == y[0] and (x[1] is None or (x[1].shape == y[1].shape and x[2].shape == y[2].shape and
                                              np.array_equal(x[1], y[1]) and np.array_equal(x[2], y[2])))


def _observe_cold(arg, table, o):
    """The anchor's state: the table is loaded on first use.  Forget it (as in a fresh process), repeat the
    lookup - same outcome as with the table in memory? - and look a fitted element up right after it."""
    import grid.coulomb as gc
    o["cold"], o["coldnext"] = -1, -1
    if not hasattr(gc, "_ATOMIC_GAUSS_PARAMS_CACHE"):
        return
    warm = _outcome(arg)
    saved = gc._ATOMIC_GAUSS_PARAMS_CACHE
    try:
        gc._ATOMIC_GAUSS_PARAMS_CACHE = None
        cold = _outcome(arg)
        o["cold"] = int(_same_outcome(warm, cold))
        k = sorted(table)[len(str(arg)) % len(table)]
        nxt = _outcome(k)
        o["coldnext"] = int(nxt[0] == "ok" and np.array_equal(nxt[1], np.array(table[k]["coeffs_s"], dtype=float))
                            and np.array_equal(nxt[2], np.array(table[k]["alphas_s"], dtype=float)))
    finally:
        if gc._ATOMIC_GAUSS_PARAMS_CACHE is None:
            gc._ATOMIC_GAUSS_PARAMS_CACHE = saved


def _observe_params(arg, table, cold=False):
    from grid.coulomb import load_atomic_gaussian_params
    o = {"status": "ok", "lenc": -1, "lena": -1, "bad": -1, "matches": "", "stable": 0, "cold": -1, "coldnext": -1}
    if cold:
        _observe_cold(arg, table, o)
    try:
        c, a = load_atomic_gaussian_params(arg)
    except Exception as e:  # noqa: BLE001
        o["status"] = type(e).__name__
        return o
    try:
        c = np.asarray(c)
        a = np.asarray(a)
        o["lenc"], o["lena"] = int(c.size), int(a.size)
        o["bad"] = int(np.sum(~(np.isfinite(a) & (a > 0)))) + int(np.sum(~np.isfinite(c)))
        if c.ndim != 1 or a.ndim != 1 or c.dtype != float or a.dtype != float:
            o["bad"] += 1000
        for k, v in table.items():
            if c.shape == (len(v["coeffs_s"]),) and a.shape == (len(v["alphas_s"]),) and \
                    np.array_equal(c, np.array(v["coeffs_s"], dtype=float)) and \
                    np.array_equal(a, np.array(v["alphas_s"], dtype=float)):
                o["matches"] = k
        c0, a0 = c.copy(), a.copy()
        try:
            c[...] = -1.0  # a caller editing the result must not change what a later call returns
            a[...] = -1.0
        except ValueError:
            pass  # read-only results are fine as well
        c2, a2 = load_atomic_gaussian_params(arg)
        o["stable"] = int(np.array_equal(c0, c2) and np.array_equal(a0, a2))
    except Exception as e:  # noqa: BLE001
        o["status"] = "postprocessing:" + type(e).__name__
    return o


def _variants(sym, rng, n):
    out = [sym, sym.lower(), sym.upper(), " " + sym, sym + " ", "  " + sym.lower() + "\t", sym.swapcase()]
    while len(out) < n:
        s = "".join(ch.upper() if rng.random() < 0.5 else ch.lower() for ch in sym)
        out.append(" " * rng.randint(0, 2) + s + " " * rng.randint(0, 2))
    return out[:n]


def record_param_observations(rep, rng, tier, symbols):
    with open(JSON_PARAMS) as f:
        table = json.load(f)
    keys = list(table)
    lens = [len(table[k]["alphas_s"]) for k in keys]
    for k in keys:  # data file itself: equal lengths are part of the property
        if len(table[k]["alphas_s"]) != len(table[k]["coeffs_s"]):
            rep.violation(f"data:atomic_gauss_params.json:{k}:lengths",
                          f"element {k}: {len(table[k]['coeffs_s'])} coefficients but {len(table[k]['alphas_s'])} exponents")
    obs = []

    def put(route, canon, z, arg, cold=False):
        o = _observe_params(arg, table, cold)
        o.update(route=route, canon=canon, z=int(z))
        obs.append(o)
        rep.evaluated(1, ("params", route, canon, int(z), str(arg)))

    nvar = 7 if tier == "quick" else 20
    # every element symbol of the periodic table (the spec's table), case/whitespace variants of the keys
    for z, sym in enumerate(symbols, start=1):
        for arg in (_variants(sym, rng, nvar) if sym in table or tier == "thorough" else [sym, sym.lower()]):
            put("symbol", sym, z, arg)
        put("number", "", z, z)
        put("number", "", z, np.int64(z))
    for z in (0, -1, len(symbols) + 1, len(symbols) + 2, 1000):
        put("number", "", z, z)
    for bad in ("", "Xx", "Hh", "H1", "C l", "carbon", "1"):
        put("symbol", "", 0, bad)
    # "every element symbol/number": numbers of every NumPy integer type, NumPy strings; and the same lookups with
    # the lazily loaded table forgotten first (first use), including refused ones followed by a fitted element
    zs = sorted({symbols.index(k) + 1 for k in keys if k in symbols} | {2, 3, 118})
    for z in zs:
        for ty in (np.int32, np.int16, np.int8, np.uint8, np.uint16, np.uint32, np.uint64, np.intc, np.longlong):
            put("number", "", z, ty(z))
        put("symbol", symbols[z - 1], z, np.str_(symbols[z - 1]))
        put("symbol", symbols[z - 1], z, symbols[z - 1], cold=True)
        put("number", "", z, z, cold=True)
    put("number", "", 0, 0, cold=True)
    put("number", "", 119, np.int64(119), cold=True)
    put("symbol", "", 0, "Xx", cold=True)
    put("symbol", symbols[0], 1, "  h ", cold=True)
    return keys, lens, obs


# ---------------------------------------------------------------------------------------------
# implementation side: potentials

def _alphas(tier, rng, lattice=None, table=None, lobs=None):
    lat = [10 ** (k / 2) for k in range(-6, 9)]  # 1e-3 .. 1e4
    lat += [0.5, 2.0, 3.0, 7.0 / 3.0, 50.0]
    n = 6 if tier == "quick" else 110
    lat += [10 ** rng.uniform(-3, 4) for _ in range(n)]
    if lattice is not None:
        # CoulombForms Part C: every decade of the specification's range, and the exponents of the shipped
        # per-element sets (0.077 .. 3e6: what the routine is used with) - all of them in the thorough tier
        dec = [int(k) for k in lattice["decades"]]
        lat += [10.0 ** k for k in dec if 10.0 ** k not in lat]
        ship = []
        for key, v in (table or {}).items():
            al = sorted(float(a) for a in v["alphas_s"])
            pick = al if tier != "quick" else sorted({al[0], al[-1], *rng.sample(al, min(2, len(al)))})
            lat += pick
            ship.append({"key": key, "n": len(pick), "extremes": bool(al[0] in pick and al[-1] in pick)})
        if tier != "quick":
            lat += [10 ** rng.uniform(-10, 10) for _ in range(40)]
        else:
            lat += [10 ** rng.uniform(-10, -3), 10 ** rng.uniform(4, 10)]
        if lobs is not None:
            lobs.update(decades=dec, shipped=ship)
    return lat


def _radii(alpha, tier, rng, lattice=None, lobs=None):
    rs = [0.0, 5e-324, 1e-300, 1e-20, 1e-13, 9e-13, math.nextafter(THRESH, 0), THRESH, math.nextafter(THRESH, 1),
          1.1e-12, 1e-11, 1e-9, 1e-6, 1e-4, 1e-3, 1e-2, 0.1, 0.5, 1.0, 2.0, 5.0, 10.0, 1e2, 1e3, 1e5, 1e8]
    sa = math.sqrt(alpha)
    rs += [x / sa for x in (1e-3, 0.1, 0.5, 1.0, 2.0, 3.0, 4.0, 5.0, 5.9, 6.5, 10.0, 26.0, 27.3, 30.0, 40.0)]
    n = 6 if tier == "quick" else 40
    rs += [10 ** rng.uniform(-14, 8) for _ in range(n)]
    rs += [rng.uniform(0, 6) / sa for _ in range(n)]
    if lattice is not None:
        # "very large r": beyond the overflow of r^2, up to infinity (Coulomb!FarFieldForm: V -> 0)
        rs += [10.0 ** int(k) for k in lattice["huge"]] + [math.inf, 7.0 / sa, 8.5 / sa]
        if lobs is not None:
            lobs.update(huge=[int(k) for k in lattice["huge"]], infinity=True)
    return rs


def _call(fn, *a, **k):
    try:
        with np.errstate(all="ignore"):
            return np.asarray(fn(*a, **k), dtype=float), None
    except Exception as e:  # noqa: BLE001
        return None, f"{type(e).__name__}: {e}"


def _close(obs, exp, mag, rtol=RTOL):
    exp_f = float(exp)
    err = abs(float(obs) - exp_f)
    if math.isnan(err):
        return False, float("nan")
    tol = max(rtol * abs(exp_f), 5e-324)
    return err <= tol, (err / abs(exp_f) if exp_f else err)


def check_single_centre(rep, orc, tier, rng, stats, lattice=None, table=None, lobs=None):
    from grid.coulomb import coulomb_gaussian_p, coulomb_gaussian_s
    fns = {"s": coulomb_gaussian_s, "p": coulomb_gaussian_p}
    farx = orc.farx() if lattice is not None else None
    for alpha in _alphas(tier, rng, lattice, table, lobs):
        rs = _radii(alpha, tier, rng, lattice, lobs)
        arr = np.array(rs)
        outs = {}
        for kind in ("s", "p"):
            for normalized in (True, False):
                out, err = _call(fns[kind], arr, alpha, normalized)
                if err is None and out.shape == arr.shape:
                    outs[kind, normalized] = out
                name = f"coulomb_gaussian_{kind}"
                if err is not None or out.shape != arr.shape:
                    rep.violation(f"{name}:raises:normalized={normalized}",
                                  f"{name}(r-array, alpha={alpha!r}, normalized={normalized}) failed: {err or out.shape}",
                                  {"alpha": alpha, "r": rs, "normalized": normalized})
                    continue
                nfac = mp.mpf(1) if normalized else orc.norm(kind, alpha)
                for r, o in zip(rs, out.tolist()):
                    e, m = orc.v(kind, r, alpha)
                    e, m = e * nfac, m * nfac
                    ok, rel = _close(o, e, m)
                    if abs(float(e)) < TINY and r >= 1e100:
                        # (new radii only) the potential itself is a subnormal float or underflows: magnitude only
                        ok, rel = bool(0.0 <= o <= 2 * TINY), abs(o - float(e))
                    rep.evaluated(1, (kind, normalized, alpha, r))
                    case = {"function": name, "alpha": alpha, "r": r, "normalized": normalized,
                            "observed": o, "spec": float(e), "rel_err": rel}
                    if len(rep.cov["samples"]) < 6 and r in (0.0, 1.0, 1e8):
                        rep.sample(case)
                    if ok:
                        if kind == "s":
                            stats["s"] = max(stats["s"], rel)
                        continue
                    region = "origin-limit" if r < THRESH else "formula"
                    if kind == "p":
                        # does the observation equal the formula the library DOCUMENTS (CodeU("p"))?
                        ec, mc = orc.v("p", r, alpha, "code")
                        okc, relc = _close(o, ec * nfac, mc * nfac)
                        case["documented_formula"] = float(ec * nfac)
                        if okc:
                            stats["p_code"] = max(stats["p_code"], relc)
                            stats["p_defect"] = max(stats["p_defect"], rel)
                            what = ("coulomb_gaussian_p returns the formula of its docstring, erf/r + (4/3) sqrt(alpha/pi) exp(-alpha r^2) "
                                    "(10/3 sqrt(alpha/pi) below the r switch), which TLC refutes as the potential of the documented "
                                    "density (Coulomb!CodePRefuted); the potential is erf/r - (2/3) sqrt(alpha/pi) exp(-alpha r^2), "
                                    f"V(0) = 4/3 sqrt(alpha/pi); e.g. alpha={alpha:g} r={r:g}: returned {o:.12g}, potential {float(e):.12g}")
                            key = (f"coulomb_gaussian_p:origin-limit(10/3 instead of 4/3):normalized={normalized}" if r < THRESH else
                                   f"coulomb_gaussian_p:gaussian-tail(+4/3 instead of -2/3):normalized={normalized}")
                            rep.violation(key, what, case)
                            continue
                    rep.violation(f"{name}:{region}:normalized={normalized}:alpha={alpha:.6g}:r={r:.6g}",
                                  f"{name}(r={r!r}, alpha={alpha!r}, normalized={normalized}) = {o!r}; the potential of the documented "
                                  f"density (Coulomb.tla) is {float(e)!r} (relative deviation {rel:.3g})", case)
        if lattice is not None:
            _check_factor_and_far(rep, orc, alpha, rs, arr, outs, farx, stats)
        # continuity across the small-r switch (a clause of its own: it holds or fails whatever formula is
        # returned on either side).  Coulomb!V2Coef bounds the change of V over one ulp of r at r ~ 1e-12 by
        # alpha r^2 * 1e-16 relative, i.e. far below 1e-9 for every alpha sampled here.
        sw = np.array([0.0, math.nextafter(THRESH, 0), THRESH, math.nextafter(THRESH, 1), 2 * THRESH])
        for kind in ("s", "p"):
            for normalized in (True, False):
                out, err = _call(fns[kind], sw, alpha, normalized)
                if err is not None or out.shape != sw.shape:
                    continue  # reported above
                ref = abs(float(out[0]))
                jump = float(np.max(np.abs(out - out[0])))
                rep.evaluated(1, ("switch-continuity", kind, normalized, alpha))
                if not (np.all(np.isfinite(out)) and jump <= 1e-9 * ref):
                    rep.violation(f"coulomb_gaussian_{kind}:discontinuous-at-switch:normalized={normalized}",
                                  f"coulomb_gaussian_{kind}(r, alpha={alpha!r}, normalized={normalized}) at r = 0, 1e-12 - ulp, 1e-12, "
                                  f"1e-12 + ulp, 2e-12 returns {out.tolist()}: a jump of {jump / ref if ref else float('inf'):.3g} "
                                  "relative across the small-r switch, where the potential changes by < 1e-16 relative",
                                  {"function": f"coulomb_gaussian_{kind}", "alpha": alpha, "r": sw.tolist(),
                                   "normalized": normalized, "observed": out.tolist()})
        # scalar input: documented to return shape (1,)
        for kind in ("s", "p"):
            out, err = _call(fns[kind], 0.75, alpha, True)
            if err is not None or out.shape != (1,):
                rep.violation(f"coulomb_gaussian_{kind}:scalar-input", f"scalar r: {err or out.shape}", {"alpha": alpha})


def _check_factor_and_far(rep, orc, alpha, rs, arr, outs, farx, stats):
    """Two clauses of the statement that hold or fail whatever formula is returned (hence also for the p-type
    function, whose values are a recorded finding):
      * "the unnormalised variants differ by the documented constant factor": unnormalised / normalised at
        the same radius = Coulomb!DocNormCoef pi^(3/2) alpha^-(l+3/2) (TLC: equal to the derived constant);
      * "tend to total charge over r at large r": r V = Q (1 for the normalised density, the documented
        constant for the unnormalised one) wherever sqrt(alpha) r >= Coulomb!FarX (TLC: FarFieldForm).
    Error budget: one product by a constant that is itself 3-4 roundings from exact -> <= 1e-15; RTOL = 1e-12."""
    for kind in ("s", "p"):
        doc = float(orc.docnorm(kind, alpha))
        a, b = outs.get((kind, True)), outs.get((kind, False))
        if a is None or b is None:
            continue  # reported by the caller
        with np.errstate(all="ignore"):
            sel = np.isfinite(a) & (np.abs(a) > TINY) & (np.abs(b) > TINY)
            ratio = np.where(sel, b / np.where(sel, a, 1.0), doc)
            dev = np.abs(ratio / doc - 1.0)
        rep.evaluated(1, ("documented-factor", kind, alpha))
        bad = ~(dev <= RTOL)
        if np.any(bad):
            i = int(np.argmax(bad))
            rep.violation(f"coulomb_gaussian_{kind}:unnormalised-factor:alpha={alpha:.6g}:r={rs[i]:.6g}",
                          f"coulomb_gaussian_{kind}(r={rs[i]!r}, alpha={alpha!r}): normalized=False / normalized=True = {float(ratio[i])!r}, the "
                          f"documented constant factor is {doc!r} (relative deviation {float(dev[i]):.3g})",
                          {"function": f"coulomb_gaussian_{kind}", "alpha": alpha, "r": rs[i], "unnormalised": float(b[i]), "normalised": float(a[i]),
                           "documented_factor": doc})
        else:
            stats["factor"] = max(stats["factor"], float(np.max(dev)))
        for normalized, out, q in ((True, a, 1.0), (False, b, doc)):
            with np.errstate(all="ignore"):
                sel = np.isfinite(arr) & (math.sqrt(alpha) * arr >= farx) & (q / np.where(arr > 0, arr, 1.0) > TINY)
                rv = np.where(sel, out * arr / q, 1.0)
                dev = np.abs(rv - 1.0)
            rep.evaluated(1, ("far-field", kind, normalized, alpha))
            bad = ~(dev <= RTOL)
            if np.any(bad):
                i = int(np.argmax(bad))
                rep.violation(f"coulomb_gaussian_{kind}:far-field:normalized={normalized}:alpha={alpha:.6g}:r={rs[i]:.6g}",
                              f"coulomb_gaussian_{kind}(r={rs[i]!r}, alpha={alpha!r}, normalized={normalized}) = {float(out[i])!r}: r V / Q = "
                              f"{float(rv[i])!r} at sqrt(alpha) r = {math.sqrt(alpha) * rs[i]:.3g} >= {farx:g}, where the potential is the total "
                              f"charge over r to every digit", {"function": f"coulomb_gaussian_{kind}", "alpha": alpha, "r": rs[i],
                                                               "normalized": normalized, "observed": float(out[i]), "total_charge": q})
            else:
                stats["far"] = max(stats["far"], float(np.max(dev)))


def check_superposition(rep, orc, tier, rng, stats):
    from grid.coulomb import coulomb_gaussian_p, coulomb_gaussian_s, coulomb_potential
    ncase = 30 if tier == "quick" else 400
    nrng = np.random.default_rng(rep.seed + 17)
    for ic in range(ncase):
        ks = rng.randint(1, 4)
        kp = rng.choice([0, 0, 1, 2, 3]) if ic % 3 else 0
        normalized = rng.random() < 0.6
        cs = nrng.uniform(-2, 2, size=(ks, 3)).round(3)
        cp = nrng.uniform(-2, 2, size=(kp, 3)).round(3)
        if ic % 4 == 1 and ks >= 2:
            # distinct but nearly coincident consecutive centres ("all centre sets"): a finite-difference
            # dipole 1e-6 apart, and a pair 2e-3 apart at coordinates of a few hundred bohr
            cs[1] = cs[0] + np.array([1e-6, 0.0, 0.0])
            if ks >= 3:
                cs[2] = np.array([400.0, -300.0, 250.0])
                if ks >= 4:
                    cs[3] = cs[2] + np.array([0.0, 2e-3, 0.0])
        if ic % 4 == 1 and kp >= 2:
            cp[1] = cp[0] + np.array([0.0, 0.0, 1e-6])
        co_s = nrng.uniform(-3, 3, size=ks).round(4)
        co_p = nrng.uniform(-3, 3, size=kp).round(4)
        al_s = 10 ** nrng.uniform(-2, 3, size=ks)
        al_p = 10 ** nrng.uniform(-2, 3, size=kp)
        pts = nrng.uniform(-3, 3, size=(6, 3)).round(3)
        pts[0] = cs[0]                       # a point on a centre (r = 0 branch)
        pts[1] = cs[-1] + [3e-13, 0, 0]      # ... and just below / above the switch
        pts[2] = cs[0] + [0, 2e-12, 0]
        if kp:
            pts[3] = cp[0]
        pts[5] = pts[5] * 1e4                # far away
        args = (pts.copy(), cs.copy(), co_s.copy(), al_s.copy())
        kw = dict(normalized=normalized)
        if kp:
            kw.update(centers_p=cp.copy(), coeffs_p=co_p.copy(), alphas_p=al_p.copy())
        out, err = _call(coulomb_potential, *args, **kw)
        case = {"points": pts, "centers_s": cs, "coeffs_s": co_s, "alphas_s": al_s, "centers_p": cp,
                "coeffs_p": co_p, "alphas_p": al_p, "normalized": normalized}
        tag = "s-only" if kp == 0 else "with-p"
        if err is not None or out.shape != (len(pts),):
            rep.violation(f"coulomb_potential:raises:{tag}", f"coulomb_potential failed: {err or out.shape}", case)
            continue
        # "is the coefficient-weighted sum" is a statement about a function of the argument VALUES: evaluating it
        # again with the very same argument objects (a caller looping over point batches) must give the same numbers
        out2, err2 = _call(coulomb_potential, *args, **kw)
        rep.evaluated(1, ("pot-repeat", ic))
        if err2 is not None or out2.shape != out.shape or not np.array_equal(out, out2, equal_nan=True):
            rep.violation(f"coulomb_potential:second-call-with-same-arguments-differs:{tag}:normalized={normalized}",
                          "coulomb_potential called twice with the same argument objects returned different potentials: "
                          f"{out.tolist()} then {err2 or out2.tolist()}", case)
        for ip, p in enumerate(pts):
            # (a) superposition of the specification's potentials
            tot = mp.mpf(0)
            totc = mp.mpf(0)
            mag = mp.mpf(0)
            magc = mp.mpf(0)
            lib = 0.0
            libmag = 0.0
            for kind, cen, co, al in (("s", cs, co_s, al_s), ("p", cp, co_p, al_p)):
                for c, a, ctr in zip(co, al, cen):
                    # the distance the implementation sees is a float; the spec's tree gives the exact one
                    d = float(orc.dist(p, ctr))
                    nf = mp.mpf(1) if normalized else orc.norm(kind, float(a))
                    v, _ = orc.v(kind, d, float(a))
                    vc, _ = orc.v(kind, d, float(a), "code")
                    tot += mp.mpf(float(c)) * v * nf
                    totc += mp.mpf(float(c)) * vc * nf
                    mag += abs(mp.mpf(float(c)) * v * nf)
                    magc += abs(mp.mpf(float(c)) * vc * nf)
                    f = coulomb_gaussian_s if kind == "s" else coulomb_gaussian_p
                    lv, e2 = _call(f, np.array([float(np.linalg.norm(p - ctr))]), float(a), normalized)
                    lv = float(lv[0]) if e2 is None else float("nan")
                    lib += float(c) * lv
                    libmag += abs(float(c) * lv)
            o = float(out[ip])
            rep.evaluated(1, ("pot", ic, ip))
            # the float distance |p - c| carries a rounding error of ~1 ulp, which matters for V only
            # through dV/dr * r * eps <= |V| * eps - covered by the tolerance on the magnitude
            tol = RTOL * float(mag) + 5e-324
            # (b) law: coulomb_potential = sum_k c_k * (library's own single-centre function)
            if not abs(o - lib) <= RTOL * libmag + 5e-324:
                rep.violation(f"coulomb_potential:superposition:{tag}",
                              f"coulomb_potential differs from the coefficient-weighted sum of coulomb_gaussian_s/p over the centres: "
                              f"{o!r} vs {lib!r} at point {p.tolist()}", {**case, "point_index": ip})
            else:
                stats["superpos"] = max(stats["superpos"], abs(o - lib) / libmag if libmag else 0.0)
            if abs(o - float(tot)) <= tol:
                if kp == 0:
                    stats["pot"] = max(stats["pot"], abs(o - float(tot)) / float(mag) if mag else 0.0)
                continue
            if kp and abs(o - float(totc)) <= RTOL * float(magc) + 5e-324:
                rep.violation(f"coulomb_potential:p-terms-inherit-coulomb_gaussian_p:normalized={normalized}",
                              "coulomb_potential with p-type functions equals the superposition built from the documented (refuted) "
                              f"p-type formula, not from the potential of the documented density: {o!r} vs {float(tot)!r}",
                              {**case, "point_index": ip})
                continue
            rep.violation(f"coulomb_potential:{tag}:value",
                          f"coulomb_potential = {o!r} at point {p.tolist()}, superposition of the specification's potentials = {float(tot)!r}",
                          {**case, "point_index": ip})
        # the call must not have modified its inputs (cheap here; C20 owns the general statement)


# ---------------------------------------------------------------------------------------------
# call forms and configurations (spec/CoulombForms*.tla): TLC emits the request tables, the harness
# realises them, TLC judges the observations and their completeness

def forms_tables(wd: Path):
    res = tlc.run_tlc("CoulombFormsGen", "Gen_CoulombForms.cfg", wd, workers=1, timeout=300).require_ok("Gen_CoulombForms")
    if res.status != "ok":
        raise tlc.MachineryError("CoulombFormsGen: the request tables are not sane: " + str(res.violated))
    with open(wd / "coulomb_forms.json") as f:
        return json.load(f), res


def _in_class(cls, r, alpha, farx):
    x = math.sqrt(alpha) * r
    return {"Z": r == 0.0, "B": 0.0 < r < THRESH, "T": r == THRESH, "A": THRESH <= r <= 1e100,
            "F": THRESH <= r <= 1e100 and x >= farx, "H": 1e150 <= r < math.inf, "I": r == math.inf}[cls]


def _class_pool(cls, dom, alpha, farx):
    """Radii (exact float64 values) of a class that the domain of the r form can hold."""
    sa = math.sqrt(alpha)
    if dom == "int":
        base = {"Z": [0], "A": [1, 2, 3, 5], "F": [10 ** 3, 10 ** 6, 10 ** 9, 10 ** 15]}[cls]
        vals = [float(v) for v in base]
    else:
        base = {"Z": [0.0],
                "B": [5e-324, 1e-300, 1e-45, 1e-30, 1e-20, 1e-13, 9e-13, math.nextafter(THRESH, 0)],
                "T": [THRESH],
                "A": [math.nextafter(THRESH, 1), 2e-12, 1e-9, 1e-6, 1e-3 / sa, 0.3 / sa, 1.0 / sa, 2.5 / sa, 5.9 / sa,
                      6.1e-5, 0.01, 0.5, 1.0, 2.0],
                "F": [7.5 / sa, 12.0 / sa, 40.0 / sa, 40.0, 1e3, 6e4, 1e8, 1e30],
                "H": [1e150, 1e200, 1e300, 1.5e308],
                "I": [math.inf]}[cls]
        if dom in ("f4", "f2"):
            dt = np.float32 if dom == "f4" else np.float16
            with np.errstate(all="ignore"):
                base = [float(dt(v)) for v in base]
        vals = [float(v) for v in base]
    out = []
    for v in vals:
        if _in_class(cls, v, alpha, farx) and v not in out:
            out.append(v)
    if not out:
        raise tlc.MachineryError(f"no radius of class {cls} representable in domain {dom} for alpha={alpha}")
    return out


def _mk_r(rform, vals):
    a = np.array(vals, dtype=float)
    n = len(vals)
    if rform == "f8":
        return a
    if rform == "list":
        return [float(v) for v in vals]
    if rform == "tuple":
        return tuple(float(v) for v in vals)
    if rform == "i8":
        return np.array([int(v) for v in vals], dtype=np.int64)
    if rform == "f4":
        return a.astype(np.float32)
    if rform == "f2":
        return a.astype(np.float16)
    if rform == "longdouble":
        return a.astype(np.longdouble)
    if rform == "strided":
        big = np.full(2 * n + 1, -7.0)      # the gaps hold inadmissible radii: they must never be looked at
        big[1::2] = a
        return big[1::2]
    if rform == "readonly":
        a.setflags(write=False)
        return a
    if rform == "2d":
        return a.reshape(2, n // 2)
    if rform == "fortran2d":
        return np.asfortranarray(a.reshape(2, n // 2))
    if rform == "3d":
        return a.reshape(1, 2, n // 2)
    if rform == "0d":
        return np.array(vals[0], dtype=float)
    if rform == "pyfloat":
        return float(vals[0])
    if rform == "pyint":
        return int(vals[0])
    if rform == "npfloat":
        return np.float64(vals[0])
    raise tlc.MachineryError(f"unknown r form {rform}")


def _mk_alpha(aform, q):
    from fractions import Fraction
    fr = Fraction(int(q[0]), int(q[1]))
    mk = {"pyfloat": lambda: float(fr), "pyint": lambda: int(fr), "np.float64": lambda: np.float64(float(fr)),
          "np.int64": lambda: np.int64(int(fr)), "np.int32": lambda: np.int32(int(fr)), "np.float32": lambda: np.float32(float(fr)),
          "0d-f8": lambda: np.array(float(fr)), "0d-i8": lambda: np.array(int(fr)),
          "np.int16": lambda: np.int16(int(fr)), "np.uint16": lambda: np.uint16(int(fr)),
          "np.int8": lambda: np.int8(int(fr)), "np.uint8": lambda: np.uint8(int(fr))}
    if aform not in mk:
        raise tlc.MachineryError(f"unknown alpha form {aform}")
    obj = mk[aform]()
    val = float(obj)
    if aform != "pyfloat" and aform != "np.float64" and aform != "0d-f8" and Fraction(val) != fr:
        raise tlc.MachineryError(f"alpha {q} is not exactly representable as {aform}")
    return obj, val


def _snapshot(x):
    if isinstance(x, np.ndarray):
        return ("nd", x.dtype.str, x.shape, x.copy())
    if isinstance(x, (list, tuple)):
        return ("seq", type(x), tuple(x))
    return ("scalar", type(x), x)


def _same_as(x, snap):
    if snap[0] == "nd":
        return isinstance(x, np.ndarray) and x.dtype.str == snap[1] and x.shape == snap[2] and np.array_equal(x, snap[3], equal_nan=True)
    if snap[0] == "seq":
        return type(x) is snap[1] and tuple(x) == snap[2]
    return type(x) is snap[1] and (x == snap[2] or (x != x and snap[2] != snap[2]))


def _shares(out, *objs):
    for o in objs:
        if isinstance(o, np.ndarray) and isinstance(out, np.ndarray) and (out is o or np.shares_memory(out, o)):
            return True
    return False


def _draw_forms(forms, tier, rng):
    """thorough: every request of CoulombForms!ACases.  quick: a VERIF_SEED-drawn stratified part -
    every (kind, r form, composition) with a drawn (alpha form, flag form) and every
    (kind, alpha form, flag form) with a drawn (r form, composition), plus more at random."""
    kinds, rt, at, nt = forms["kinds"], forms["rtable"], forms["atable"], forms["ntable"]
    if tier != "quick":
        return [(k, r, a, n) for k in kinds for r in rt for a in at for n in nt]
    seen, out = set(), []

    def add(k, r, a, n):
        key = (k, r["rform"], r["comp"], a["aform"], n["nform"])
        if key not in seen:
            seen.add(key)
            out.append((k, r, a, n))
    for k in kinds:
        for r in rt:
            add(k, r, rng.choice(at), rng.choice(nt))
        for a in at:
            for n in nt:
                add(k, rng.choice(rt), a, n)
    target = len(out) + 900
    while len(out) < target:
        add(rng.choice(kinds), rng.choice(rt), rng.choice(at), rng.choice(nt))
    return out


def check_forms(rep, orc, tier, rng, forms, stats):
    """Part A: realise the single-centre requests; returns the observation records for the judge."""
    import grid.coulomb as gc
    farx = orc.farx()
    tolexp = forms["tolexp"]
    obs = []
    used = {}                                     # alpha form -> next pool index (every member gets used)
    for ci, (kind, rrec, arec, nrec) in enumerate(_draw_forms(forms, tier, rng)):
        fn = getattr(gc, f"coulomb_gaussian_{kind}")
        aform, nform, rform, comp = arec["aform"], nrec["nform"], rrec["rform"], rrec["comp"]
        j = used.get(aform, rng.randrange(100))
        used[aform] = j + 1
        q = arec["pool"][j % len(arec["pool"])]
        aobj, aval = _mk_alpha(aform, q)
        vals = []
        for si, cls in enumerate(rrec["slots"]):
            pool = _class_pool(cls, rrec["dom"], aval, farx)
            vals.append(pool[(ci + 3 * si + rep.seed) % len(pool)])
        robj = _mk_r(rform, vals)
        rsnap, asnap = _snapshot(robj), _snapshot(aobj)
        if nform == "omitted":
            args, kw = (robj, aobj), {}
        elif nform.startswith("pos-"):
            args, kw = (robj, aobj, nform == "pos-true"), {}
        elif nform.startswith("kw-"):
            args, kw = (robj, aobj), {"normalized": nform == "kw-true"}
        else:
            args, kw = (robj, aobj), {"normalized": np.True_ if nform == "np-true" else np.False_}
        o = {"kind": kind, "rform": rform, "comp": comp, "aform": aform, "nform": nform, "alpha": [int(q[0]), int(q[1])],
             "tol": arec["tol"], "fac": nrec["fac"], "status": "ok", "shape": [], "dtype": "", "ncmp": 0, "nbad": 0, "nknown": 0,
             "unchanged": True, "repeat": True, "fresh": True}
        detail = {"radii": vals, "alpha_value": aval}
        try:
            with np.errstate(all="ignore"):
                out = fn(*args, **kw)
                out2 = fn(*args, **kw)
        except Exception as e:  # noqa: BLE001
            o["status"] = type(e).__name__
            detail["error"] = str(e)[:200]
            obs.append((o, detail))
            rep.evaluated(1, ("form", kind, rform, comp, aform, nform))
            continue
        try:
            o["unchanged"] = bool(_same_as(robj, rsnap) and _same_as(aobj, asnap))
            o["fresh"] = not _shares(out, robj, aobj)
            if not isinstance(out, np.ndarray):
                o["dtype"] = type(out).__name__
                out = np.asarray(out)
            else:
                o["dtype"] = out.dtype.name
            o["shape"] = [int(x) for x in out.shape]
            o["repeat"] = bool(isinstance(out2, np.ndarray) and out2.shape == out.shape and np.array_equal(out, out2, equal_nan=True))
            flat = np.asarray(out, dtype=float).ravel().tolist()
            rtol = 10.0 ** tolexp[arec["tol"]]
            nfac = mp.mpf(1) if nrec["fac"] == "one" else orc.norm(kind, aval)
            if len(flat) == len(vals):
                for r, ov in zip(vals, flat):
                    e = orc.vc(kind, r, aval) * nfac
                    o["ncmp"] += 1
                    ef = float(e)
                    if abs(ef) < TINY:
                        ok = bool(0.0 <= ov <= 2 * TINY)
                        rel = abs(ov - ef)
                    else:
                        ok, rel = _close(ov, e, None, rtol)
                    if ok:
                        if kind == "s" and arec["tol"] == "exact" and arec["dom"] != "smallint":
                            stats["forms_s"] = max(stats["forms_s"], rel)
                        if arec["tol"] == "single" and kind == "s":      # (p: the deviation from the spec is the recorded finding)
                            stats["forms_single"] = max(stats["forms_single"], rel)
                        continue
                    if kind == "p":
                        ec = orc.vc("p", r, aval, "code") * nfac
                        okc, relc = _close(ov, ec, None, rtol)
                        if okc:
                            o["nknown"] += 1
                            kk = "known_origin" if r < THRESH else "known_tail"
                            detail[kk] = detail.get(kk, 0) + 1
                            if arec["tol"] == "single":
                                stats["forms_single"] = max(stats["forms_single"], relc)
                            continue
                    o["nbad"] += 1
                    detail.setdefault("first_bad", {"r": r, "observed": ov, "spec": ef, "rel_err": rel})
        except Exception as e:  # noqa: BLE001
            o["status"] = "postprocessing:" + type(e).__name__
            detail["error"] = str(e)[:200]
        obs.append((o, detail))
        rep.evaluated(1, ("form", kind, rform, comp, aform, nform))
    return obs


# ---- Part B --------------------------------------------------------------------------------------

def _draw_sys(bt, tier, rng):
    dims = ["sset", "pset", "layout", "npts", "dform", "nform", "style"]
    n = 48 if tier == "quick" else 1000
    cases = []
    off = {d: rng.randrange(len(bt[d])) for d in dims}
    for i in range(max(len(bt[d]) for d in dims)):           # every value of every dimension
        cases.append({d: bt[d][(i + off[d]) % len(bt[d])] for d in dims})
    while len(cases) < n:
        cases.append({d: rng.choice(bt[d]) for d in dims})
    if tier != "quick":                                       # every pair of values of two dimensions
        have = {(d1, c[d1], d2, c[d2]) for c in cases for d1 in dims for d2 in dims if d1 < d2}
        for d1 in dims:
            for d2 in dims:
                if d1 < d2:
                    for v1 in bt[d1]:
                        for v2 in bt[d2]:
                            if (d1, v1, d2, v2) not in have:
                                c = {d: rng.choice(bt[d]) for d in dims}
                                c[d1], c[d2] = v1, v2
                                cases.append(c)
                                have |= {(a, c[a], b, c[b]) for a in dims for b in dims if a < b}
    return cases


def _as_form(x, dform, what):
    """Give the float64 array ``x`` (values already representable) the requested form."""
    if dform == "f8":
        return np.array(x, dtype=float)
    if dform == "lists":
        return x.tolist() if x.size else np.array(x, dtype=float)     # [] cannot say (0, 3)
    if dform == "ints":
        return x.astype(np.int64) if what != "fitted" else np.array(x, dtype=float)
    if dform == "f4":
        return x.astype(np.float32)
    if dform == "fortran":
        return np.asfortranarray(x)
    if dform == "strided":
        big = np.full((2 * x.shape[0] + 1,) + x.shape[1:], 1e3)
        big[1::2] = x
        return big[1::2]
    if dform == "readonly":
        y = np.array(x, dtype=float)
        y.setflags(write=False)
        return y
    raise tlc.MachineryError(f"unknown array form {dform}")


def _round_form(x, dform, integer_ok=True):
    """Round values so that the form holds them exactly."""
    if dform == "ints" and integer_ok:
        return np.round(x)
    if dform == "f4":
        return x.astype(np.float32).astype(float)
    return x


def check_systems(rep, orc, tier, rng, forms, table, stats):
    """Part B: realise requests to coulomb_potential; returns observation records."""
    import grid.coulomb as gc
    bt = forms["sys"]
    truth = dict(zip(bt["nform"], bt["truth"]))
    kfix = bt["kfixed"]
    judged_max = int(bt["judged"])
    keys = list(table)
    nrng = np.random.default_rng(rep.seed + 1717)
    ekey = [rng.randrange(len(keys))]

    def next_elem():
        ekey[0] += 1
        return keys[ekey[0] % len(keys)]

    cases = _draw_sys(bt, tier, rng)
    slots = sum({"element": 1, "molecule": 3}.get(c["sset"], 0) for c in cases)
    while slots < len(keys) + 1:                    # every shipped set goes through the routine
        c = {d: rng.choice(bt[d]) for d in ("pset", "layout", "npts", "dform", "nform", "style")}
        c["sset"] = "element"
        cases.append(c)
        slots += 1
    obs = []
    for ci, c in enumerate(cases):
        dform, layout = c["dform"], c["layout"]
        fitted = c["sset"] in ("element", "molecule")
        elems = []

        def centres(k):
            x = nrng.uniform(-2, 2, size=(k, 3)).round(3)
            return _round_form(x * (2 if dform == "ints" else 1), dform)

        def coefs(k):
            return _round_form(nrng.uniform(-3, 3, size=k).round(4), dform)

        def alphas(k):
            a = 10 ** nrng.uniform(-2, 5 if ci % 2 else 3, size=k)
            if dform == "ints":
                a = np.ceil(10 ** nrng.uniform(0, 3, size=k))
            return _round_form(a, dform)
        # ---- s functions
        if fitted:
            parts_c, parts_a, parts_x = [], [], []
            for ie in range(1 if c["sset"] == "element" else 3):
                el = next_elem()
                elems.append(el)
                arg = el if (ci + ie) % 2 else int([z for z in range(1, 119) if _symbols()[z - 1] == el][0])
                try:
                    co, al = gc.load_atomic_gaussian_params(arg)
                    co, al = np.array(co, dtype=float), np.array(al, dtype=float)
                except Exception:  # noqa: BLE001 - reported by the lookup part; use the file here
                    co, al = np.array(table[el]["coeffs_s"], dtype=float), np.array(table[el]["alphas_s"], dtype=float)
                ctr = centres(1)
                parts_c.append(co)
                parts_a.append(al)
                parts_x.append(np.repeat(ctr, len(co), axis=0))
            co_s, al_s, cs = np.concatenate(parts_c), np.concatenate(parts_a), np.concatenate(parts_x)
            if dform == "f4":
                co_s, al_s = _round_form(co_s, dform), _round_form(al_s, dform)
        else:
            ks = 0 if c["sset"] == "none" else int(kfix[c["sset"]])
            cs, co_s, al_s = centres(ks), coefs(ks), alphas(ks)
        ks = len(co_s)
        # ---- p functions
        present = c["pset"] not in ("omitted", "nones")
        kp = 0
        cp = co_p = al_p = None
        if present:
            kp = ks if layout == "p-alias-s" else (0 if c["pset"] == "empty" else int(kfix[c["pset"]]))
            cp, co_p, al_p = centres(kp), coefs(kp), alphas(kp)
        # ---- layout
        if layout == "p-on-s" and present and ks and kp:
            cp = np.array([cs[i % ks] for i in range(kp)])
        if layout == "one-centre":
            c0 = cs[0] if ks else (cp[0] if kp else np.zeros(3))
            cs = np.repeat(c0[None, :], ks, axis=0)
            if present:
                cp = np.repeat(c0[None, :], kp, axis=0)
        if layout == "coef-alias-alpha":
            co_s = al_s.copy()
        # ---- points
        allc = np.concatenate([cs] + ([cp] if present else [])) if (ks + kp) else np.zeros((0, 3))
        n = int(c["npts"])
        pts = _round_form(nrng.uniform(-3, 3, size=(n, 3)).round(3) * (2 if dform == "ints" else 1), dform)
        far = "none"
        far_r = 1e6
        if layout != "points-are-centres":
            if n >= 1 and len(allc):
                pts[0] = allc[0]                                  # on a centre: the r = 0 branch
            if n >= 4 and len(allc) and dform not in ("ints", "f4"):
                pts[1] = allc[-1] + [3e-13, 0, 0]                 # just below / above the switch
                pts[2] = allc[0] + [0, 2e-12, 0]
            if n >= 2:
                d = np.zeros(3)
                d[ci % 3] = far_r if ci % 2 else -far_r
                pts[-1] = d
                far = "todo"
        else:
            pts = cs
            n = ks
        # ---- the objects handed over
        A = {"points": _as_form(pts, dform, "coords"), "centers_s": _as_form(cs, dform, "coords"),
             "coeffs_s": _as_form(co_s, dform, "fitted" if fitted else "coef"),
             "alphas_s": _as_form(al_s, dform, "fitted" if fitted else "alpha")}
        if layout == "points-are-centres":
            A["points"] = A["centers_s"]
        if layout == "coef-alias-alpha":
            A["coeffs_s"] = A["alphas_s"]
        if present:
            A["centers_p"] = _as_form(cp, dform, "coords")
            A["coeffs_p"] = _as_form(co_p, dform, "coef")
            A["alphas_p"] = _as_form(al_p, dform, "alpha")
            if layout == "p-alias-s":
                cp = cs
                A["centers_p"] = A["centers_s"]
        names = ["points", "centers_s", "coeffs_s", "alphas_s", "centers_p", "coeffs_p", "alphas_p"]
        flag = {"omitted": None, "true": True, "false": False, "np-true": np.True_, "np-false": np.False_}[c["nform"]]
        normalized = bool(truth[c["nform"]])
        if c["style"] == "keyword":
            args = ()
            kw = {k: A[k] for k in names if k in A}
            if c["pset"] == "nones":
                kw.update(centers_p=None, coeffs_p=None, alphas_p=None)
            if c["nform"] != "omitted":
                kw["normalized"] = flag
        else:
            args = [A[k] for k in names[:4]]
            kw = {}
            if present:
                args += [A[k] for k in names[4:]]
            elif c["pset"] == "nones" or c["nform"] != "omitted":
                args += [None, None, None]
            if c["nform"] != "omitted":
                args.append(flag)
            args = tuple(args)
        snaps = {k: _snapshot(v) for k, v in A.items()}
        o = dict(c)
        o.update(elems=elems, ks=int(ks), kp=int(kp), truth=normalized, status="ok", shape=[], dtype="", njudged=0, nbadspec=0,
                 nlaw=0, nbadlaw=0, nknown=0, far="none", unchanged=True, repeat=True, fresh=True)
        o["npts"] = int(c["npts"])
        detail = {"case": {k: (v.tolist() if isinstance(v, np.ndarray) and v.size <= 60 else (v if not isinstance(v, np.ndarray) else f"array{v.shape}"))
                           for k, v in A.items()}}
        rep.evaluated(1, ("system", ci, tuple(sorted((k, str(v)) for k, v in c.items()))))
        try:
            with np.errstate(all="ignore"):
                out = gc.coulomb_potential(*args, **kw)
                out2 = gc.coulomb_potential(*args, **kw)
        except Exception as e:  # noqa: BLE001
            o["status"] = type(e).__name__
            detail["error"] = str(e)[:300]
            obs.append((o, detail))
            continue
        try:
            o["unchanged"] = bool(all(_same_as(A[k], snaps[k]) for k in A))
            o["fresh"] = not _shares(out, *A.values())
            o["dtype"] = out.dtype.name if isinstance(out, np.ndarray) else type(out).__name__
            out = np.asarray(out)
            o["shape"] = [int(x) for x in out.shape]
            o["repeat"] = bool(isinstance(out2, np.ndarray) and out2.shape == out.shape and np.array_equal(out, out2, equal_nan=True))
            if out.shape == (n,):
                outf = np.asarray(out, dtype=float)
                fsets = [("s", cs, co_s, al_s)] + ([("p", cp, co_p, al_p)] if present else [])
                # (b) the law: sum of the library's own single-centre functions, every point
                lib = np.zeros(n)
                libmag = np.zeros(n)
                with np.errstate(all="ignore"):
                    for kind, cen, co, al in fsets:
                        f = gc.coulomb_gaussian_s if kind == "s" else gc.coulomb_gaussian_p
                        for cc, a, ctr in zip(co, al, cen):
                            t = float(cc) * np.asarray(f(np.linalg.norm(np.asarray(pts, dtype=float) - ctr, axis=-1), float(a), normalized=normalized), dtype=float)
                            lib += t
                            libmag += np.abs(t)
                o["nlaw"] = int(n)
                badlaw = ~(np.abs(outf - lib) <= RTOL * libmag + 5e-324)
                o["nbadlaw"] = int(np.sum(badlaw))
                if o["nbadlaw"]:
                    i0 = int(np.argmax(badlaw))
                    detail["first_bad_law"] = {"point": np.asarray(pts, dtype=float)[i0].tolist(), "observed": float(outf[i0]), "sum": float(lib[i0])}
                elif n:
                    with np.errstate(all="ignore"):
                        stats["sys_law"] = max(stats["sys_law"], float(np.max(np.where(libmag > 0, np.abs(outf - lib) / np.where(libmag > 0, libmag, 1), 0))))
                # (a) the specification's superposition, first JudgedMax points
                for ip in range(min(n, judged_max)):
                    p = np.asarray(pts, dtype=float)[ip]
                    tot = totc = mag = magc = mp.mpf(0)
                    for kind, cen, co, al in fsets:
                        for cc, a, ctr in zip(co, al, cen):
                            dd = float(orc.dist(p, ctr))
                            nf = mp.mpf(1) if normalized else orc.norm(kind, float(a))
                            v = orc.vc(kind, dd, float(a))
                            vcode = orc.vc(kind, dd, float(a), "code") if kind == "p" else v
                            tot += mp.mpf(float(cc)) * v * nf
                            totc += mp.mpf(float(cc)) * vcode * nf
                            mag += abs(mp.mpf(float(cc)) * v * nf)
                            magc += abs(mp.mpf(float(cc)) * vcode * nf)
                    ov = float(outf[ip])
                    o["njudged"] += 1
                    if abs(ov - float(tot)) <= RTOL * float(mag) + 5e-324:
                        if not kp:
                            stats["sys_spec"] = max(stats["sys_spec"], abs(ov - float(tot)) / float(mag) if mag else 0.0)
                        continue
                    if kp and abs(ov - float(totc)) <= RTOL * float(magc) + 5e-324:
                        o["nknown"] += 1
                        continue
                    o["nbadspec"] += 1
                    detail.setdefault("first_bad_spec", {"point": p.tolist(), "observed": ov, "spec": float(tot)})
                # (c) far field: r V = sum_k c_k N_k up to the dipole term
                if far == "todo":
                    qtot = mp.mpf(0)
                    qmag = mp.mpf(0)
                    dmax = 0.0
                    for kind, cen, co, al in fsets:
                        for cc, a, ctr in zip(co, al, cen):
                            nf = mp.mpf(1) if normalized else orc.norm(kind, float(a))
                            qtot += mp.mpf(float(cc)) * nf
                            qmag += abs(mp.mpf(float(cc)) * nf)
                            dmax = max(dmax, float(np.linalg.norm(ctr)))
                    rv = float(outf[-1]) * far_r
                    # |1/|R - c| - 1/R| <= d / (R (R - d)) is attained for a centre on the axis: twice the bound, plus rounding
                    tolf = float(qmag) * (2 * dmax / (far_r - dmax) + 1e-12)
                    o["far"] = "ok" if abs(rv - float(qtot)) <= tolf else "bad"
                    if o["far"] == "bad":
                        detail["far"] = {"r_times_V": rv, "total_charge": float(qtot), "tolerance": tolf}
                    elif qmag:
                        stats["sys_far_used"] = max(stats["sys_far_used"], abs(rv - float(qtot)) / tolf if tolf else 0.0)
        except Exception as e:  # noqa: BLE001
            o["status"] = "postprocessing:" + type(e).__name__
            detail["error"] = str(e)[:300]
        obs.append((o, detail))
    return obs


def judge_forms(rep, wd, tier, aobs, bobs, lattice):
    """Second TLC run: CoulombFormsJudge decides every observation and the completeness of the set."""
    with open(wd / "coulomb_forms_obs.json", "w") as f:
        json.dump({"single": [o for o, _ in aobs], "sys": [o for o, _ in bobs], "lattice": lattice}, f)
    res = tlc.run_tlc("CoulombFormsJudge", f"MC_CoulombForms_{'quick' if tier == 'quick' else 'thorough'}.cfg", wd,
                      workers=2, timeout=1200).require_ok("MC_CoulombForms")
    rep.tlc(res, "MC_CoulombForms")
    am = tlcx.tagged(res.stdout, "AMISMATCH")
    bm = tlcx.tagged(res.stdout, "BMISMATCH")
    if len(am) != res.stdout.count('"AMISMATCH"') or len(bm) != res.stdout.count('"BMISMATCH"'):
        raise tlc.MachineryError("could not parse every MISMATCH line of CoulombFormsJudge")
    for _, ix, field in am:
        o, d = aobs[int(ix) - 1]
        key = (f"coulomb_gaussian_{o['kind']}:form:{field}:alpha={o['aform']}:r={o['rform']}:comp={o['comp']}:normalized={o['nform']}")
        rep.violation(key, f"coulomb_gaussian_{o['kind']}(r as {o['rform']} [{o['comp']}: {d.get('radii')}], alpha = {o['alpha'][0]}/{o['alpha'][1]} as "
                           f"{o['aform']}, normalized {o['nform']}): CoulombForms expects a fresh float64 array of the shape of r holding the "
                           f"potential at every radius (tolerance class {o['tol']}), arguments untouched; failed clause: {field}; "
                           f"observed {o}; {d.get('first_bad') or d.get('error') or ''}", {**o, **d})
    for _, ix, field in bm:
        o, d = bobs[int(ix) - 1]
        coords = "/".join(str(o[k]) for k in ("sset", "pset", "layout", "npts", "dform", "nform", "style"))
        rep.violation(f"coulomb_potential:config:{field}:{coords}",
                      f"coulomb_potential request (s set / p set / layout / points / array form / flag / style) = {coords}, Ks = {o['ks']}, "
                      f"Kp = {o['kp']}, elements {o['elems']}: failed clause: {field}; observed "
                      f"{ {k: v for k, v in o.items() if k in ('status', 'shape', 'dtype', 'njudged', 'nbadspec', 'nlaw', 'nbadlaw', 'far', 'unchanged', 'repeat', 'fresh')} }; "
                      f"{d.get('first_bad_law') or d.get('first_bad_spec') or d.get('far') or d.get('error') or ''}", {**o, **d})
    if res.status == "violation":
        for inv in res.violated:
            rep.violation(f"forms:{inv}", f"CoulombFormsJudge: {inv} violated - the set of realised requests is incomplete or malformed "
                                          f"(last state {tlc.last_state(res)})", {"invariant": inv})
    return res


# ---------------------------------------------------------------------------------------------

def run(tier: str) -> int:
    rep = Report(PROP, tier, "model_checking")
    rng = random.Random(rep.seed)
    wd = tlc.scratch(f"{PROP}-{tier}")

    symbols = list(_symbols())     # periodic table of the specification (needed to generate the lookups)

    keys, lens, obs = record_param_observations(rep, rng, tier, symbols)
    with open(wd / "obs_params.json", "w") as f:
        json.dump(obs, f)
    trees, res = coulomb_model(wd, keys, lens, "obs_params.json")
    rep.tlc(res, "MC_Coulomb")
    if res.status == "violation":
        st = tlc.last_state(res)
        rep.violation(f"model:{','.join(res.violated)}:{st.get('ck')}:{st.get('ca')}",
                      f"TLC: invariant(s) {res.violated} of Coulomb.tla violated; last state {st}", st)
    mism = tlcx.tagged(res.stdout, "MISMATCH")
    if len(mism) != res.stdout.count('"MISMATCH"'):
        raise tlc.MachineryError("could not parse every MISMATCH line of TLC")
    cold = tlcx.tagged(res.stdout, "COLDMISMATCH")
    if len(cold) != res.stdout.count('"COLDMISMATCH"'):
        raise tlc.MachineryError("could not parse every COLDMISMATCH line of TLC")
    for _, i, o, canon in cold:
        arg = "z=%s" % o.get("z") if o.get("route") == "number" else "variant-of=%r" % o.get("canon")
        rep.violation(f"load_atomic_gaussian_params:first-use:{o.get('route')}:{arg}",
                      f"load_atomic_gaussian_params lookup #{i} ({o.get('route')}, {arg}; element {canon or 'none'}) repeated with the lazily "
                      f"loaded table forgotten: cold={o.get('cold')} (1 = same outcome as with the table in memory), coldnext={o.get('coldnext')} "
                      f"(1 = the next lookup of a fitted element returned the shipped arrays)", o)
    for t in mism:
        _, i, o, canon = t
        arg = "z=%s" % o.get("z") if o.get("route") == "number" else "variant-of=%r" % o.get("canon")
        rep.violation(f"load_atomic_gaussian_params:{o.get('route')}:{arg}",
                      f"load_atomic_gaussian_params lookup #{i} ({o.get('route')}, {arg}; element {canon or 'none'}): "
                      f"observed {o}; the specification expects the arrays of the JSON entry of that element "
                      f"(equal lengths, finite positive exponents, stable under repetition) or ValueError if there is none", o)
    # the documented p-type formula must be refuted by TLC itself (counterexample run)
    res2 = tlc.run_tlc("Coulomb", "MC_Coulomb_Code.cfg", wd, workers=1, timeout=300).require_ok("MC_Coulomb_Code")
    rep.tlc(res2, "MC_Coulomb_Code(expected counterexample)")
    st2 = tlc.last_state(res2) if res2.status == "violation" else {}
    rep.set("tlc_refutes_documented_p_formula", bool(res2.status == "violation" and st2.get("ck") == "p"))
    if res2.status == "violation" and st2.get("ck") != "p":
        rep.violation("model:CodeSatisfiesPoisson:s", f"TLC refutes the documented s-type formula: {st2}", st2)

    orc = Oracle(trees)
    worst, code_off = validate_oracle(orc, rng, 6 if tier == "quick" else 30)
    rep.set("oracle_vs_quadrature_worst_rel", worst)
    rep.set("documented_p_formula_vs_quadrature_rel", code_off)
    if not worst < 1e-25:
        raise tlc.MachineryError(f"spec trees disagree with multiprecision quadrature of the Coulomb integral: {worst}")

    stats = {"s": 0.0, "p_code": 0.0, "p_defect": 0.0, "pot": 0.0, "superpos": 0.0, "factor": 0.0, "far": 0.0,
             "forms_s": 0.0, "forms_single": 0.0, "sys_law": 0.0, "sys_spec": 0.0, "sys_far_used": 0.0}
    # requests of the statement (CoulombForms): tables from TLC, realised here, judged by TLC
    forms, resg = forms_tables(wd)
    rep.tlc(resg, "Gen_CoulombForms")
    with open(JSON_PARAMS) as f:
        table = json.load(f)
    lobs = {}
    check_single_centre(rep, orc, tier, rng, stats, forms["lattice"], table, lobs)
    check_superposition(rep, orc, tier, rng, stats)
    frng = random.Random(rep.seed * 7919 + 17)
    aobs = check_forms(rep, orc, tier, frng, forms, stats)
    bobs = check_systems(rep, orc, tier, frng, forms, table, stats)
    for o, d in aobs:        # p-type answers that equal the documented formula: the recorded finding, under its own keys
        t = o["fac"] == "one"
        for kk, key in (("known_tail", f"coulomb_gaussian_p:gaussian-tail(+4/3 instead of -2/3):normalized={t}"),
                        ("known_origin", f"coulomb_gaussian_p:origin-limit(10/3 instead of 4/3):normalized={t}")):
            if d.get(kk):
                rep.violation(key, f"coulomb_gaussian_p request {o['rform']}/{o['comp']}/{o['aform']}/{o['nform']}: {d[kk]} element(s) equal the "
                                   "documented p-type formula, which is not the potential of the documented density", {**o, **d})
    for o, d in bobs:
        if o["nknown"]:
            rep.violation(f"coulomb_potential:p-terms-inherit-coulomb_gaussian_p:normalized={o['truth']}",
                          f"coulomb_potential request {o['sset']}/{o['pset']}/{o['layout']}: {o['nknown']} judged point(s) equal the superposition "
                          "built from the documented (refuted) p-type formula", {**o, **d})
    judge_forms(rep, wd, tier, aobs, bobs, lobs)
    rep.set("call_form_requests", len(aobs))
    rep.set("configuration_requests", len(bobs))
    rep.sample({"call_form": aobs[0][0]})
    rep.sample({"configuration": bobs[0][0]})
    rep.set("max_rel_dev_sound", stats)
    rep.set("rtol", RTOL)
    rep.set("traces_validated_against_impl", rep.evaluations)
    rep.set("exhaustive", False)
    rep.set("rule", "one case = one (function, normalized, alpha, r) value or one (centre set, point) value compared with the "
                    "TLC-verified tree, or one load_atomic_gaussian_params lookup judged by TLC; distinct = distinct inputs")
    rep.sample({"load_atomic_gaussian_params": obs[0]})
    rep.assume("vf/expr_eval.py (generic tree evaluator, mpmath 50 digits) and mpmath.quad are trusted")
    rep.assume("identities in alpha are checked for 8 rational exponents; every coefficient is a polynomial of degree <= 4 in alpha and 1/alpha")
    return rep.finish()


def replay(path: str) -> int:
    with open(path) as f:
        v = json.load(f)
    c = v.get("case") or {}
    if "function" in c and "spec" in c and "normalized" in c:
        import grid.coulomb as gc
        out = getattr(gc, c["function"])(np.array([c["r"]]), c["alpha"], c["normalized"])
        print("replay:", c["function"], c["alpha"], c["r"], c["normalized"], "->", float(out[0]), "spec", c["spec"])
        return 0 if abs(float(out[0]) - c["spec"]) <= 1e-11 * abs(c["spec"]) else 1
    return run(v.get("tier", "quick"))


def selftest(tier: str = "quick") -> int:
    """In-process mutants of grid.coulomb (the file in /repo is never touched)."""
    from ..mutants import run_mutants, src
    M = "grid.coulomb"
    import grid.coulomb as _gc
    _text = Path(_gc.__file__).read_text()
    _guard = ('    if alpha <= 0:\n        raise ValueError(f"Gaussian exponent alpha must be strictly positive; got {alpha}")\n')
    _span = _text[_text.index(_guard):_text.rindex(_guard) + len(_guard)]      # from the guard of the s function to that of the p function
    mutants = [
        ("s-origin-constant-halved", src(M, "out[r < _R_ZERO_THRESHOLD] = 2.0 * sqrt_alpha / np.sqrt(np.pi)",
                                         "out[r < _R_ZERO_THRESHOLD] = 1.0 * sqrt_alpha / np.sqrt(np.pi)")),
        ("switch-threshold-1e-4", src(M, "_R_ZERO_THRESHOLD = 1e-12", "_R_ZERO_THRESHOLD = 1e-4")),
        ("s-strict-inequality-at-threshold", src(M, "np.divide(erf(sqrt_alpha * r), r, out=out, where=r >= _R_ZERO_THRESHOLD)",
                                                 "np.divide(erf(sqrt_alpha * r), r, out=out, where=r > _R_ZERO_THRESHOLD)")),
        ("s-erf-argument-alpha", src(M, "np.divide(erf(sqrt_alpha * r), r, out=out", "np.divide(erf(alpha * r), r, out=out")),
        ("s-unnormalised-prefactor", src(M, "prefactor = (np.pi / alpha) ** 1.5", "prefactor = np.pi ** 1.5 / alpha")),
        ("p-tail-minus-4/3 (a different wrong tail)", src(M, "term2 = (4.0 / 3.0) *", "term2 = -(4.0 / 3.0) *")),
        ("p-unnormalised-prefactor", src(M, "prefactor = (3.0 / 2.0) * (np.pi ** (3.0 / 2.0)) / (alpha ** (5.0 / 2.0))",
                                         "prefactor = (3.0 / 2.0) * (np.pi ** (3.0 / 2.0)) / (alpha ** (3.0 / 2.0))")),
        ("potential-p-loop-uses-s-exponents", src(M, "for c, alpha, center in zip(coeffs_p, alphas_p, centers_p):",
                                                  "for c, alpha, center in zip(coeffs_p, alphas_s, centers_p):")),
        ("potential-overwrites-accumulator", src(M, "        V += c * coulomb_gaussian_s(r, alpha, normalized=normalized)",
                                                 "        V = c * coulomb_gaussian_s(r, alpha, normalized=normalized)")),
        ("potential-ignores-normalized-flag-for-p", src(M, "V += c * coulomb_gaussian_p(r, alpha, normalized=normalized)",
                                                        "V += c * coulomb_gaussian_p(r, alpha)")),
        ("params-case-sensitive", src(M, "json_symbol = element.strip().title()", "json_symbol = element.strip()")),
        ("params-number-off-by-one", src(M, "json_symbol = num2sym.get(atnum)", "json_symbol = num2sym.get(atnum + 1)")),
        ("params-hands-out-cached-arrays", src(M, "        data = _ATOMIC_GAUSS_PARAMS_CACHE[json_symbol]\n",
                                               "        data = _ATOMIC_GAUSS_PARAMS_CACHE[json_symbol]\n"
                                               "        if not isinstance(data['coeffs_s'], np.ndarray):\n"
                                               "            data['coeffs_s'] = np.asarray(data['coeffs_s'], dtype=float)\n"
                                               "            data['alphas_s'] = np.asarray(data['alphas_s'], dtype=float)\n")),
        ("params-swapped-return", src(M, "    return coeffs_s, alphas_s\n", "    return alphas_s, coeffs_s\n")),
        # ---- audit: requests of CoulombForms (call forms, configurations, value lattice, first use of the table)
        ("s-default-flag-false", src(M, "def coulomb_gaussian_s(r: np.ndarray, alpha: float, normalized: bool = True)",
                                     "def coulomb_gaussian_s(r: np.ndarray, alpha: float, normalized: bool = False)")),
        ("potential-default-flag-false", src(M, "    normalized: bool = True,\n", "    normalized: bool = False,\n")),
        ("p-flag-tested-by-identity", src(M, "    if normalized:\n        return out\n\n    prefactor = (3.0 / 2.0)",
                                          "    if normalized is True:\n        return out\n\n    prefactor = (3.0 / 2.0)")),
        ("s-fast-path-all-above-switch-forgets-prefactor", src(M, "    out = np.empty_like(r)\n    sqrt_alpha = np.sqrt(alpha)\n",
                                                               "    if np.all(r >= _R_ZERO_THRESHOLD):\n"
                                                               "        return erf(np.sqrt(alpha) * r) / r\n"
                                                               "    out = np.empty_like(r)\n    sqrt_alpha = np.sqrt(alpha)\n")),
        ("s-unnormalised-answer-flattened", src(M, "    prefactor = (np.pi / alpha) ** 1.5\n    return prefactor * out",
                                                "    prefactor = (np.pi / alpha) ** 1.5\n    return (prefactor * out).ravel()")),
        ("s-clamps-small-radii-in-the-callers-array", src(M, "        raise ValueError(\"Radial distances r must be non-negative\")\n\n    out = np.empty_like(r)",
                                                          "        raise ValueError(\"Radial distances r must be non-negative\")\n"
                                                          "    r[r < _R_ZERO_THRESHOLD] = 0.0\n\n    out = np.empty_like(r)")),
        ("s-large-r-flushed-to-zero", src(M, "    out[r < _R_ZERO_THRESHOLD] = 2.0 * sqrt_alpha / np.sqrt(np.pi)\n",
                                          "    out[r < _R_ZERO_THRESHOLD] = 2.0 * sqrt_alpha / np.sqrt(np.pi)\n    out[r > 1e100] = 0.0\n")),
        ("s-alpha-guard-1e-8", src(M, "    if alpha <= 0:\n", "    if alpha <= 1e-8:\n")),
        ("p-float32-alpha-sqrt-in-half-precision", src(M, "    sqrt_alpha = np.sqrt(alpha)\n    term1 = np.zeros_like(r)",
                                                       "    sqrt_alpha = np.sqrt(alpha).astype(np.float16) if isinstance(alpha, np.float32) else np.sqrt(alpha)\n"
                                                       "    term1 = np.zeros_like(r)")),
        ("potential-points-not-converted-to-float", src(M, "    points = np.asarray(points, dtype=float)\n", "    points = np.asarray(points)\n")),
        ("potential-one-function-per-centre", src(M, "    for c, alpha, center in zip(coeffs_s, alphas_s, centers_s):\n",
                                                  "    per_centre = {tuple(x): (a, b) for a, b, x in zip(coeffs_s, alphas_s, centers_s)}\n"
                                                  "    for center, (c, alpha) in ((np.array(k), v) for k, v in per_centre.items()):\n")),
        ("potential-empty-s-set-returns-early", src(M, "    V = np.zeros(points.shape[0], dtype=points.dtype)\n",
                                                    "    V = np.zeros(points.shape[0], dtype=points.dtype)\n    if coeffs_s.size == 0:\n        return V\n")),
        ("potential-first-1024-points-only", src(M, "        V += c * coulomb_gaussian_s(r, alpha, normalized=normalized)",
                                                 "        V[:1024] += (c * coulomb_gaussian_s(r, alpha, normalized=normalized))[:1024]")),
        ("potential-shifts-points-in-place", src(M, "        r = np.linalg.norm(points - center, axis=-1)\n        V += c * coulomb_gaussian_s",
                                                 "        shift = np.array(center)\n        points -= center\n        r = np.linalg.norm(points, axis=-1)\n"
                                                 "        points += shift\n        V += c * coulomb_gaussian_s")),
        ("params-numpy-int64-only", src(M, "    elif isinstance(element, (int, np.integer)):", "    elif isinstance(element, (int, np.int64)):")),
        ("params-refused-first-lookup-poisons-table", src(M, "                _ATOMIC_GAUSS_PARAMS_CACHE = json.load(f)\n",
                                                          "                _ATOMIC_GAUSS_PARAMS_CACHE = {}\n"
                                                          "                loaded = json.load(f)\n"
                                                          "                loaded[json_symbol]\n"
                                                          "                _ATOMIC_GAUSS_PARAMS_CACHE = loaded\n")),
        # anti-mutant: the proposed repair of the small-integer-exponent finding must be accepted
        ("REPAIRED-small-integer-alpha", src(M, _span, _span.replace(_guard, _guard + "    alpha = float(alpha)\n"))),
        # anti-mutant: the repaired p-type function must be ACCEPTED (no violation, no known finding needed)
        ("REPAIRED-p-function", src(M, "term2 = (4.0 / 3.0) * (sqrt_alpha / np.sqrt(np.pi)) * np.exp(-alpha * r**2)\n"
                                       "    out = term1 + term2\n"
                                       "    # r->0 limit combines the erf(sqrt(alpha) r)/r series limit and Gaussian tail.\n"
                                       "    out[r < _R_ZERO_THRESHOLD] = (10.0 / 3.0) * (sqrt_alpha / np.sqrt(np.pi))",
                                       "term2 = -(2.0 / 3.0) * (sqrt_alpha / np.sqrt(np.pi)) * np.exp(-alpha * r**2)\n"
                                       "    out = term1 + term2\n"
                                       "    out[r < _R_ZERO_THRESHOLD] = (4.0 / 3.0) * (sqrt_alpha / np.sqrt(np.pi))")),
    ]
    return run_mutants(PROP, run, tier, mutants, expect={"REPAIRED-p-function": 0, "REPAIRED-small-integer-alpha": 0})
