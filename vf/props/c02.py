"""C02 - every shipped angular grid is exact to its advertised degree (exploration level).

Flow (DESIGN.md section 5, C02):
 1. the four degree tables and the data-directory listings are extracted from /repo
    (vf/extract.py) into Tables_angular.tla; TLC checks the catalogue laws of
    spec/AngularCatalogue.tla and EMITS the catalogue (one entry per constructible grid:
    method, degree, size, file name, number of harmonic obligations (degree+1)^2, whether the
    quick tier must discharge it) and the expected values sqrt(4 pi)[l = 0] as Expr trees;
 2. vf/ylm.py is calibrated against the definition trees of spec/Harmonics.tla (fresh TLC run);
 3. the harness builds AngularGrid(degree=d, method=m) for every selected entry of TLC's
    catalogue and discharges all its obligations: number of points / weights, reported degree
    and size, unit norm of every point, and SUM_i w_i Y_lm(p_i) for ALL (l, m), l <= d
    (ylm.sphere_moments; big grids are split over processes);
 4. a second TLC run judges the accounting on the returned records: every grid the tier
    requires was discharged, with exactly (d+1)^2 harmonic obligations, none failed, integer
    observables as advertised (MISMATCH lines -> violations keyed by file name).

thorough = all 450 grids, all (l, m): complete enumeration (7.36e6 harmonic obligations).
quick    = all Lebedev and Ahrens-Beylkin grids, every 8th spherical-design / max-det grid and a
           VERIF_SEED-chosen 10 % of the rest.

Tolerances and calibration (pinned tree, all 450 grids, thorough tier):
  harmonic integrals, absolute: TOL = 1e-8.  Sound files, max over all (l, m): lebedev <= 1.3e-12,
  spherical <= 2.5e-14, maxdet <= 3.3e-12, ahrens_beylkin <= 2.6e-12 (54 files); defective files
  ahrens_beylkin_39_552 2.6e-1 and ahrens_beylkin_127_5472 5.4e-5 (known findings).  The threshold
  is 3.5 orders of magnitude above the largest sound and 3.7 below the smallest defective value
  (DESIGN.md proposed 1e-9, which leaves only 2.5 orders on the sound side).
  unit norm: | |p| - 1 | <= 1e-12; measured <= 6.7e-16 on all files.
"""
from __future__ import annotations

import json
import math
import multiprocessing as mp_
import random
import warnings

import numpy as np

from .. import extract, tlc, ylm
from ..evidence import Report
from ..expr_eval import evaluate

PROP = "C02"
TOL = 1e-8
UNIT_TOL = 1e-12
SPLIT = 6000       # grids with more points are split into slices of this many points


def _records_module(wd, tier, extra, rec_file):
    lines = ["---- MODULE Records_angular ----", "EXTENDS Integers, Sequences, Json",
             f'Tier == "{tier}"',
             "Extra == " + tlc.tla(set(tuple(x) for x in extra)) if extra else "Extra == {}"]
    if rec_file:
        lines.append(f'Rec == JsonDeserialize("{rec_file}")')
    else:
        lines.append("Rec == [lebedev |-> <<>>, spherical |-> <<>>, maxdet |-> <<>>, ahrens_beylkin |-> <<>>]")
    lines.append("====")
    (wd / "Records_angular.tla").write_text("\n".join(lines) + "\n")


def _grid(method, degree):
    from grid.angular import AngularGrid
    with warnings.catch_warnings():
        warnings.simplefilter("ignore")
        return AngularGrid(degree=int(degree), method=method)


def _job(job):
    """One slice of one grid: partial moments and the integer observables."""
    method, degree, i0, i1 = job
    try:
        g = _grid(method, degree)
        pts = np.asarray(g.points, dtype=float)
        wts = np.asarray(g.weights, dtype=float)
        out = {"method": method, "degree": degree, "i0": i0,
               "deg_attr": int(g.degree), "size_attr": int(g.size),
               "npoints": int(pts.shape[0]), "nweights": int(wts.shape[0]), "shape_ok": pts.ndim == 2 and pts.shape[1:] == (3,)}
        if not out["shape_ok"] or wts.shape[0] != pts.shape[0]:
            out["error"] = f"points shape {pts.shape}, weights shape {wts.shape}"
            return out
        sl = slice(i0, i1)
        nrm = np.linalg.norm(pts[sl], axis=1)
        dev = np.abs(nrm - 1.0)
        dev = np.where(np.isfinite(dev), dev, np.inf)
        out["unit_bad"] = int((dev > UNIT_TOL).sum())
        out["unit_worst"] = float(dev.max()) if dev.size else 0.0
        lmax = int(degree)   # the ADVERTISED degree of the catalogue entry
        with np.errstate(all="ignore"):
            out["moments"] = ylm.sphere_moments(lmax, pts[sl], wts[sl])
        return out
    except Exception as e:  # construction failure of a catalogued grid is a violation
        return {"method": method, "degree": degree, "i0": i0, "error": f"{type(e).__name__}: {e}"}


def _lm(r):
    l = int(math.isqrt(r))
    k = r - l * l
    return (l, 0) if k == 0 else (l, (k + 1) // 2) if k % 2 else (l, -(k // 2))


def run(tier: str) -> int:
    rep = Report(PROP, tier, "exploration")
    rng = random.Random(rep.seed)
    wd = tlc.scratch(f"{PROP}-{tier}")
    tabs = extract.angular_tables()
    extract.write_tables_angular(wd, tabs)

    # ---- 1. catalogue laws + emission ----------------------------------------------------------
    _records_module(wd, "emit", [], None)
    r0 = tlc.run_tlc("AngularCatalogue", "MC_AngularCatalogue.cfg", wd, workers=4, timeout=600).require_ok("catalogue")
    rep.tlc(r0, "AngularCatalogue(emit)")
    if r0.status == "violation":
        rep.violation(f"catalogue:{','.join(r0.violated)}",
                      f"TLC: catalogue law {r0.violated} is false on the tables / data directories of /repo; {tlc.last_state(r0)}")
    try:
        with open(wd / "catalogue.json") as f:
            cat = json.load(f)
    except OSError:
        raise tlc.MachineryError("AngularCatalogue.tla did not emit catalogue.json\n" + r0.stdout[-2000:])
    exp0 = float(evaluate(cat["expected_l0"], {}, "mp"))
    exp1 = float(evaluate(cat["expected_other"], {}, "mp"))
    entries = [e for m in cat["grids"] for e in cat["grids"][m]]
    rep.set("catalogue_size", len(entries))
    rep.set("orphan_files_not_constructible", cat["orphans"])

    # ---- 2. calibrate the evaluator against Harmonics.tla -----------------------------------------
    from . import c08
    em, rh = c08.emission(f"{PROP}-{tier}-harmonics", ltree=12, lexact=3)
    rep.tlc(rh, "MC_Harmonics(calibration)")
    try:
        cal = ylm.calibrate(em, seed=rep.seed, n_random=8, lhigh=330 if tier == "thorough" else 220)
    except ylm.CalibrationError as e:
        raise tlc.MachineryError(f"vf/ylm.py failed its calibration against Harmonics.tla: {e}")
    rep.set("ylm_calibration", cal)

    # ---- 3. selection and discharge --------------------------------------------------------------
    if tier == "thorough":
        selected = entries
        extra = []
    else:
        rest = [e for e in entries if not e["required_quick"]]
        extra_e = rng.sample(rest, max(1, len(rest) // 10))
        extra = [[e["method"], e["degree"]] for e in extra_e]
        selected = [e for e in entries if e["required_quick"]] + extra_e
    jobs = []
    for e in selected:
        n = e["size"]
        cost = e["nharmonic"] * n
        if n > SPLIT:
            k = -(-n // SPLIT)
            step = -(-n // k)
            for i0 in range(0, n, step):
                jobs.append((cost / k, (e["method"], e["degree"], i0, min(n, i0 + step))))
        else:
            jobs.append((cost, (e["method"], e["degree"], 0, n)))
    jobs.sort(key=lambda t: -t[0])
    parts = {}
    with mp_.get_context("fork").Pool(16) as pool:
        for out in pool.imap_unordered(_job, [j for _, j in jobs], chunksize=1):
            parts.setdefault((out["method"], out["degree"]), []).append(out)

    records = {m: [] for m in tabs}
    detail = {}
    for e in selected:
        key = (e["method"], e["degree"])
        ps = sorted(parts.get(key, []), key=lambda o: o["i0"])
        errs = [p["error"] for p in ps if "error" in p]
        fname = e["file"]
        if errs or not ps:
            rep.violation(fname, f"AngularGrid(degree={e['degree']}, method={e['method']!r}) could not be built/evaluated: {errs[:1]}",
                          {"method": e["method"], "degree": e["degree"]})
            continue
        mom = np.sum([p["moments"] for p in ps], axis=0)
        expected = np.full(mom.shape, exp1)
        expected[0] = exp0
        dev = np.abs(mom - expected)
        nonfinite = int((~np.isfinite(mom)).sum())
        dev = np.where(np.isfinite(dev), dev, np.inf)
        nfail = int((dev > TOL).sum())
        worst = int(np.argmax(dev))
        rec = {"degree": e["degree"], "size": e["size"], "deg_attr": ps[0]["deg_attr"], "size_attr": ps[0]["size_attr"],
               "npoints": ps[0]["npoints"], "nweights": ps[0]["nweights"],
               "unit_bad": int(sum(p["unit_bad"] for p in ps)), "nobl": int(mom.shape[0]),
               "nfail": nfail, "nonfinite": nonfinite}
        records[e["method"]].append(rec)
        detail[fname] = {"method": e["method"], "degree": e["degree"], "size": e["size"], "max_dev": float(dev.max()),
                         "worst_lm": list(_lm(worst)), "observed": float(mom[worst]), "expected": float(expected[worst]),
                         "nfail": nfail, "unit_worst": max(p["unit_worst"] for p in ps)}
        rep.evaluated(int(mom.shape[0]) + 2, (e["method"], e["degree"]))
    with open(wd / "records.json", "w") as f:
        json.dump(records, f)

    # "for every method": the constructor folds the case of the method name; a spelling it accepts names the same
    # catalogue entry, so it must hand out the very grid judged above (same points, same weights)
    for m, t in tabs.items():
        degs = sorted(d for d, s in t["deg"] if s <= 600)
        for d in sorted(set(degs[:2] + degs[-1:])):
            try:
                ref = _grid(m, d)
            except Exception:
                continue   # reported above
            for spelled in (m.upper(), m.title(), m.capitalize()):
                try:
                    g = _grid(spelled, d)
                except ValueError:
                    continue   # a spelling the constructor rejects is no grid at all
                except Exception as ex:
                    rep.violation(f"{m}:spelling:{spelled}", f"AngularGrid(degree={d}, method={spelled!r}) raised {type(ex).__name__}: {ex}",
                                  {"method": spelled, "degree": d})
                    continue
                rep.evaluated(1, ("spelling", spelled, d))
                if not (np.array_equal(g.points, ref.points) and np.array_equal(g.weights, ref.weights) and g.degree == ref.degree):
                    rep.violation(f"{m}:spelling:{spelled}",
                                  f"AngularGrid(degree={d}, method={spelled!r}) is accepted but is not the grid of method {m!r}: "
                                  f"SUM w = {float(np.sum(g.weights))!r} vs {float(np.sum(ref.weights))!r}, "
                                  f"max |dp| = {float(np.max(np.abs(np.asarray(g.points) - np.asarray(ref.points)))) if g.points.shape == ref.points.shape else 'shape'}",
                                  {"method": spelled, "degree": d})

    # ---- 4. TLC judges the accounting ---------------------------------------------------------------
    _records_module(wd, tier, extra, "records.json")
    r1 = tlc.run_tlc("AngularCatalogue", "MC_AngularCatalogue_accounting.cfg", wd, workers=4, timeout=600).require_ok("accounting")
    rep.tlc(r1, "AngularCatalogue(accounting)")
    if r1.status == "violation":
        rep.violation(f"catalogue:{','.join(r1.violated)}", f"TLC: {r1.violated} violated; {tlc.last_state(r1)}")
    seen = set()
    for t in tlc.tagged(r1.stdout, "MISMATCH"):
        _, m, d, s, fname, why = t
        if (fname, tuple(why)) in seen:
            continue
        seen.add((fname, tuple(why)))
        dt = detail.get(fname, {})
        rep.violation(fname,
                      f"{fname}.npz (method {m}, advertised degree {d}, size {s}): {', '.join(why)}"
                      + (f"; worst harmonic (l,m)={tuple(dt['worst_lm'])}: SUM w Y_lm = {dt['observed']!r}, expected {dt['expected']!r} "
                         f"(|dev| {dt['max_dev']:.3e}, {dt['nfail']} of {(d + 1) ** 2} integrals beyond {TOL:g}); "
                         f"max | |p|-1 | = {dt['unit_worst']:.2e}" if dt else ""),
                      {"method": m, "degree": d, "size": s, "file": fname, "why": why, **dt})
    # harness-side cross-check of the accounting: nothing the judge flagged may be missing
    for fname, dt in detail.items():
        if r1.status == "ok" and (dt["nfail"] or dt["unit_worst"] > UNIT_TOL) and not any(k[0] == fname for k in seen):
            raise tlc.MachineryError(f"accounting run did not report the failing grid {fname}")

    by_m = {}
    for fname, dt in detail.items():
        if dt["nfail"] == 0:
            by_m[dt["method"]] = max(by_m.get(dt["method"], 0.0), dt["max_dev"])
    rep.set("max_dev_of_passing_grids_by_method", by_m)
    rep.set("max_unit_norm_dev", max((dt["unit_worst"] for dt in detail.values()), default=0.0))
    rep.set("grids_discharged", len(detail))
    rep.set("harmonic_obligations_discharged", int(sum((dt["degree"] + 1) ** 2 for dt in detail.values())))
    rep.set("total_harmonic_obligations_in_catalogue", cat["total_harmonic_obligations"])
    rep.set("tolerance_abs", TOL)
    rep.set("unit_norm_tolerance", UNIT_TOL)
    rep.set("exhaustive", tier == "thorough")
    rep.set("rule", "one evaluation = one obligation of one catalogued grid: a harmonic integral SUM w Y_lm (l <= advertised "
                    "degree, all m), the point count, or the unit-norm clause; distinct = distinct (method, degree); every grid has "
                    "non-trivial obligations (l >= 1 harmonics must integrate to 0)")
    for fname in list(detail)[:6]:
        rep.sample({"file": fname, **{k: detail[fname][k] for k in ("degree", "size", "max_dev", "worst_lm")}})
    rep.assume("vf/ylm.py (calibrated in this run against the definition trees of spec/Harmonics.tla for l <= 12 and by the "
               "addition theorem for higher degrees) evaluates Y_lm to ~1e-13")
    return rep.finish()


def replay(path: str) -> int:
    with open(path) as f:
        v = json.load(f)
    c = v.get("case") or {}
    if "method" not in c:
        return run("quick")
    out = _job((c["method"], c["degree"], 0, 10 ** 9))
    if "error" in out:
        print("replay:", out["error"])
        return 1
    mom = out["moments"]
    mom[0] -= math.sqrt(4 * math.pi)
    w = int(np.argmax(np.abs(mom)))
    print(f"replay: {c['method']} degree {c['degree']}: max |SUM w Y_lm - expected| = {abs(mom[w]):.3e} at (l,m)={_lm(w)}; "
          f"points {out['npoints']}, unit_bad {out['unit_bad']}")
    ok = abs(mom[w]) <= TOL and out["unit_bad"] == 0 and out["npoints"] == c.get("size", out["npoints"])
    return 0 if ok else 1


# ---------------------------------------------------------------------------------------------
# sensitivity

def selftest(tier: str) -> int:
    """In-process mutants of grid.angular (loader / constructor / tables)."""
    import contextlib
    import io
    import grid.angular as ga

    results = []

    import os
    only = os.environ.get("VERIF_MUTANT", "")

    def attempt(name, apply, undo):
        if only and only not in name:
            return
        for c in (ga.LEBEDEV_CACHE, ga.SPHERICAL_CACHE, ga.MAX_DET_CACHE, ga.AHRENS_BEYLKIN_CACHE):
            c.clear()
        apply()
        buf = io.StringIO()
        try:
            with contextlib.redirect_stdout(buf):
                rc = run("quick")
        finally:
            undo()
            for c in (ga.LEBEDEV_CACHE, ga.SPHERICAL_CACHE, ga.MAX_DET_CACHE, ga.AHRENS_BEYLKIN_CACHE):
                c.clear()
        lines = [l for l in buf.getvalue().splitlines() if l.startswith("VIOLATION")]
        ok = rc == 1 and bool(lines)
        results.append((name, ok))
        print(f"mutant {name:40s} -> {'KILLED' if ok else 'MISSED'} ({len(lines)} keys" + (f", e.g. {lines[0].split('#')[1][:120]}" if lines else "") + ")")

    orig_load = ga.AngularGrid._load_precomputed_angular_grid
    orig_init = ga.AngularGrid.__init__

    def set_load(fn):
        ga.AngularGrid._load_precomputed_angular_grid = staticmethod(fn)

    # 1. single-weight expansion branch broken: constant weights not expanded by the stored value
    def load1(degree, size, method):
        p, w = orig_load(degree, size, method)
        if method == "spherical":
            w = np.ones(len(p)) / (len(p) + 1)
        return p, w
    attempt("spherical-weights-1/(N+1)", lambda: set_load(load1), lambda: set_load(orig_load))

    # 2. one table entry points at the neighbouring file (wrong file for a degree)
    def load2(degree, size, method):
        if method == "lebedev" and degree == 41:
            return orig_load(35, ga.LEBEDEV_DEGREES[35], method)
        return orig_load(degree, size, method)
    attempt("lebedev-41-loads-file-of-35", lambda: set_load(load2), lambda: set_load(orig_load))

    # 3. doubled 4 pi normalisation for one method
    def init3(self, degree=50, *, size=None, cache=True, method="lebedev"):
        orig_init(self, degree, size=size, cache=cache, method=method)
        if method.lower() == "ahrens_beylkin":
            self._weights = self._weights * (4 * np.pi)
    attempt("ahrens-beylkin-4pi-applied-twice", lambda: setattr(ga.AngularGrid, "__init__", init3),
            lambda: setattr(ga.AngularGrid, "__init__", orig_init))

    # 4. a single point of one file slightly off the sphere (1e-7) and one weight perturbed by 1e-6
    def load4(degree, size, method):
        p, w = orig_load(degree, size, method)
        if method == "maxdet" and degree == 9:
            p = p.copy(); p[3] = p[3] * (1 + 1e-7)
        if method == "lebedev" and degree == 17:
            w = w.copy(); w[5] += 1e-6
        return p, w
    attempt("maxdet-9-point-off-sphere+lebedev-17-weight", lambda: set_load(load4), lambda: set_load(orig_load))

    # 5. table advertises a higher degree than the file delivers (mislabelled degree)
    def apply5():
        ga.LEBEDEV_DEGREES[22] = ga.LEBEDEV_DEGREES.pop(21)
        ga.LEBEDEV_NPOINTS[ga.LEBEDEV_DEGREES[22]] = 22
        ga.LEBEDEV_DEGREES = dict(sorted(ga.LEBEDEV_DEGREES.items()))

    def undo5():
        ga.LEBEDEV_DEGREES[21] = ga.LEBEDEV_DEGREES.pop(22)
        ga.LEBEDEV_NPOINTS[ga.LEBEDEV_DEGREES[21]] = 21
        ga.LEBEDEV_DEGREES = dict(sorted(ga.LEBEDEV_DEGREES.items()))
    attempt("lebedev-21-advertised-as-22", apply5, undo5)

    # 6. duplicated last point (size off by one)
    def load6(degree, size, method):
        p, w = orig_load(degree, size, method)
        if method == "ahrens_beylkin" and degree == 19:
            p = np.vstack([p, p[-1:]]); w = np.append(w, 0.0)
        return p, w
    attempt("ahrens-beylkin-19-extra-zero-weight-point", lambda: set_load(load6), lambda: set_load(orig_load))

    # 7. weights of one file wrong only in a top-degree component: w_i (1 + 1e-5 sqrt(4 pi) Y_{22,0}(p_i))
    #    (lower harmonics still integrate to ~1e-7; only a check up to the FULL advertised degree sees 1e-5)
    def load7(degree, size, method):
        p, w = orig_load(degree, size, method)
        if method == "lebedev" and degree == 23:
            w = w * (1.0 + 1e-5 * math.sqrt(4 * math.pi) * ylm.ylm_xyz(22, p)[ylm.row(22, 0)])
        return p, w
    attempt("lebedev-23-weights-off-in-Y(22,0)-by-1e-5", lambda: set_load(load7), lambda: set_load(orig_load))

    missed = [n for n, ok in results if not ok]
    print(f"selftest: {len(results) - len(missed)}/{len(results)} mutants killed; missed: {missed}")
    run("quick")
    return 0 if not missed else 1
