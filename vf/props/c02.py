"""C02 - every shipped angular grid is exact to its advertised degree (exploration level).

Flow (DESIGN.md section 5, C02):
 1. the four degree tables and the data-directory listings are extracted from /repo
    (vf/extract.py) into Tables_angular.tla; TLC checks the catalogue laws of
    spec/AngularCatalogue.tla and EMITS the catalogue (one entry per constructible grid:
    method, degree, size, file name, number of harmonic obligations (degree+1)^2, whether the
    quick tier must discharge it) and the expected values sqrt(4 pi)[l = 0] as Expr trees;
 2. vf/ylm.py is calibrated against the definition trees of spec/Harmonics.tla (fresh TLC run);
 3. the harness builds AngularGrid(degree=d, method=m) for every selected entry of TLC's
    catalogue and discharges all its obligations: number of points / weights, reported degree
    and size, unit norm of every point, and SUM_i w_i Y_lm(p_i) for ALL (l, m), l <= d
    (ylm.sphere_moments; big grids are split over processes);
 4. a second TLC run judges the accounting on the returned records: every grid the tier
    requires was discharged, with exactly (d+1)^2 harmonic obligations, none failed, integer
    observables as advertised (MISMATCH lines -> violations keyed by file name).

Audit extension (construction routes, integrate method, size table):
 3b. "every angular quadrature that CAN BE CONSTRUCTED": AngularCatalogue.tla (RouteCases) generates, for every one
    of the 450 entries, ~43 short HISTORIES of constructor calls that name the entry by the documented rules
    (degree as keyword / positional / numpy integer of the smallest fitting type / int64; size; size with another
    or no degree; lowest and highest in-between requests that round up to the entry, incl. 0; cache=True / False;
    warm caches filled through the same or another call form, by the neighbouring entries, by the other three
    methods at the same degree / size; an earlier instance whose arrays the caller overwrote in place; method name
    upper / title / mixed case or omitted; degree omitted; non-integers (0-d array, float) that may be rejected).
    Both tiers run all of them (19502 constructions, 900 of them the two non-integer forms, which the pinned tree rejects),
    each from cold caches, in forked workers (about 15 s CPU).  The judge is
    TLC (RoutesClean): the grid a route hands out must advertise a (degree, size) pair of the method's table, have
    that many points and weights, and be bit-for-bit the canonical grid of the advertised degree (the one whose
    harmonic obligations are discharged) - or else the harness discharges unit norm and harmonics on it directly
    (JUDGE_CAP evaluations; same TOL).  ValueError = nothing constructed (noted when the form is admissible);
    any other exception = failed construction.  Landing on another entry than expected is C12's law (noted only).
  - Grid.integrate obligations (IntegrateDegrees): g.integrate(Y_lm(points)) = Expected(l, m) within the same TOL for
    all m of l <= min(d, 2) and of l = d where size (2 d + 1) <= 4e5.  It is the same sum in another summation
    order: the two differ by <= n eps max|w Y| ~ 3e-10 worst case; measured max |g.integrate(Y_lm) - expected| over all passing
    grids 1.3e-12 (thorough tier) - the same 3.5 orders below TOL as the moments; the 4 pi mutant is off by 3.3e0.
  - catalogue laws: the size table names the same (degree, size) pairs as the degree table; tables sorted by degree;
    RouteGeneratorLaws (every generated request lies in the interval the resolution rule maps to the entry).

thorough = all 450 grids, all (l, m): complete enumeration (7.36e6 harmonic obligations).
quick    = all Lebedev and Ahrens-Beylkin grids, every 8th spherical-design / max-det grid and a
           VERIF_SEED-chosen 10 % of the rest.

Tolerances and calibration (pinned tree, all 450 grids, thorough tier):
  harmonic integrals, absolute: TOL = 1e-8.  Sound files, max over all (l, m): lebedev <= 1.3e-12,
  spherical <= 2.5e-14, maxdet <= 3.3e-12, ahrens_beylkin <= 2.6e-12 (54 files); defective files
  ahrens_beylkin_39_552 2.6e-1 and ahrens_beylkin_127_5472 5.4e-5 (known findings).  The threshold
  is 3.5 orders of magnitude above the largest sound and 3.7 below the smallest defective value
  (DESIGN.md proposed 1e-9, which leaves only 2.5 orders on the sound side).
  unit norm: | |p| - 1 | <= 1e-12; measured <= 6.7e-16 on all files.
"""
from __future__ import annotations

import hashlib
import json
import math
import multiprocessing as mp_
import random
import warnings

import numpy as np

from .. import extract, tlc, ylm
from ..evidence import Report
from ..expr_eval import evaluate

PROP = "C02"
TOL = 1e-8
UNIT_TOL = 1e-12
SPLIT = 6000       # grids with more points are split into slices of this many points
WORKERS = 8


def _signature_defaults():
    """Defaults of AngularGrid(degree=50, *, size=None, cache=True, method="lebedev"), read from the signature."""
    import inspect
    from grid.angular import AngularGrid
    ps = inspect.signature(AngularGrid.__init__).parameters
    d, m = ps["degree"].default, ps["method"].default
    if not (isinstance(d, int) and not isinstance(d, bool) and d >= 0 and isinstance(m, str)):
        raise tlc.MachineryError(f"AngularGrid signature defaults are not (non-negative int, str): degree={d!r}, method={m!r}")
    return int(d), m.lower()


def _records_module(wd, tier, extra, rec_file, seed=0, route_file=None):
    ddeg, dmeth = _signature_defaults()
    lines = ["---- MODULE Records_angular ----", "EXTENDS Integers, Sequences, Json",
             f'Tier == "{tier}"',
             f"Seed == {int(seed) % 1000}", f"DefaultDegree == {ddeg}", f'DefaultMethod == "{dmeth}"',
             "Extra == " + tlc.tla(set(tuple(x) for x in extra)) if extra else "Extra == {}"]
    if rec_file:
        lines.append(f'Rec == JsonDeserialize("{rec_file}")')
    else:
        lines.append("Rec == [lebedev |-> <<>>, spherical |-> <<>>, maxdet |-> <<>>, ahrens_beylkin |-> <<>>]")
    if route_file:
        lines.append(f'RouteRec == JsonDeserialize("{route_file}")')
    else:
        lines.append("RouteRec == [lebedev |-> <<>>, spherical |-> <<>>, maxdet |-> <<>>, ahrens_beylkin |-> <<>>]")
    lines.append("====")
    (wd / "Records_angular.tla").write_text("\n".join(lines) + "\n")


def _grid(method, degree):
    from grid.angular import AngularGrid
    with warnings.catch_warnings():
        warnings.simplefilter("ignore")
        return AngularGrid(degree=int(degree), method=method)


def _digest(pts, wts):
    h = hashlib.sha1()
    for a in (pts, wts):
        a = np.ascontiguousarray(a)
        h.update(f"{a.dtype.str}{a.shape}".encode())
        h.update(a.tobytes())
    return h.hexdigest()


def _degree_rows(l, pts, chunk=4096):
    """The 2l+1 real harmonics of degree l at the points, rows ordered like ylm.row(l, m)
    (m = 0, 1, -1, 2, -2, ...); same recurrence as ylm.sphere_moments, only the last degree is kept."""
    pts = np.asarray(pts, dtype=float)
    out = np.empty((2 * l + 1, pts.shape[0]))
    r2 = math.sqrt(2.0)
    for i0 in range(0, pts.shape[0], chunk):
        p = pts[i0: i0 + chunk]
        x, y, z = p[:, 0], p[:, 1], p[:, 2]
        rho = np.hypot(x, y)
        safe = np.where(rho > 0, rho, 1.0)
        cm, sm = ylm._azimuth(l, np.where(rho > 0, x / safe, 1.0), np.where(rho > 0, y / safe, 0.0))
        for ll, P in ylm.pbar_iter(l, z, rho):
            if ll == l:
                out[0, i0: i0 + chunk] = P[0] * cm[0]
                if l:
                    out[1::2, i0: i0 + chunk] = r2 * P[1: l + 1] * cm[1: l + 1]
                    out[2::2, i0: i0 + chunk] = r2 * P[1: l + 1] * sm[1: l + 1]
    return out


def _integrate_obligations(g, pts, degrees, exp0, exp1):
    """Obligations on the grid's own integrate method (AngularCatalogue.tla, IntegrateDegrees):
    g.integrate(Y_lm(points)) = Expected(l, m) within TOL for every m of the listed degrees."""
    nint = nfail = 0
    worst = (0.0, None)
    for l in degrees:
        rows = _degree_rows(int(l), pts)
        for k in range(rows.shape[0]):
            nint += 1
            try:
                v = float(g.integrate(np.ascontiguousarray(rows[k])))
            except Exception as e:
                nfail += 1
                worst = (float("inf"), f"integrate raised {type(e).__name__}: {e}")
                continue
            dev = abs(v - (exp0 if l == 0 else exp1))
            if not (dev <= TOL):
                nfail += 1
            if not (dev <= worst[0]):
                worst = (dev if dev == dev else float("inf"), f"(l,m)={_lm(l * l + k)}: g.integrate(Y_lm) = {v!r}")
    return nint, nfail, worst


def _job(job):
    """One slice of one grid: partial moments and the integer observables."""
    method, degree, i0, i1 = job[:4]
    intdeg, exp0, exp1 = job[4:7] if len(job) >= 7 else ((), math.sqrt(4 * math.pi), 0.0)
    try:
        g = _grid(method, degree)
        pts = np.asarray(g.points, dtype=float)
        wts = np.asarray(g.weights, dtype=float)
        out = {"method": method, "degree": degree, "i0": i0,
               "deg_attr": int(g.degree), "size_attr": int(g.size),
               "npoints": int(pts.shape[0]), "nweights": int(wts.shape[0]), "shape_ok": pts.ndim == 2 and pts.shape[1:] == (3,)}
        if not out["shape_ok"] or wts.shape[0] != pts.shape[0]:
            out["error"] = f"points shape {pts.shape}, weights shape {wts.shape}"
            return out
        out["digest"] = _digest(g.points, g.weights)
        sl = slice(i0, i1)
        nrm = np.linalg.norm(pts[sl], axis=1)
        dev = np.abs(nrm - 1.0)
        dev = np.where(np.isfinite(dev), dev, np.inf)
        out["unit_bad"] = int((dev > UNIT_TOL).sum())
        out["unit_worst"] = float(dev.max()) if dev.size else 0.0
        lmax = int(degree)   # the ADVERTISED degree of the catalogue entry
        with np.errstate(all="ignore"):
            out["moments"] = ylm.sphere_moments(lmax, pts[sl], wts[sl])
            if i0 == 0:      # the whole-grid obligations are discharged with the first slice
                out["nint"], out["nint_fail"], w = _integrate_obligations(g, pts, intdeg, exp0, exp1)
                out["int_worst"] = list(w)
        return out
    except Exception as e:  # construction failure of a catalogued grid is a violation
        return {"method": method, "degree": degree, "i0": i0, "error": f"{type(e).__name__}: {e}"}


# ---------------------------------------------------------------------------------------------
# construction routes (AngularCatalogue.tla, RouteCases): histories of constructor calls

_NP = {"int": int, "float": float, "0d": lambda v: np.array(v),
       "uint8": np.uint8, "int16": np.int16, "uint16": np.uint16, "int32": np.int32, "int64": np.int64}
JUDGE_CAP = 2e7        # harmonic evaluations spent on judging one grid that differs from the canonical one
JUDGE_MAX = 6          # distinct differing grids judged per catalogue entry


def _clear_caches():
    import grid.angular as ga
    for name, val in list(vars(ga).items()):
        if name.endswith("_CACHE") and isinstance(val, dict):
            val.clear()


def _spell(name, how):
    if how == "upper":
        return name.upper()
    if how == "title":
        return name.title()
    if how == "mixed":
        return "".join(c.upper() if k % 2 else c.lower() for k, c in enumerate(name))
    return name


def _do_call(call):
    """Execute one constructor call of a route case (a record emitted by TLC)."""
    from grid.angular import AngularGrid
    args, kw = [], {}
    if call["degree"] != -1:
        v = None if call["degree"] == -2 else _NP[call["dtype"]](call["degree"])
        if call["positional"]:
            args.append(v)
        else:
            kw["degree"] = v
    if call["size"] != -1:
        kw["size"] = None if call["size"] == -2 else _NP[call["stype"]](call["size"])
    if call["cache"] != "omit":
        kw["cache"] = call["cache"] == "true"
    if call["method"]:
        kw["method"] = _spell(call["method"], call["spell"])
    with warnings.catch_warnings():
        warnings.simplefilter("ignore")
        g = AngularGrid(*args, **kw)
    if call["edit"]:
        # the caller scribbles over the arrays of ITS grid
        try:
            g.weights[...] = g.weights * 3.0 + 1.0
            g.points[...] = 0.25
        except (ValueError, TypeError):   # read-only arrays: nothing to scribble on
            pass
    return g


def _call_text(call):
    a = []
    if call["degree"] != -1:
        v = "None" if call["degree"] == -2 else (str(call["degree"]) if call["dtype"] == "int" else f"{call['dtype']}({call['degree']})")
        a.append(v if call["positional"] else f"degree={v}")
    if call["size"] != -1:
        a.append("size=" + ("None" if call["size"] == -2 else (str(call["size"]) if call["stype"] == "int" else f"{call['stype']}({call['size']})")))
    if call["cache"] != "omit":
        a.append(f"cache={call['cache'] == 'true'}")
    if call["method"]:
        a.append(f"method={_spell(call['method'], call['spell'])!r}")
    return "AngularGrid(" + ", ".join(a) + ")" + (" [arrays edited in place]" if call["edit"] else "")


def _judge_direct(pts, wts, deg, exp0, exp1):
    """Discharge the unit-norm and harmonic obligations on a grid directly (as many degrees as JUDGE_CAP pays for)."""
    n = pts.shape[0]
    nrm = np.linalg.norm(pts, axis=1)
    dev = np.abs(nrm - 1.0)
    dev = np.where(np.isfinite(dev), dev, np.inf)
    unit_bad = int((dev > UNIT_TOL).sum())
    lmax = int(deg)
    if not (0 <= lmax <= 1000) or n == 0:
        return {"nobl": 0, "nfail": 0, "unit_bad": unit_bad, "worst": "degree / size not judgeable"}
    while lmax > 0 and (lmax + 1) ** 2 * n > JUDGE_CAP:
        lmax -= 1
    with np.errstate(all="ignore"):
        mom = ylm.sphere_moments(lmax, pts, wts)
    expected = np.full(mom.shape, exp1)
    expected[0] = exp0
    d = np.abs(mom - expected)
    d = np.where(np.isfinite(d), d, np.inf)
    w = int(np.argmax(d))
    return {"nobl": int(mom.shape[0]), "nfail": int((d > TOL).sum()), "unit_bad": unit_bad,
            "worst": f"(l,m)={_lm(w)}: SUM w Y_lm = {float(mom[w])!r}, expected {float(expected[w])!r}; "
                     f"max | |p|-1 | = {float(dev.max()):.2e}; judged l <= {lmax}"}


def _observe(g):
    import operator
    pts = np.asarray(g.points)
    wts = np.asarray(g.weights)
    o = {"deg_attr": int(operator.index(g.degree)), "size_attr": int(operator.index(g.size)),
         "npoints": int(pts.shape[0]) if pts.ndim else -1, "nweights": int(wts.shape[0]) if wts.ndim else -1}
    if pts.ndim != 2 or pts.shape[1:] != (3,) or wts.ndim != 1:
        raise RuntimeError(f"points shape {pts.shape}, weights shape {wts.shape}")
    return o, pts, wts


def _route_job(job):
    """All route cases of one catalogue entry; every case starts from cold caches."""
    method, idx, degree, cases, judged_digest, exp0, exp1 = job
    recs, info = [], []
    canon = {}          # advertised degree -> digest of the canonical grid (built cold)
    judged = {}         # digest -> direct judgement
    blank = {"deg_attr": -1, "size_attr": -1, "npoints": -1, "nweights": -1, "same": False, "nobl": 0, "nfail": 0, "unit_bad": 0}

    def canonical(deg):
        if deg not in canon:
            try:
                _clear_caches()
                g0 = _grid(method, deg)
                canon[deg] = _digest(g0.points, g0.weights) if int(g0.degree) == deg else None
            except Exception:
                canon[deg] = None
        return canon[deg]

    for k, case in enumerate(cases):
        rec = dict(blank, form=case["form"])
        msg = ""
        try:
            _clear_caches()
            for c in case["pre"]:
                _do_call(c)
            g = _do_call(case["call"])
            obs, pts, wts = _observe(g)
            rec.update(obs, status="ok")
            dg = _digest(pts, wts)
            if k == 0:          # the canonical call itself (RouteGeneratorLaws): reference of this entry
                canon.setdefault(obs["deg_attr"], dg)
                rec["same"] = judged_digest is None or dg == judged_digest
            else:
                rec["same"] = dg == canonical(obs["deg_attr"])
            if not rec["same"]:
                if dg not in judged and len(judged) < JUDGE_MAX:
                    judged[dg] = _judge_direct(np.asarray(pts, dtype=float), np.asarray(wts, dtype=float), obs["deg_attr"], exp0, exp1)
                j = judged.get(dg)
                if j:
                    rec.update(nobl=j["nobl"], nfail=j["nfail"], unit_bad=j["unit_bad"])
                    msg = j["worst"]
                    msg += f"; SUM w = {float(np.sum(wts))!r}"
        except ValueError as e:
            rec["status"] = "rejected"
            msg = f"ValueError: {e}"[:200]
        except TypeError as e:
            rec["status"] = "rejected" if case["may_reject"] else "error"
            msg = f"TypeError: {e}"[:200]
        except Exception as e:
            rec["status"] = "error"
            msg = f"{type(e).__name__}: {e}"[:300]
        recs.append(rec)
        info.append(msg)
    _clear_caches()
    return method, idx, recs, info


def _lm(r):
    l = int(math.isqrt(r))
    k = r - l * l
    return (l, 0) if k == 0 else (l, (k + 1) // 2) if k % 2 else (l, -(k // 2))


def run(tier: str) -> int:
    rep = Report(PROP, tier, "exploration")
    rng = random.Random(rep.seed)
    import time
    t_start = time.time()
    stage = {}

    def lap(name):
        nonlocal t_start
        stage[name] = round(time.time() - t_start, 2)
        t_start = time.time()
    wd = tlc.scratch(f"{PROP}-{tier}")
    tabs = extract.angular_tables()
    extract.write_tables_angular(wd, tabs)

    # ---- 1. catalogue laws + emission ----------------------------------------------------------
    _records_module(wd, "emit", [], None, seed=rep.seed)
    r0 = tlc.run_tlc("AngularCatalogue", "MC_AngularCatalogue.cfg", wd, workers=4, timeout=600).require_ok("catalogue")
    rep.tlc(r0, "AngularCatalogue(emit)")
    if r0.status == "violation":
        rep.violation(f"catalogue:{','.join(r0.violated)}",
                      f"TLC: catalogue law {r0.violated} is false on the tables / data directories of /repo; {tlc.last_state(r0)}")
    try:
        with open(wd / "catalogue.json") as f:
            cat = json.load(f)
    except OSError:
        raise tlc.MachineryError("AngularCatalogue.tla did not emit catalogue.json\n" + r0.stdout[-2000:])
    exp0 = float(evaluate(cat["expected_l0"], {}, "mp"))
    exp1 = float(evaluate(cat["expected_other"], {}, "mp"))
    entries = [e for m in cat["grids"] for e in cat["grids"][m]]
    try:
        with open(wd / "routes.json") as f:
            routes = json.load(f)
    except OSError:
        raise tlc.MachineryError("AngularCatalogue.tla did not emit routes.json\n" + r0.stdout[-2000:])
    rep.set("catalogue_size", len(entries))
    rep.set("orphan_files_not_constructible", cat["orphans"])

    lap("catalogue_tlc")
    # ---- 2. calibrate the evaluator against Harmonics.tla -----------------------------------------
    from . import c08
    em, rh = c08.emission(f"{PROP}-{tier}-harmonics", ltree=12, lexact=3)
    rep.tlc(rh, "MC_Harmonics(calibration)")
    try:
        cal = ylm.calibrate(em, seed=rep.seed, n_random=8, lhigh=330 if tier == "thorough" else 220)
    except ylm.CalibrationError as e:
        raise tlc.MachineryError(f"vf/ylm.py failed its calibration against Harmonics.tla: {e}")
    rep.set("ylm_calibration", cal)

    lap("calibration")
    # ---- 3. selection and discharge --------------------------------------------------------------
    if tier == "thorough":
        selected = entries
        extra = []
    else:
        rest = [e for e in entries if not e["required_quick"]]
        extra_e = rng.sample(rest, max(1, len(rest) // 10))
        extra = [[e["method"], e["degree"]] for e in extra_e]
        selected = [e for e in entries if e["required_quick"]] + extra_e
    jobs = []
    for e in selected:
        n = e["size"]
        cost = e["nharmonic"] * n
        if n > SPLIT:
            k = -(-n // SPLIT)
            step = -(-n // k)
            for i0 in range(0, n, step):
                jobs.append((cost / k, (e["method"], e["degree"], i0, min(n, i0 + step), e["integrate_degrees"], exp0, exp1)))
        else:
            jobs.append((cost, (e["method"], e["degree"], 0, n, e["integrate_degrees"], exp0, exp1)))
    jobs.sort(key=lambda t: -t[0])
    parts = {}
    with mp_.get_context("fork").Pool(WORKERS) as pool:
        for out in pool.imap_unordered(_job, [j for _, j in jobs], chunksize=1):
            parts.setdefault((out["method"], out["degree"]), []).append(out)

    records = {m: [] for m in tabs}
    detail = {}
    judged_digest = {}
    for e in selected:
        key = (e["method"], e["degree"])
        ps = sorted(parts.get(key, []), key=lambda o: o["i0"])
        errs = [p["error"] for p in ps if "error" in p]
        fname = e["file"]
        if errs or not ps:
            rep.violation(fname, f"AngularGrid(degree={e['degree']}, method={e['method']!r}) could not be built/evaluated: {errs[:1]}",
                          {"method": e["method"], "degree": e["degree"]})
            continue
        mom = np.sum([p["moments"] for p in ps], axis=0)
        expected = np.full(mom.shape, exp1)
        expected[0] = exp0
        dev = np.abs(mom - expected)
        nonfinite = int((~np.isfinite(mom)).sum())
        dev = np.where(np.isfinite(dev), dev, np.inf)
        nfail = int((dev > TOL).sum())
        worst = int(np.argmax(dev))
        rec = {"degree": e["degree"], "size": e["size"], "deg_attr": ps[0]["deg_attr"], "size_attr": ps[0]["size_attr"],
               "npoints": ps[0]["npoints"], "nweights": ps[0]["nweights"],
               "unit_bad": int(sum(p["unit_bad"] for p in ps)), "nobl": int(mom.shape[0]),
               "nfail": nfail, "nonfinite": nonfinite,
               "nint": int(ps[0].get("nint", 0)), "nint_fail": int(ps[0].get("nint_fail", 0))}
        records[e["method"]].append(rec)
        judged_digest[key] = ps[0].get("digest")
        if len({p.get("digest") for p in ps}) > 1:
            rep.violation(fname, f"AngularGrid(degree={e['degree']}, method={e['method']!r}) built {len(ps)} times in a row is not the same grid "
                                 "every time (the slices of its harmonic obligations were discharged on different arrays)",
                          {"method": e["method"], "degree": e["degree"]})
        detail[fname] = {"method": e["method"], "degree": e["degree"], "size": e["size"], "max_dev": float(dev.max()),
                         "worst_lm": list(_lm(worst)), "observed": float(mom[worst]), "expected": float(expected[worst]),
                         "nfail": nfail, "unit_worst": max(p["unit_worst"] for p in ps),
                         "integrate_worst": ps[0].get("int_worst")}
        rep.evaluated(int(mom.shape[0]) + 2 + rec["nint"], (e["method"], e["degree"]))
    with open(wd / "records.json", "w") as f:
        json.dump(records, f)


    lap("harmonic_discharge")
    # ---- 3b. construction routes: every history of constructor calls TLC emitted for every entry --------------
    rjobs = []
    for m in routes:
        for idx, cases in enumerate(routes[m]):
            e = cat["grids"][m][idx]
            rjobs.append((e["size"] * len(cases), (m, idx, e["degree"], cases, judged_digest.get((m, e["degree"])), exp0, exp1)))
    rjobs.sort(key=lambda t: -t[0])
    route_records = {m: [None] * len(routes[m]) for m in routes}
    route_info = {}
    with mp_.get_context("fork").Pool(WORKERS) as pool:
        for m, idx, recs, info in pool.imap_unordered(_route_job, [j for _, j in rjobs], chunksize=1):
            route_records[m][idx] = recs
            route_info[(m, idx)] = info
    nroutes = 0
    status_count = {}
    for m in routes:
        for idx, recs in enumerate(route_records[m]):
            recs = route_records[m][idx] = recs or []
            nroutes += len(recs)
            for r in recs:
                status_count[r["status"]] = status_count.get(r["status"], 0) + 1
            rep.evaluated(len(recs), ("routes", m, idx))
    with open(wd / "route_records.json", "w") as f:
        json.dump(route_records, f)
    rep.set("route_cases_run", nroutes)
    rep.set("route_cases_by_status", status_count)
    rep.set("route_forms", sorted({c["form"] for m in routes for cs in routes[m] for c in cs}))

    lap("routes")
    # "for every method": the constructor folds the case of the method name; a spelling it accepts names the same
    # catalogue entry, so it must hand out the very grid judged above (same points, same weights)
    for m, t in tabs.items():
        degs = sorted(d for d, s in t["deg"] if s <= 600)
        for d in sorted(set(degs[:2] + degs[-1:])):
            try:
                ref = _grid(m, d)
            except Exception:
                continue   # reported above
            for spelled in (m.upper(), m.title(), m.capitalize()):
                try:
                    g = _grid(spelled, d)
                except ValueError:
                    continue   # a spelling the constructor rejects is no grid at all
                except Exception as ex:
                    rep.violation(f"{m}:spelling:{spelled}", f"AngularGrid(degree={d}, method={spelled!r}) raised {type(ex).__name__}: {ex}",
                                  {"method": spelled, "degree": d})
                    continue
                rep.evaluated(1, ("spelling", spelled, d))
                if not (np.array_equal(g.points, ref.points) and np.array_equal(g.weights, ref.weights) and g.degree == ref.degree):
                    rep.violation(f"{m}:spelling:{spelled}",
                                  f"AngularGrid(degree={d}, method={spelled!r}) is accepted but is not the grid of method {m!r}: "
                                  f"SUM w = {float(np.sum(g.weights))!r} vs {float(np.sum(ref.weights))!r}, "
                                  f"max |dp| = {float(np.max(np.abs(np.asarray(g.points) - np.asarray(ref.points)))) if g.points.shape == ref.points.shape else 'shape'}",
                                  {"method": spelled, "degree": d})

    # ---- 4. TLC judges the accounting ---------------------------------------------------------------
    _records_module(wd, tier, extra, "records.json", seed=rep.seed, route_file="route_records.json")
    r1 = tlc.run_tlc("AngularCatalogue", "MC_AngularCatalogue_accounting.cfg", wd, workers=4, timeout=600).require_ok("accounting")
    rep.tlc(r1, "AngularCatalogue(accounting)")
    if r1.status == "violation":
        rep.violation(f"catalogue:{','.join(r1.violated)}", f"TLC: {r1.violated} violated; {tlc.last_state(r1)}")
    seen = set()
    for t in tlc.tagged(r1.stdout, "MISMATCH"):
        _, m, d, s, fname, why = t
        if (fname, tuple(why)) in seen:
            continue
        seen.add((fname, tuple(why)))
        dt = detail.get(fname, {})
        rep.violation(fname,
                      f"{fname}.npz (method {m}, advertised degree {d}, size {s}): {', '.join(why)}"
                      + (f"; worst harmonic (l,m)={tuple(dt['worst_lm'])}: SUM w Y_lm = {dt['observed']!r}, expected {dt['expected']!r} "
                         f"(|dev| {dt['max_dev']:.3e}, {dt['nfail']} of {(d + 1) ** 2} integrals beyond {TOL:g}); "
                         f"max | |p|-1 | = {dt['unit_worst']:.2e}"
                         + (f"; integrate method: worst {dt['integrate_worst'][1]}" if "integrate-method" in why and dt.get("integrate_worst") else "") if dt else ""),
                      {"method": m, "degree": d, "size": s, "file": fname, "why": why, **dt})
    # route cases judged by TLC (RoutesClean): violations keyed by file and call form; notes go to the evidence
    index_of = {(e["method"], e["degree"]): e["index"] - 1 for e in entries}
    seen_r = set()
    for t in tlc.tagged(r1.stdout, "ROUTE"):
        _, m, d, s_, fname, form, why = t
        if (fname, form) in seen_r:
            continue
        seen_r.add((fname, form))
        idx = index_of[(m, d)]
        k = next(i for i, c in enumerate(routes[m][idx]) if c["form"] == form)
        case, rec = routes[m][idx][k], route_records[m][idx][k] if k < len(route_records[m][idx]) else {}
        hist = " ; ".join(_call_text(c) for c in case["pre"] + [case["call"]])
        rep.violation(f"{fname}:route:{form}",
                      f"route '{form}' to {fname}.npz (method {m}, degree {d}, size {s_}): {', '.join(why)}. History: {hist}. Last call handed out a grid "
                      f"advertising degree {rec.get('deg_attr')}, size {rec.get('size_attr')} with {rec.get('npoints')} points; "
                      f"{route_info.get((m, idx), [''] * (k + 1))[k]}",
                      {"method": m, "degree": d, "size": s_, "file": fname, "route": case, "record": rec, "why": why})
    notes = {}
    for t in tlc.tagged(r1.stdout, "RNOTE"):
        _, m, d, s_, fname, form, what = t
        for w in what:
            n = notes.setdefault(w, {"count": 0, "examples": []})
            n["count"] += 1
            if len(n["examples"]) < 4 and f"{fname}:{form}" not in n["examples"]:
                n["examples"].append(f"{fname}:{form}")
    rep.set("route_notes", notes)
    # harness-side cross-check of the accounting: nothing the judge flagged may be missing
    for fname, dt in detail.items():
        if r1.status == "ok" and (dt["nfail"] or dt["unit_worst"] > UNIT_TOL) and not any(k[0] == fname for k in seen):
            raise tlc.MachineryError(f"accounting run did not report the failing grid {fname}")
    for m in routes:
        for idx, recs in enumerate(route_records[m]):
            for r in recs:
                if r1.status == "ok" and (r["status"] == "error" or (r["status"] == "ok" and not r["same"] and r["nfail"])) \
                        and (cat["grids"][m][idx]["file"], r["form"]) not in seen_r:
                    raise tlc.MachineryError(f"accounting run did not report the failing route {m} #{idx} {r['form']}")

    lap("accounting_tlc")
    rep.set("stage_wall_s", stage)
    by_m = {}
    for fname, dt in detail.items():
        if dt["nfail"] == 0:
            by_m[dt["method"]] = max(by_m.get(dt["method"], 0.0), dt["max_dev"])
    rep.set("max_dev_of_passing_grids_by_method", by_m)
    rep.set("max_integrate_method_dev_of_passing_grids",
            max((dt["integrate_worst"][0] for dt in detail.values() if dt["nfail"] == 0 and dt.get("integrate_worst")), default=0.0))
    rep.set("max_unit_norm_dev", max((dt["unit_worst"] for dt in detail.values()), default=0.0))
    rep.set("grids_discharged", len(detail))
    rep.set("harmonic_obligations_discharged", int(sum((dt["degree"] + 1) ** 2 for dt in detail.values())))
    rep.set("total_harmonic_obligations_in_catalogue", cat["total_harmonic_obligations"])
    rep.set("tolerance_abs", TOL)
    rep.set("unit_norm_tolerance", UNIT_TOL)
    rep.set("exhaustive", tier == "thorough")
    rep.set("rule", "one evaluation = one obligation of one catalogued grid: a harmonic integral SUM w Y_lm (l <= advertised "
                    "degree, all m), the point count, or the unit-norm clause; distinct = distinct (method, degree); every grid has "
                    "non-trivial obligations (l >= 1 harmonics must integrate to 0)")
    for fname in list(detail)[:6]:
        rep.sample({"file": fname, **{k: detail[fname][k] for k in ("degree", "size", "max_dev", "worst_lm")}})
    rep.assume("vf/ylm.py (calibrated in this run against the definition trees of spec/Harmonics.tla for l <= 12 and by the "
               "addition theorem for higher degrees) evaluates Y_lm to ~1e-13")
    return rep.finish()


def replay(path: str) -> int:
    with open(path) as f:
        v = json.load(f)
    c = v.get("case") or {}
    if "method" not in c:
        return run("quick")
    if "route" in c:
        canon = {"form": "degree", "pre": [], "may_reject": False,
                 "call": {"method": c["method"], "spell": "lower", "degree": c["degree"], "dtype": "int", "positional": False,
                          "size": -1, "stype": "int", "cache": "omit", "edit": False}}
        m, idx, recs, info = _route_job((c["method"], 0, c["degree"], [canon, c["route"]], None, math.sqrt(4 * math.pi), 0.0))
        r = recs[1]
        print(f"replay: route {c['route']['form']} of {c['file']}: {r}; {info[1]}")
        bad = r["status"] == "error" or (r["status"] == "ok" and (r["npoints"] != r["size_attr"] or r["nweights"] != r["size_attr"]
                                                                  or (not r["same"] and (r["nfail"] or r["unit_bad"]))))
        return 1 if bad else 0
    out = _job((c["method"], c["degree"], 0, 10 ** 9, [0, min(c["degree"], 2)], math.sqrt(4 * math.pi), 0.0))
    if "error" in out:
        print("replay:", out["error"])
        return 1
    mom = out["moments"]
    mom[0] -= math.sqrt(4 * math.pi)
    w = int(np.argmax(np.abs(mom)))
    print(f"replay: {c['method']} degree {c['degree']}: max |SUM w Y_lm - expected| = {abs(mom[w]):.3e} at (l,m)={_lm(w)}; "
          f"points {out['npoints']}, unit_bad {out['unit_bad']}")
    ok = abs(mom[w]) <= TOL and out["unit_bad"] == 0 and out["npoints"] == c.get("size", out["npoints"])
    return 0 if ok else 1


# ---------------------------------------------------------------------------------------------
# sensitivity

def selftest(tier: str) -> int:
    """In-process mutants of grid.angular (loader / constructor / tables)."""
    import contextlib
    import io
    import grid.angular as ga

    results = []

    import os
    only = os.environ.get("VERIF_MUTANT", "")

    def attempt(name, apply, undo):
        if only and only not in name:
            return
        _clear_caches()
        apply()
        buf = io.StringIO()
        try:
            with contextlib.redirect_stdout(buf):
                rc = run("quick")
        finally:
            undo()
            for c in (ga.LEBEDEV_CACHE, ga.SPHERICAL_CACHE, ga.MAX_DET_CACHE, ga.AHRENS_BEYLKIN_CACHE):
                c.clear()
        lines = [l for l in buf.getvalue().splitlines() if l.startswith("VIOLATION")]
        ok = rc == 1 and bool(lines)
        results.append((name, ok))
        print(f"mutant {name:40s} -> {'KILLED' if ok else 'MISSED'} ({len(lines)} keys" + (f", e.g. {lines[0].split('#')[1][:120]}" if lines else "") + ")")

    orig_load = ga.AngularGrid._load_precomputed_angular_grid
    orig_init = ga.AngularGrid.__init__

    def set_load(fn):
        ga.AngularGrid._load_precomputed_angular_grid = staticmethod(fn)

    # 1. single-weight expansion branch broken: constant weights not expanded by the stored value
    def load1(degree, size, method):
        p, w = orig_load(degree, size, method)
        if method == "spherical":
            w = np.ones(len(p)) / (len(p) + 1)
        return p, w
    attempt("spherical-weights-1/(N+1)", lambda: set_load(load1), lambda: set_load(orig_load))

    # 2. one table entry points at the neighbouring file (wrong file for a degree)
    def load2(degree, size, method):
        if method == "lebedev" and degree == 41:
            return orig_load(35, ga.LEBEDEV_DEGREES[35], method)
        return orig_load(degree, size, method)
    attempt("lebedev-41-loads-file-of-35", lambda: set_load(load2), lambda: set_load(orig_load))

    # 3. doubled 4 pi normalisation for one method
    def init3(self, degree=50, *, size=None, cache=True, method="lebedev"):
        orig_init(self, degree, size=size, cache=cache, method=method)
        if method.lower() == "ahrens_beylkin":
            self._weights = self._weights * (4 * np.pi)
    attempt("ahrens-beylkin-4pi-applied-twice", lambda: setattr(ga.AngularGrid, "__init__", init3),
            lambda: setattr(ga.AngularGrid, "__init__", orig_init))

    # 4. a single point of one file slightly off the sphere (1e-7) and one weight perturbed by 1e-6
    def load4(degree, size, method):
        p, w = orig_load(degree, size, method)
        if method == "maxdet" and degree == 9:
            p = p.copy(); p[3] = p[3] * (1 + 1e-7)
        if method == "lebedev" and degree == 17:
            w = w.copy(); w[5] += 1e-6
        return p, w
    attempt("maxdet-9-point-off-sphere+lebedev-17-weight", lambda: set_load(load4), lambda: set_load(orig_load))

    # 5. table advertises a higher degree than the file delivers (mislabelled degree)
    def apply5():
        ga.LEBEDEV_DEGREES[22] = ga.LEBEDEV_DEGREES.pop(21)
        ga.LEBEDEV_NPOINTS[ga.LEBEDEV_DEGREES[22]] = 22
        ga.LEBEDEV_DEGREES = dict(sorted(ga.LEBEDEV_DEGREES.items()))

    def undo5():
        ga.LEBEDEV_DEGREES[21] = ga.LEBEDEV_DEGREES.pop(22)
        ga.LEBEDEV_NPOINTS[ga.LEBEDEV_DEGREES[21]] = 21
        ga.LEBEDEV_DEGREES = dict(sorted(ga.LEBEDEV_DEGREES.items()))
    attempt("lebedev-21-advertised-as-22", apply5, undo5)

    # 6. duplicated last point (size off by one)
    def load6(degree, size, method):
        p, w = orig_load(degree, size, method)
        if method == "ahrens_beylkin" and degree == 19:
            p = np.vstack([p, p[-1:]]); w = np.append(w, 0.0)
        return p, w
    attempt("ahrens-beylkin-19-extra-zero-weight-point", lambda: set_load(load6), lambda: set_load(orig_load))

    # 7. weights of one file wrong only in a top-degree component: w_i (1 + 1e-5 sqrt(4 pi) Y_{22,0}(p_i))
    #    (lower harmonics still integrate to ~1e-7; only a check up to the FULL advertised degree sees 1e-5)
    def load7(degree, size, method):
        p, w = orig_load(degree, size, method)
        if method == "lebedev" and degree == 23:
            w = w * (1.0 + 1e-5 * math.sqrt(4 * math.pi) * ylm.ylm_xyz(22, p)[ylm.row(22, 0)])
        return p, w
    attempt("lebedev-23-weights-off-in-Y(22,0)-by-1e-5", lambda: set_load(load7), lambda: set_load(orig_load))


    # ---- mutants for the clauses added by the audit (call forms, cache histories, integrate, size table) -------
    FOURPI = 4 * np.pi

    # 8. the size route forgets the 4 pi normalisation of the two scaled families
    def init8(self, degree=50, *, size=None, cache=True, method="lebedev"):
        orig_init(self, degree, size=size, cache=cache, method=method)
        if size is not None and method.lower() in ("lebedev", "spherical"):
            self._weights = self._weights / FOURPI
    attempt("size-route-without-4pi", lambda: setattr(ga.AngularGrid, "__init__", init8),
            lambda: setattr(ga.AngularGrid, "__init__", orig_init))

    # 9. cache=False hands out the raw file content (no 4 pi) for one family
    def init9(self, degree=50, *, size=None, cache=True, method="lebedev"):
        orig_init(self, degree, size=size, cache=cache, method=method)
        if not cache and method.lower() == "spherical":
            self._weights = self._weights / FOURPI
    attempt("spherical-cache-false-without-4pi", lambda: setattr(ga.AngularGrid, "__init__", init9),
            lambda: setattr(ga.AngularGrid, "__init__", orig_init))

    # 10. the first instance built on a cold cache shares its points with the cache entry (seeded change 2B)
    def init10(self, degree=50, *, size=None, cache=True, method="lebedev"):
        m = method.lower()
        cd = {"lebedev": ga.LEBEDEV_CACHE, "spherical": ga.SPHERICAL_CACHE, "maxdet": ga.MAX_DET_CACHE,
              "ahrens_beylkin": ga.AHRENS_BEYLKIN_CACHE}.get(m)
        before = set(cd) if cd is not None else set()
        orig_init(self, degree, size=size, cache=cache, method=method)
        if cd is not None and self._degree in cd and self._degree not in before:
            cd[self._degree] = (self._points, cd[self._degree][1])
    attempt("first-instance-points-alias-the-cache", lambda: setattr(ga.AngularGrid, "__init__", init10),
            lambda: setattr(ga.AngularGrid, "__init__", orig_init))

    # 11. the instance advertises the REQUESTED degree, not the degree of the grid that was loaded
    def init11(self, degree=50, *, size=None, cache=True, method="lebedev"):
        orig_init(self, degree, size=size, cache=cache, method=method)
        if size is None and degree is not None:
            self._degree = degree
    attempt("advertises-requested-degree", lambda: setattr(ga.AngularGrid, "__init__", init11),
            lambda: setattr(ga.AngularGrid, "__init__", orig_init))

    # 12. AngularGrid gets its own integrate that "normalises" by the sphere area
    def integrate12(self, *value_arrays):
        return ga.Grid.integrate(self, *value_arrays) / FOURPI

    def undo12():
        del ga.AngularGrid.integrate
    attempt("integrate-normalised-by-4pi", lambda: setattr(ga.AngularGrid, "integrate", integrate12), undo12)

    # 13. the size table names another degree for one size (the degree table, hence the catalogue, is intact)
    def apply13():
        ga.LEBEDEV_NPOINTS[26] = 9

    def undo13():
        ga.LEBEDEV_NPOINTS[26] = 7
    assert ga.LEBEDEV_NPOINTS[26] == 7
    attempt("lebedev-size-table-26-names-degree-9", apply13, undo13)

    # 14. the file name is built with repr(): numpy integers (numpy >= 2: 'np.uint8(5)') name no file
    def load14(degree, size, method):
        if repr(degree) != str(int(degree)) or repr(size) != str(int(size)):
            raise FileNotFoundError(f"{method}_{degree!r}_{size!r}.npz")
        return orig_load(degree, size, method)
    attempt("file-name-from-repr-of-numpy-integer", lambda: set_load(load14), lambda: set_load(orig_load))

    # 15. a cache hit keyed by the raw request: an in-between request served after the exact one gets the grid of
    #     the NEXT lower entry's cache slot - here: warm requests d0+1 .. d-1 are looked up one entry too low
    def init15(self, degree=50, *, size=None, cache=True, method="lebedev"):
        m = method.lower()
        if size is None and m == "maxdet" and isinstance(degree, (int, np.integer)) and 0 < int(degree) < 199 and ga.MAX_DET_CACHE.get(int(degree) + 1) is not None \
                and int(degree) not in ga.MAX_DET_CACHE:
            # stale slot: reuse the arrays cached for the next degree
            orig_init(self, int(degree) + 1, size=None, cache=cache, method=method)
            self._degree = int(degree)
            return
        orig_init(self, degree, size=size, cache=cache, method=method)
    attempt("maxdet-warm-hit-takes-neighbouring-slot", lambda: setattr(ga.AngularGrid, "__init__", init15),
            lambda: setattr(ga.AngularGrid, "__init__", orig_init))

    missed = [n for n, ok in results if not ok]
    print(f"selftest: {len(results) - len(missed)}/{len(results)} mutants killed; missed: {missed}")
    run("quick")
    return 0 if not missed else 1
