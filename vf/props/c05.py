"""C05 - an atomic grid is the product of its radial grid and per-shell spheres.

Flow (DESIGN.md section 5, C05; specification spec/AtomGrid.tla):
 1. Tables_angular (supported degrees/sizes, from grid.angular) and Tables_atomgrid are generated.
 2. MC_AtomGridIdx: TLC checks the index-table loop against prefix sums / partition for all size
    sequences over 6 sizes and up to 5 shells, decides the static laws (sector algorithm =
    sector definition incl. ties, resolution law, monomial integrals) and EMITS the replay
    configurations (rational radial grids with and without r = 0, degrees | sizes | pruned
    sectors incl. ties and wrong lengths, 4 methods, 2 centres, seeds 0/1/37) together with the
    rational shell factors w_i r_i^2 and the exact sphere integrals of the monomials.
 3. Every configuration is built through the public constructors; (degrees, sizes, indices |
    ValueError) is recorded and judged by TLC (MC_AtomGridCfg) against AtomGrid!Expected.  The
    harness checks, per shell, the float part of the law against the TLC-emitted rationals:
    radii, weights = (w_i r_i^2) W, Gram matrix of (p - c)/r_i equals that of the unit grid
    (orthogonal image), identity for seed 0, same seed => same grid, the rotation of (seed, i) is
    the same in every grid, translation law, get_shell_grid(i, r_sq=True/False), and the
    factorised-integral consequence on monomials up to the smallest shell degree.
 4. EVERY (preset, element) pair of the 17 npz files is built with a radial grid of the size the
    table prescribes (counts tables) or with a radial grid that hits every sector AND every
    sector boundary (radii tables; additionally with rgrid=None where a default exists).  The
    tables (kinds, counts, npt, RANKS of radii in the joint ordering with the radial points) and
    the observations go to TLC (MC_AtomGridPre): branch taken = table kind, len(npt) fits len(rad),
    built sizes/degrees = what the table prescribes, no shell coarser than tabulated,
    _get_rgrid_size = sum of counts.

Tolerances (calibration on the pinned tree, thorough tier, all 4560 configurations):
  radii            |‖p-c‖ - r_i| / max(1, r_i)           measured 4.5e-16   tolerance 1e-12
  weights          relative to (w_i r_i^2) W              measured 4.5e-16   tolerance 1e-12
  Gram matrices    max |X X^T - U U^T|                    measured 1.6e-15   tolerance 1e-11
  identity (seed 0) max |X - U|                           measured 2.3e-16   tolerance 1e-12
  rotation (seed,i) equal across grids                    measured 1.5e-15   tolerance 1e-11
  translation      max |(p' - c') - (p - c)| / (1+|c'|)   measured 1.8e-16   tolerance 1e-12
  shell grid       points / weights                       measured 0 / 2.3e-16  tolerance 1e-12
  monomial integrals, relative to 4 pi sum_i |w_i r_i^2 g(r_i)|   measured 2.0e-14  tolerance 1e-10

Second layer (audit round; specification spec/AtomGridX.tla, which EXTENDS AtomGrid and is the root module of the
first two TLC runs - MC_AtomGridXIdx.cfg / MC_AtomGridXCfg.cfg contain every invariant of the old configurations):
 5. TLC checks SeedLaw / ScaleLaw / PermuteLaw / ShellRequestLaw and EMITS 2006 cases in six families
      order    radial nodes unsorted / descending / duplicate radii / r = 0 inside or last, every request kind, 4 methods
      scale    radial grid (and pruning radius) times 2^k, k in {-40, -27, 30}: all, some, no radii below 1e-8
      seed     0, 1, 37, 2^16, 2^31 - 1, 2^31, the largest admissible 2^32 - N - 1, one above it, -1; NumPy-integer / bool seeds
      form     request as list / int64 array / int32 array; centre as array / list / tuple / integer array / absent;
               degrees next to sizes and d_sectors next to s_sectors (sizes win); sector radii as array / Python ints;
               radial grid without a domain
      spelling upper-case / title-case method names for every request kind (a spelling AtomGrid(rg, [3], method=S)
               does not accept is no method and is skipped)
      bounds   degree 0 / largest / largest + 1 and size 0 / 1 / largest / largest + 1 of every method, Lebedev 13, 25, 27
    with the rational data of the product formula (w_i r_i^2, G_k(r_i) for G_1 = 1/(1+r)^2, G_2 = 1 + r/2) and the
    list of per-shell requests (index -1 .. N with "served iff 0 <= i < N").  ExpectedX ignores `form` and `scale`:
    TLC judges (degrees, sizes, indices | rejected) of every case built in the stated presentation.
 6. Harness, per built case: the per-shell law as in 3. (tolerances relative to |c| + r_i, so that 2^-40 and 2^30 are
    judged alike; shells above 3 points by a fitted 3x3 map that must be orthogonal instead of the N x N Gram matrix),
    attributes (center, rgrid identity, rotate, method, n_shells), equality with the canonical presentation (exact),
    get_shell_grid with explicit / default r_sq, NumPy index, repeated call, served / refused requests, purity,
    independence of and no effect on NumPy's global generator, translation, and AtomGrid.integrate(G_k, monomial) and
    AtomGrid.integrate_angular_coordinates against 4 pi * SphereMonomial * (sum_i) w_i r_i^2 G_k(r_i) r_i^l with all
    factors from TLC.  The same integrate clause runs on the configurations of 3. (observe_at names AtomGrid.integrate).
 7. Presets: every built grid (origin, and centre + rotate=5) is checked against the product law itself (radii and
    weights of EVERY shell from its own radial node, orthogonal image and get_shell_grid on five shells, rgrid
    identity); maxdet / ahrens_beylkin variants and a radial grid in descending order for some elements (TLC judges
    them like the others); _get_rgrid_size on a list; NumPy-integer atomic number.

Calibration of the second layer (pinned tree, thorough tier, 2006 cases + 2583 preset builds):
  x-radii 7.4e-16, x-weights 2.2e-16, x-shell 2.2e-16, x-translation 9.9e-17, x-identity 1.3e-16   tolerance 1e-12
  x-orth 3.1e-15, x-rotation 1.7e-15                                                                  tolerance 1e-11
  preset-radii 7.8e-16, preset-weights 4.5e-16, preset-shell 4.2e-16 (1e-12); preset-orth 5.3e-15 (1e-11)
  integrate / x-integrate / x-angular-integrals, relative to the absolute sum: 2.7e-14 for shells up to 1202 points,
    2.8e-13 for the 5810-point Lebedev grid (its own exactness, C02's business).  Tolerance = max(1e-10, 100 N eps)
    with N the largest shell: error budget of a sum of N products (<= ~N eps of the absolute sum) times 100; the
    in-process mutant "integrate off by 1e-6" is 10^4 tolerances away.
"""
from __future__ import annotations

import json
import multiprocessing as mp
import warnings
from fractions import Fraction

import numpy as np

from .. import extract, tlc
from ..evidence import Report

PROP = "C05"
_TOL = {"radii": 1e-12, "weights": 1e-12, "gram": 1e-11, "identity": 1e-12, "rotation": 1e-11,
        "translation": 1e-12, "shell": 1e-12, "monomial": 1e-10}
DATA = extract.DATA / "prune_grid"
MAX_REPORT = 12


def _fr(q):
    return Fraction(int(q[0]), int(q[1]))


def _quiet(f, *a, **k):
    with warnings.catch_warnings():
        warnings.simplefilter("ignore")
        with np.errstate(all="ignore"):
            return f(*a, **k)


def write_tables(wd, max_shells, cfgobs_file=None, presets_file=None, xobs_file=None):
    lines = ["---- MODULE Tables_atomgrid ----",
             "\\* generated by vf/props/c05.py (preset tables from /repo/src/grid/data/prune_grid, observations)",
             "EXTENDS Integers, Sequences, TLC, Json",
             f"MaxShells == {max_shells}",
             f'CfgObs == JsonDeserialize("{cfgobs_file}")' if cfgobs_file else "CfgObs == <<>>",
             f'Presets == JsonDeserialize("{presets_file}")' if presets_file else "Presets == <<>>",
             f'XObs == JsonDeserialize("{xobs_file}")' if xobs_file else "XObs == <<>>",
             "====", ""]
    (wd / "Tables_atomgrid.tla").write_text("\n".join(lines))


# ---------------------------------------------------------------------------------------------
# structural replay

def _build(c, centre=None):
    from grid.atomgrid import AtomGrid
    from grid.basegrid import OneDGrid
    rg = OneDGrid(np.array([float(_fr(q)) for q in c["rgp"]]), np.array([float(_fr(q)) for q in c["rgw"]]), (0, np.inf))
    cen = np.array([float(_fr(q)) for q in c["centre"]]) if centre is None else centre
    kw = dict(center=cen, rotate=int(c["seed"]), method=c["method"])
    if c["kind"] == "degrees":
        return AtomGrid(rg, degrees=list(c["req"]), **kw)
    if c["kind"] == "sizes":
        return AtomGrid(rg, None, sizes=list(c["req"]), **kw)
    secs = [float(_fr(q)) for q in c["sectors"]]
    rad = float(_fr(c["radius"]))
    if c["kind"] == "pruned_d":
        return AtomGrid.from_pruned(rg, rad, r_sectors=secs, d_sectors=list(c["req"]), **kw)
    return AtomGrid.from_pruned(rg, rad, r_sectors=secs, d_sectors=None, s_sectors=list(c["req"]), **kw)


def _observe(c):
    """(grid | None, observation).  ValueError is the documented rejection."""
    try:
        g = _quiet(_build, c)
    except ValueError:
        return None, {"ok": False}
    except Exception as e:  # noqa: BLE001
        return None, {"ok": False, "err": type(e).__name__ + ": " + str(e)[:120]}
    try:
        idx = [int(i) for i in np.asarray(g.indices)]
        obs = {"ok": True, "degrees": [int(d) for d in g.degrees], "sizes": [int(b - a) for a, b in zip(idx, idx[1:])],
               "indices": idx}
        if len(g.points) != idx[-1] or len(g.weights) != idx[-1] or g.size != idx[-1]:
            obs["err"] = "number of points differs from the last index"
        return g, obs
    except Exception as e:  # noqa: BLE001
        return None, {"ok": False, "err": "observers: " + type(e).__name__}


def _config_worker(job):
    entries, monomials = job
    from grid.angular import AngularGrid
    out, viol = [], []
    mx = {k: 0.0 for k in _TOL}
    rots = {}

    def bad(kind, c, what, key_extra=""):
        viol.append((f"{kind}:{c['method']}:{c['kind']}:req={c['req']}:n={c['n']}:seed={c['seed']}{key_extra}", what, c))

    for ent in entries:
        c, num = ent["c"], ent["num"]
        g, obs = _observe(c)
        out.append({"c": c, "o": {k: v for k, v in obs.items() if k != "err"} if obs["ok"] else {"ok": False}})
        if "err" in obs:
            bad("build", c, f"constructor/observer problem: {obs['err']}")
        if g is None:
            continue
        if c["kind"].startswith("pruned") and len(c["rgp"]) >= 2:
            # "for every radial grid": the degree of a shell depends on its radius only, not on the order in
            # which the radial nodes are stored - the same nodes listed in descending order
            c2 = dict(c, rgp=list(c["rgp"])[::-1], rgw=list(c["rgw"])[::-1])
            g2, o2 = _observe(c2)
            if not (o2.get("ok") and o2["degrees"] == obs["degrees"][::-1] and o2["sizes"] == obs["sizes"][::-1]):
                bad("shell-order", c, f"with the radial nodes listed in descending order the shells get degrees {o2.get('degrees')} "
                    f"/ sizes {o2.get('sizes')}; listed ascending they get {obs['degrees']} / {obs['sizes']} (must be the reverse)")
        try:
            cen = np.array([float(_fr(q)) for q in c["centre"]])
            pts, wts, idx = np.asarray(g.points), np.asarray(g.weights), obs["indices"]
            g2 = _quiet(_build, c)
            if not (np.array_equal(g2.points, pts) and np.array_equal(g2.weights, wts)):
                bad("reproducible", c, "two constructions with the same arguments (same seed) give different grids")
            c3 = cen + np.array([0.25, -1.5, 3.0])
            g3 = _quiet(_build, c, c3)
            d = float(np.max(np.abs((g3.points - c3) - (pts - cen)))) / (1 + float(np.max(np.abs(c3))))
            mx["translation"] = max(mx["translation"], d)
            if not d <= _TOL["translation"] or not np.array_equal(g3.weights, wts):
                bad("translation", c, f"moving the centre does not only translate the points (deviation {d:.3e}) or changes weights")
            if not np.array_equal(np.asarray(g.center), cen):
                bad("centre", c, f"center attribute {g.center} differs from the requested centre {cen}")
            mono_ok = True
            min_deg = None
            radial_sum_abs = 0.0
            for i in range(c["n"]):
                r = float(_fr(num["radius"][i]))
                fac = float(_fr(num["factor"][i]))
                fac0 = float(_fr(num["factor_nosq"][i]))
                p = pts[idx[i]:idx[i + 1]] - cen
                w = wts[idx[i]:idx[i + 1]]
                ag = _quiet(AngularGrid, degree=obs["degrees"][i], method=c["method"])
                u, wu = np.asarray(ag.points), np.asarray(ag.weights)
                if len(u) != len(p):
                    bad("shell-size", c, f"shell {i}: {len(p)} points, unit grid of degree {obs['degrees'][i]} has {len(u)}")
                    mono_ok = False
                    continue
                d = float(np.max(np.abs(np.linalg.norm(p, axis=1) - r))) / max(1.0, r)
                mx["radii"] = max(mx["radii"], d)
                if not d <= _TOL["radii"]:
                    bad("radii", c, f"shell {i}: distance of the points from the centre deviates from r_i={r} by {d:.3e}", f":shell={i}")
                scale = float(np.max(np.abs(fac * wu))) or 1.0
                d = float(np.max(np.abs(w - fac * wu))) / scale if fac != 0 else float(np.max(np.abs(w)))
                mx["weights"] = max(mx["weights"], d)
                if not d <= _TOL["weights"]:
                    bad("weights", c, f"shell {i}: weights differ from (w_i r_i^2 = {num['factor'][i]}) * angular weights by {d:.3e} (relative)", f":shell={i}")
                # shell grid
                for rsq, f_ in ((True, fac), (False, fac0)):
                    sg = _quiet(g.get_shell_grid, i, r_sq=rsq)
                    dp = float(np.max(np.abs(np.asarray(sg.points) - p))) / max(1.0, r)
                    sc = float(np.max(np.abs(f_ * wu))) or 1.0
                    dw = float(np.max(np.abs(np.asarray(sg.weights) - f_ * wu))) / sc
                    mx["shell"] = max(mx["shell"], dp, dw)
                    if not dp <= _TOL["shell"]:
                        bad("shell-grid-points", c, f"get_shell_grid({i}, r_sq={rsq}).points differ from the shell's points relative to the centre by {dp:.3e}", f":shell={i}")
                    if not dw <= _TOL["shell"]:
                        bad("shell-grid-weights", c, f"get_shell_grid({i}, r_sq={rsq}).weights differ from {'w_i r_i^2' if rsq else 'w_i'} * angular weights by {dw:.3e}", f":shell={i}:r_sq={rsq}")
                if r == 0:
                    if np.any(p != 0):
                        bad("radii", c, f"shell {i} at r=0 has points away from the centre", f":shell={i}")
                    continue
                x = p / r
                d = float(np.max(np.abs(x @ x.T - u @ u.T)))
                mx["gram"] = max(mx["gram"], d)
                if not d <= _TOL["gram"]:
                    bad("orthogonal-image", c, f"shell {i}: (p - c)/r_i is not an orthogonal image of the unit grid (Gram matrices differ by {d:.3e})", f":shell={i}")
                    mono_ok = False
                if c["seed"] == 0:
                    d = float(np.max(np.abs(x - u)))
                    mx["identity"] = max(mx["identity"], d)
                    if not d <= _TOL["identity"]:
                        bad("seed0-identity", c, f"shell {i}: seed 0 must not rotate, points differ from r_i * unit grid by {d:.3e}", f":shell={i}")
                elif len(u) >= 4 and np.linalg.matrix_rank(u) == 3:
                    rot = np.linalg.lstsq(u, x, rcond=None)[0]
                    key = (c["seed"], i)
                    if key in rots:
                        d = float(np.max(np.abs(rot - rots[key][0])))
                        mx["rotation"] = max(mx["rotation"], d)
                        if not d <= _TOL["rotation"]:
                            bad("rotation-depends-only-on-seed-and-shell", c,
                                f"shell {i}, seed {c['seed']}: rotation differs by {d:.3e} from the one found in {rots[key][1]}", f":shell={i}")
                    else:
                        rots[key] = (rot, f"{c['method']} {c['kind']} {c['req']}")
                min_deg = obs["degrees"][i] if min_deg is None else min(min_deg, obs["degrees"][i])
                radial_sum_abs += abs(fac) / (1 + r) ** 2
            # factorised integral consequence
            if mono_ok and min_deg is not None:
                rel = pts - cen
                rr = np.linalg.norm(rel, axis=1)
                mask = rr > 0
                dirs = rel[mask] / rr[mask, None]
                gw = wts[mask] / (1 + rr[mask]) ** 2
                radial = sum(float(_fr(num["factor"][i])) / (1 + float(_fr(num["radius"][i]))) ** 2
                             for i in range(c["n"]) if _fr(num["radius"][i]) != 0)
                for (a, b, cc), q in monomials:
                    if a + b + cc > min_deg:
                        continue
                    val = float(np.sum(gw * dirs[:, 0] ** a * dirs[:, 1] ** b * dirs[:, 2] ** cc))
                    want = 4 * np.pi * float(_fr(q)) * radial
                    d = abs(val - want) / (4 * np.pi * radial_sum_abs)
                    mx["monomial"] = max(mx["monomial"], d)
                    if not d <= _TOL["monomial"]:
                        bad("factorised-integral", c, f"integral of g(r) x^{a} y^{b} z^{cc}/r^{a + b + cc} = {val!r}, radial sum times exact "
                            f"angular integral = {want!r} (relative deviation {d:.3e})", f":monomial={a}{b}{cc}")
            # the same consequence through AtomGrid.integrate, the radial function values G_k(r_i) from TLC
            if mono_ok and "numg" in ent:
                _integral_clauses(g, pts, wts, idx, obs["degrees"], cen, 1.0, [float(_fr(q)) for q in num["radius"]],
                                  [float(_fr(q)) for q in num["factor"]], ent["numg"]["gvals"], monomials, mx,
                                  lambda kind, what, extra="", c=c: bad(kind, c, what, extra), "integrate")
        except Exception as e:  # noqa: BLE001
            bad("observer-raised", c, f"{type(e).__name__}: {e}")
    return out, viol, mx


# ---------------------------------------------------------------------------------------------
# second layer (spec/AtomGridX.tla): order / scale of the radial grid, seed range, presentation of the
# inputs, spelling, table ends, integrals through AtomGrid.integrate, shell requests

_TOLX = {"x-radii": 1e-12, "x-weights": 1e-12, "x-orth": 1e-11, "x-identity": 1e-12, "x-rotation": 1e-11,
         "x-translation": 1e-12, "x-shell": 1e-12, "x-integrate": 1e-10, "x-angular-integrals": 1e-10,
         "integrate": 1e-10}
_DEFFORM = {"req": "list", "centre": "array", "seed": "int", "decoy": 0, "spelling": "lower", "sectors": "list",
            "domain": "halfline"}
_GFUN = [lambda r: 1.0 / (1.0 + r) ** 2, lambda r: 1.0 + 0.5 * r]     # the integrands G_1, G_2 of AtomGridX.tla, in floats
_UNIT = {}


def _seed_int(sr):
    return int(sr[0]) * (int(sr[1]) * 65536 + int(sr[2]))


def _spell(method, how):
    return {"lower": method, "upper": method.upper(), "title": method.title()}[how]


def _unit(method, degree):
    """Unit grid of a degree (public AngularGrid), fetched once per worker and kept as private copies."""
    from grid.angular import AngularGrid
    key = (method, int(degree))
    if key not in _UNIT:
        ag = _quiet(AngularGrid, degree=int(degree), method=method)
        _UNIT[key] = (np.array(ag.points, dtype=float, copy=True), np.array(ag.weights, dtype=float, copy=True))
    return _UNIT[key]


def _xkey(x, extra=""):
    c = x["c"]
    f = ",".join(f"{k}={v}" for k, v in sorted(x["form"].items()) if v != _DEFFORM[k]) or "default"
    return (f"{x['fam']}:{c['method']}:{c['kind']}:req={c['req']}:n={c['n']}:r0={c['rgp'][0]}:sectors={c['sectors']}x{c['radius']}"
            f":scale={x['scale']}:seed={_seed_int(x['seedx'])}:form={f}{extra}")


def _build_x(x, centre=None, form=None):
    """One X case through the public constructors, its inputs presented as x['form'] says."""
    from grid.atomgrid import AtomGrid
    from grid.basegrid import OneDGrid
    c = x["c"]
    form = x["form"] if form is None else form
    s = 2.0 ** int(x["scale"])
    pts = np.array([float(_fr(q)) for q in c["rgp"]]) * s
    wts = np.array([float(_fr(q)) for q in c["rgw"]])
    rg = OneDGrid(pts, wts, (0, np.inf)) if form["domain"] == "halfline" else OneDGrid(pts, wts)
    seed = _seed_int(x["seedx"])
    seed = {"int": seed, "npint": np.int64(seed), "bool": bool(seed)}[form["seed"]]
    kw = dict(rotate=seed, method=_spell(c["method"], form["spelling"]))
    if centre is not None:
        kw["center"] = centre
    elif form["centre"] != "none":
        cq = [_fr(q) for q in c["centre"]]
        kw["center"] = {"array": lambda: np.array([float(q) for q in cq]), "list": lambda: [int(q) for q in cq],
                        "tuple": lambda: tuple(float(q) for q in cq), "intarray": lambda: np.array([int(q) for q in cq])}[form["centre"]]()
    req = {"list": lambda: [int(v) for v in c["req"]], "ndarray": lambda: np.array([int(v) for v in c["req"]]),
           "int32": lambda: np.array([int(v) for v in c["req"]], dtype=np.int32)}[form["req"]]()
    decoy = int(form["decoy"])
    if c["kind"] == "degrees":
        return AtomGrid(rg, degrees=req, **kw), rg
    if c["kind"] == "sizes":
        return (AtomGrid(rg, [decoy], sizes=req, **kw) if decoy else AtomGrid(rg, None, sizes=req, **kw)), rg
    secs, rad = [_fr(q) for q in c["sectors"]], _fr(c["radius"])
    if form["sectors"] == "int":
        secs, rad = [int(q) for q in secs], int(rad)
    else:
        secs, rad = [float(q) for q in secs], float(rad) * s
        if form["sectors"] == "ndarray":
            secs = np.array(secs)
    if c["kind"] == "pruned_d":
        return AtomGrid.from_pruned(rg, rad, r_sectors=secs, d_sectors=req, **kw), rg
    return AtomGrid.from_pruned(rg, rad, r_sectors=secs, d_sectors=[decoy] * len(c["req"]) if decoy else None, s_sectors=req, **kw), rg


def _observe_x(x, **k):
    try:
        g, rg = _quiet(_build_x, x, **k)
    except ValueError:
        return None, None, {"ok": False}
    except Exception as e:  # noqa: BLE001
        return None, None, {"ok": False, "err": type(e).__name__ + ": " + str(e)[:120]}
    try:
        idx = [int(i) for i in np.asarray(g.indices)]
        obs = {"ok": True, "degrees": [int(d) for d in g.degrees], "sizes": [int(b - a) for a, b in zip(idx, idx[1:])],
               "indices": idx}
        if len(g.points) != idx[-1] or len(g.weights) != idx[-1] or g.size != idx[-1]:
            obs["err"] = "number of points differs from the last index"
        return g, rg, obs
    except Exception as e:  # noqa: BLE001
        return None, None, {"ok": False, "err": "observers: " + type(e).__name__}


def _rng_state_equal(a, b):
    return all(np.array_equal(u, v) for u, v in zip(a, b))


def _integral_clauses(g, pts, wts, idx, degrees, cen, s, rad_b, fac_b, gvals, monomials, mx, bad, tag):
    """AtomGrid.integrate / integrate_angular_coordinates against the rational data of the product formula.

    f(x) = G_k(rho) xi^a eta^b zeta^c with (xi, eta, zeta) = (x - centre) / s, rho its length (a polynomial times a
    radial function, defined at the centre too).  rad_b, fac_b: r_i and w_i r_i^2 in units of s (floats of TLC's
    rationals); gvals[k][i]: G_k(r_i) from TLC."""
    n = len(rad_b)
    nz = [i for i in range(n) if rad_b[i] > 0]
    cmax = float(np.max(np.abs(cen)))
    if nz and cmax > 1e3 * s * min(rad_b[i] for i in nz):
        return      # (x - centre) / s has lost the shell: the public points say nothing about radii this small
    xi = (pts - cen) / s
    rho = np.linalg.norm(xi, axis=1)
    min_deg = min((degrees[i] for i in nz), default=None)
    monos = [(t, float(_fr(q))) for t, q in monomials]
    # error budget: a sum of N products, each a few ulp off, errs by <= ~N eps of the absolute sum; 100 x that bound for
    # the largest shell, never below the calibrated 1e-10 (which is >= 10^3 x the measured error of shells up to 1202 points)
    tol = max(_TOLX[tag], 100 * 2.2e-16 * int(np.max(np.diff(idx))))
    for k, gf in enumerate(_GFUN):
        gv = gf(rho)
        gq = [float(_fr(q)) for q in gvals[k]]
        rows, meta = [], []
        for (a, b, cc), sm in monos:
            l = a + b + cc
            mono = xi[:, 0] ** a * xi[:, 1] ** b * xi[:, 2] ** cc
            if l <= max(degrees):
                rows.append(gv * mono)
                meta.append((a, b, cc, sm))
            if min_deg is None or l > min_deg:
                continue
            want = 4 * np.pi * s * s * sm * sum(fac_b[i] * gq[i] * rad_b[i] ** l for i in nz)
            norm = 4 * np.pi * s * s * sum(abs(fac_b[i] * gq[i]) * rad_b[i] ** l for i in nz)
            try:
                val = float(g.integrate(gv, mono))
            except Exception as e:  # noqa: BLE001
                bad("integrate", f"AtomGrid.integrate raised {type(e).__name__}: {e}", f":G{k + 1}:monomial={a}{b}{cc}")
                return
            d = abs(val - want) / norm
            mx[tag] = max(mx.get(tag, 0.0), d)
            if not d <= tol:
                bad("integrate", f"AtomGrid.integrate(G_{k + 1}(r), x^{a} y^{b} z^{cc}) = {val!r}; radial sum times exact angular "
                    f"integral = {want!r} (deviation {d:.3e} of the absolute sum)", f":G{k + 1}:monomial={a}{b}{cc}")
        if tag != "x-integrate" or not rows:
            continue
        try:
            got = np.asarray(g.integrate_angular_coordinates(np.array(rows)))
        except Exception as e:  # noqa: BLE001
            bad("angular-integrals", f"integrate_angular_coordinates raised {type(e).__name__}: {e}", f":G{k + 1}")
            return
        if got.shape != (len(rows), n):
            bad("angular-integrals", f"integrate_angular_coordinates returned shape {got.shape} for {len(rows)} functions on {n} shells", f":G{k + 1}")
            return
        for j, (a, b, cc, sm) in enumerate(meta):
            l = a + b + cc
            for i in range(n):
                if l > degrees[i]:
                    continue
                want = 4 * np.pi * gq[i] * rad_b[i] ** l * sm
                norm = 4 * np.pi * abs(gq[i]) * rad_b[i] ** l
                d = abs(float(got[j, i]) - want) / norm if norm > 0 else (0.0 if got[j, i] == 0 else np.inf)
                mx["x-angular-integrals"] = max(mx.get("x-angular-integrals", 0.0), d)
                if not d <= tol:
                    bad("angular-integrals", f"shell {i}: integrate_angular_coordinates of G_{k + 1}(r) x^{a} y^{b} z^{cc} = {got[j, i]!r}, "
                        f"G(r_i) r_i^l times the exact sphere integral = {want!r}", f":G{k + 1}:monomial={a}{b}{cc}:shell={i}")
                    break


def _xcase_worker(job):
    entries, monomials = job
    from grid.atomgrid import AtomGrid
    from grid.basegrid import OneDGrid
    out, viol, skipped = [], [], 0
    mx = {}
    rots = {}
    accepted = {}

    def spelling_accepted(name):
        if name not in accepted:
            try:
                _quiet(AtomGrid, OneDGrid(np.array([1.0]), np.array([1.0]), (0, np.inf)), degrees=[3], method=name)
                accepted[name] = True
            except Exception:  # noqa: BLE001
                accepted[name] = False
        return accepted[name]

    for ent in entries:
        x, num = ent["x"], ent["num"]
        c, form = x["c"], x["form"]

        def bad(kind, what, key_extra="", x=x):
            viol.append((f"{kind}:{_xkey(x, key_extra)}", what, x))

        if form["spelling"] != "lower" and not spelling_accepted(_spell(c["method"], form["spelling"])):
            skipped += 1        # a spelling the constructor does not know at all names no method
            continue
        g, rg, obs = _observe_x(x)
        out.append({"x": x, "o": {k: v for k, v in obs.items() if k != "err"} if obs["ok"] else {"ok": False},
                    "err": obs.get("err", "")})
        if obs["ok"] and "err" in obs:
            bad("xbuild", f"constructor/observer problem: {obs['err']}")
        if g is None:
            continue
        try:
            n, s, seed, method = c["n"], 2.0 ** int(x["scale"]), _seed_int(x["seedx"]), c["method"]
            cen = np.array([float(_fr(q)) for q in c["centre"]])
            cmax = float(np.max(np.abs(cen)))
            pts, wts, idx = np.array(g.points), np.array(g.weights), obs["indices"]
            rad_b = [float(_fr(q)) for q in num["radius"]]
            fac_b = [float(_fr(q)) for q in num["factor"]]
            rad = [r * s for r in rad_b]
            fac = [f * s * s for f in fac_b]
            fac0 = [float(_fr(q)) for q in num["factor_nosq"]]
            # attributes
            if not (np.array_equal(np.asarray(g.center), cen) and g.rgrid is rg and g.n_shells == n and int(g.rotate) == seed
                    and g.method == method and g.size == idx[-1]):
                bad("attributes", f"center/rgrid/n_shells/rotate/method/size = {g.center}/{g.rgrid is rg}/{g.n_shells}/{g.rotate}/"
                    f"{g.method}/{g.size} do not reflect the constructor arguments")
            # presentation is no input: the canonical presentation gives the same arrays
            if form != _DEFFORM:
                g0, _, o0 = _observe_x(x, form=_DEFFORM)
                if g0 is None or not (np.array_equal(g0.points, pts) and np.array_equal(g0.weights, wts) and o0["indices"] == idx
                                      and o0["degrees"] == obs["degrees"]):
                    bad("presentation", "the grid differs from the one built from the same inputs given as lists / float array / "
                        "Python int / lower-case method")
            # reproducible from the seed alone: independent of, and without effect on, the global generator
            np.random.seed(20240 + seed % 1000)
            st0 = np.random.get_state()
            g2, _, _ = _observe_x(x)
            if seed != 0 and n > 0:
                _quiet(g2.get_shell_grid, 0)
            if not _rng_state_equal(st0, np.random.get_state()):
                bad("global-rng", "constructing the grid / a shell grid advances or reseeds NumPy's global random generator")
            np.random.seed(7)
            if g2 is None or not (np.array_equal(g2.points, pts) and np.array_equal(g2.weights, wts)):
                bad("reproducible", "a second construction with the same arguments (other global random state) gives another grid")
            # translation
            c3 = cen + np.array([0.25, -1.5, 3.0])
            g3, _, _ = _observe_x(x, centre=c3)
            if g3 is None:
                bad("translation", "the same grid cannot be built at another centre")
            else:
                d = float(np.max(np.abs((g3.points - c3) - (pts - cen)))) / (float(np.max(np.abs(c3))) + cmax + max(rad))
                mx["x-translation"] = max(mx.get("x-translation", 0.0), d)
                if not d <= _TOLX["x-translation"] or not np.array_equal(g3.weights, wts):
                    bad("translation", f"moving the centre does not only translate the points (deviation {d:.3e}) or changes weights")
            law_ok = True
            for i in range(n):
                r = rad[i]
                p = pts[idx[i]:idx[i + 1]] - cen
                w = wts[idx[i]:idx[i + 1]]
                u, wu = _unit(method, obs["degrees"][i])
                if len(u) != len(p):
                    bad("shell-size", f"shell {i}: {len(p)} points, unit grid of degree {obs['degrees'][i]} has {len(u)}", f":shell={i}")
                    law_ok = False
                    continue
                lscale = cmax + r
                d = float(np.max(np.abs(np.linalg.norm(p, axis=1) - r))) / lscale if lscale > 0 else float(np.max(np.abs(p)))
                mx["x-radii"] = max(mx.get("x-radii", 0.0), d)
                if not d <= _TOLX["x-radii"]:
                    bad("radii", f"shell {i}: distance of the points from the centre deviates from r_i={r} by {d:.3e} (relative to |c| + r_i)", f":shell={i}")
                    law_ok = False
                sc = float(np.max(np.abs(fac[i] * wu))) or 1.0
                d = float(np.max(np.abs(w - fac[i] * wu))) / sc if fac[i] != 0 else float(np.max(np.abs(w)))
                mx["x-weights"] = max(mx.get("x-weights", 0.0), d)
                if not d <= _TOLX["x-weights"]:
                    bad("weights", f"shell {i}: weights differ from (w_i r_i^2) * angular weights by {d:.3e} (relative)", f":shell={i}")
                    law_ok = False
                # shell grid: explicit r_sq, default r_sq, NumPy integer index, repeated call
                sgs = {}
                for label, call, f_ in (("r_sq=True", lambda: g.get_shell_grid(i, r_sq=True), fac[i]),
                                        ("r_sq=False", lambda: g.get_shell_grid(i, r_sq=False), fac0[i]),
                                        ("default", lambda: g.get_shell_grid(i), fac[i]),
                                        ("np.int64 index", lambda: g.get_shell_grid(np.int64(i)), fac[i]),
                                        ("second call", lambda: g.get_shell_grid(i, r_sq=True), fac[i])):
                    try:
                        sg = _quiet(call)
                    except Exception as e:  # noqa: BLE001
                        bad("shell-grid-points", f"get_shell_grid({i}) [{label}] raised {type(e).__name__}: {e}", f":shell={i}:{label}")
                        continue
                    sgs[label] = sg
                    dp = float(np.max(np.abs(np.asarray(sg.points) - p))) / lscale if lscale > 0 else float(np.max(np.abs(sg.points)))
                    sc = float(np.max(np.abs(f_ * wu))) or 1.0
                    dw = float(np.max(np.abs(np.asarray(sg.weights) - f_ * wu))) / sc
                    mx["x-shell"] = max(mx.get("x-shell", 0.0), dp, dw)
                    if not dp <= _TOLX["x-shell"] or int(sg.degree) != obs["degrees"][i]:
                        bad("shell-grid-points", f"get_shell_grid({i}) [{label}]: points differ from the shell's points relative to the "
                            f"centre by {dp:.3e} (or degree {sg.degree} is not {obs['degrees'][i]})", f":shell={i}:{label}")
                    if not dw <= _TOLX["x-shell"]:
                        bad("shell-grid-weights", f"get_shell_grid({i}) [{label}]: weights differ from "
                            f"{'w_i' if label == 'r_sq=False' else 'w_i r_i^2'} * angular weights by {dw:.3e}", f":shell={i}:{label}")
                if x["fam"] == "form" and form["domain"] == "none" and i == n - 1 and "r_sq=True" in sgs:
                    # a NumPy boolean is a boolean
                    try:
                        sgb = _quiet(g.get_shell_grid, i, r_sq=np.True_)
                        if not np.array_equal(sgb.weights, sgs["r_sq=True"].weights):
                            viol.append((f"shell-grid-weights:r_sq=np.True_:{method}:{c['kind']}:req={c['req']}:shell={i}",
                                         f"get_shell_grid({i}, r_sq=np.True_).weights are not those of get_shell_grid({i}, r_sq=True) "
                                         f"(r_i = {r})", x))
                    except Exception as e:  # noqa: BLE001
                        bad("shell-grid-weights", f"get_shell_grid({i}, r_sq=np.True_) raised {type(e).__name__}", f":shell={i}:np.True_")
                if r == 0:
                    if np.any(p != 0):
                        bad("radii", f"shell {i} at r=0 has points away from the centre", f":shell={i}")
                    continue
                xs = p / r
                amp = 1.0 + cmax / r          # (p - c) / r_i carries the rounding of p = c + r_i u
                if amp > 1e3:
                    continue
                if len(u) >= 4 and np.linalg.matrix_rank(u) == 3:
                    rot = np.linalg.lstsq(u, xs, rcond=None)[0]
                    d = max(float(np.max(np.abs(rot.T @ rot - np.eye(3)))), float(np.max(np.abs(xs - u @ rot))))
                else:
                    rot = None
                    d = float(np.max(np.abs(xs @ xs.T - u @ u.T)))
                mx["x-orth"] = max(mx.get("x-orth", 0.0), d / amp)
                if not d <= _TOLX["x-orth"] * amp:
                    bad("orthogonal-image", f"shell {i}: (p - c)/r_i is not an orthogonal image of the unit grid (residual {d:.3e})", f":shell={i}")
                    law_ok = False
                if seed == 0:
                    d = float(np.max(np.abs(xs - u)))
                    mx["x-identity"] = max(mx.get("x-identity", 0.0), d / amp)
                    if not d <= _TOLX["x-identity"] * amp:
                        bad("seed0-identity", f"shell {i}: seed 0 must not rotate, points differ from r_i * unit grid by {d:.3e}", f":shell={i}")
                elif rot is not None:
                    key = (seed, i)
                    if key in rots:
                        d = float(np.max(np.abs(rot - rots[key][0])))
                        mx["x-rotation"] = max(mx.get("x-rotation", 0.0), d / max(amp, rots[key][2]))
                        if not d <= _TOLX["x-rotation"] * max(amp, rots[key][2]):
                            bad("rotation-depends-only-on-seed-and-shell", f"shell {i}, seed {seed}: rotation differs by {d:.3e} from the "
                                f"one found in {rots[key][1]}", f":shell={i}")
                    else:
                        rots[key] = (rot, _xkey(x), amp)
            # requests for a per-shell grid
            for rq in num["shellreq"]:
                try:
                    _quiet(g.get_shell_grid, int(rq["i"]))
                    served = True
                except ValueError:
                    served = False
                except Exception as e:  # noqa: BLE001
                    served = type(e).__name__
                if served is not bool(rq["ok"]):
                    bad("shell-request", f"get_shell_grid({rq['i']}) on a grid of {n} shells: served = {served}, the specification says {rq['ok']}",
                        f":index={rq['i']}")
            if not (np.array_equal(g.points, pts) and np.array_equal(g.weights, wts)):
                bad("purity", "observing shell grids changed the points or weights of the atomic grid")
            if law_ok:
                _integral_clauses(g, pts, wts, idx, obs["degrees"], cen, s, rad_b, fac_b, num["gvals"], monomials, mx, bad, "x-integrate")
        except Exception as e:  # noqa: BLE001
            bad("observer-raised", f"{type(e).__name__}: {e}")
    return out, viol, mx, skipped


# ---------------------------------------------------------------------------------------------
# presets

def _float_shell_law(g, cen, seed, method):
    """Problems of the per-shell product law on a grid whose radial grid is floating point (presets): radii and
    weights of every shell against r_i, w_i r_i^2 (the shell's own radial node), orthogonal image and
    get_shell_grid on the first / middle / last shells.  Returns (problems, measured maxima)."""
    probs, mx = [], {"preset-radii": 0.0, "preset-weights": 0.0, "preset-orth": 0.0, "preset-shell": 0.0}
    rp, rw = np.asarray(g.rgrid.points, dtype=float), np.asarray(g.rgrid.weights, dtype=float)
    idx, degs = np.asarray(g.indices), [int(d) for d in g.degrees]
    pts, wts = np.asarray(g.points) - cen, np.asarray(g.weights)
    n = len(rp)
    if len(idx) != n + 1 or len(degs) != n or idx[-1] != len(wts) or len(pts) != len(wts):
        return ["index table / degrees do not describe one shell per radial node"], mx
    cmax = float(np.max(np.abs(cen)))
    pick = {0, 1, n // 2, n - 2, n - 1}
    for i in range(n):
        u, wu = _unit(method, degs[i])
        sl = slice(int(idx[i]), int(idx[i + 1]))
        if len(u) != idx[i + 1] - idx[i]:
            probs.append(f"shell {i}: {idx[i + 1] - idx[i]} points, unit grid of degree {degs[i]} has {len(u)}")
            continue
        r = float(rp[i])
        fac = float(rw[i]) * r * r
        d = float(np.max(np.abs(np.linalg.norm(pts[sl], axis=1) - r))) / (cmax + r)
        mx["preset-radii"] = max(mx["preset-radii"], d)
        if not d <= 1e-12:
            probs.append(f"shell {i}: radii deviate from r_i by {d:.3e}")
        d = float(np.max(np.abs(wts[sl] - fac * wu))) / float(np.max(np.abs(fac * wu)))
        mx["preset-weights"] = max(mx["preset-weights"], d)
        if not d <= 1e-12:
            probs.append(f"shell {i}: weights deviate from w_i r_i^2 W by {d:.3e}")
        if i not in pick or r <= 0:
            continue
        xs, amp = pts[sl] / r, 1.0 + cmax / r
        if seed == 0:
            d = float(np.max(np.abs(xs - u)))
        elif len(u) >= 4:
            rot = np.linalg.lstsq(u, xs, rcond=None)[0]
            d = max(float(np.max(np.abs(rot.T @ rot - np.eye(3)))), float(np.max(np.abs(xs - u @ rot))))
        else:
            d = float(np.max(np.abs(xs @ xs.T - u @ u.T)))
        mx["preset-orth"] = max(mx["preset-orth"], d / amp)
        if not d <= 1e-11 * amp:
            probs.append(f"shell {i}: not {'the unit grid' if seed == 0 else 'an orthogonal image of the unit grid'} (residual {d:.3e})")
        sg = _quiet(g.get_shell_grid, i)
        d = max(float(np.max(np.abs(np.asarray(sg.points) - pts[sl]))) / (cmax + r),
                float(np.max(np.abs(np.asarray(sg.weights) - fac * wu))) / float(np.max(np.abs(fac * wu))))
        mx["preset-shell"] = max(mx["preset-shell"], d)
        if not d <= 1e-12:
            probs.append(f"shell {i}: get_shell_grid differs from the shell by {d:.3e}")
    return probs[:3], mx


def preset_tables():
    """{preset: {z: (kind, rad, npt)}} straight from the npz files."""
    out = {}
    for f in sorted(DATA.glob("prune_grid_*.npz")):
        name = f.stem[len("prune_grid_"):]
        d = np.load(f)
        zs = sorted({int(k.split("_")[0]) for k in d.keys() if k.split("_")[0].isdigit()})
        out[name] = {}
        for z in zs:
            rad, npt = d[f"{z}_rad"], d[f"{z}_npt"]
            kind = "counts" if np.issubdtype(rad.dtype, np.integer) else "radii"
            out[name][z] = (kind, rad, npt)
    return out


TRANSLATE = {}
EXTRA = []
PMAX = {}
_MORE_METHODS = (("maxdet", 6, 2), ("ahrens_beylkin", 5, 3))   # (method, Z % 7 for counts tables, Z % 5 for radii tables)


def _preset_worker(job):
    TRANSLATE.clear()
    EXTRA.clear()
    PMAX.clear()
    from grid.atomgrid import AtomGrid, _get_rgrid_size
    from grid.basegrid import OneDGrid
    from grid.utils import _DEFAULT_POWER_RTRANSFORM_PARAMS as DEF
    name, items = job
    entries = []
    for z, kind, rad, npt in items:
        variants = []

        def build(rg, method="lebedev"):
            try:
                g = _quiet(AtomGrid.from_preset, int(z), name, rg, method=method)
                idx = np.asarray(g.indices)
                o = {"ok": True, "sizes": [int(x) for x in np.diff(idx)], "degrees": [int(x) for x in g.degrees]}
                # centre and rotation seed reach every branch of the preset constructor: "moving the centre
                # only translates the points" and "rotation changes neither radii nor weights"
                c = np.array([0.3, -1.2, 0.7])
                ga = _quiet(AtomGrid.from_preset, int(z), name, rg, center=c, rotate=5, method=method)
                gb = _quiet(AtomGrid.from_preset, int(z), name, rg, rotate=5, method=method)
                sc = float(np.max(np.abs(gb.points))) + 1.0
                tr = bool(np.array_equal(np.asarray(ga.center), c) and ga.points.shape == gb.points.shape
                          and np.allclose(ga.points - c, gb.points, rtol=0, atol=1e-12 * sc)
                          and np.array_equal(ga.weights, gb.weights) and np.array_equal(ga.indices, g.indices)
                          and np.allclose(np.sort(ga.weights), np.sort(g.weights), rtol=1e-12, atol=0)
                          and np.allclose(np.linalg.norm(gb.points, axis=1), np.linalg.norm(g.points, axis=1), rtol=1e-12, atol=1e-12))
                TRANSLATE[(name, int(z), method)] = TRANSLATE.get((name, int(z), method), True) and tr   # every variant must pass
                # the product law itself on the preset-built grids (floating-point radial grid)
                for gg, cc, sd, lab in ((g, np.zeros(3), 0, "origin"), (ga, c, 5, "centre+rotate=5")):
                    pr, m_ = _float_shell_law(gg, cc, sd, method)
                    for k_, v_ in m_.items():
                        PMAX[k_] = max(PMAX.get(k_, 0.0), v_)
                    if pr or (rg is not None and gg.rgrid is not rg):
                        EXTRA.append((f"preset:{name}:Z={int(z)}:shell-law:{method}:{lab}",
                                      f"AtomGrid.from_preset({int(z)}, {name!r}, method={method!r}) [{lab}] is not the product of its radial "
                                      f"grid and per-shell spheres: {pr or 'rgrid attribute is not the given radial grid'}"))
                return g, o
            except Exception as e:  # noqa: BLE001
                return None, {"ok": False, "err": type(e).__name__}

        if kind == "counts":
            n = int(np.sum(rad))
            try:
                rs = _quiet(_get_rgrid_size, name, int(z))
                rsize = int(rs[0])
            except Exception:  # noqa: BLE001
                rsize = -2
            # radii from 0.03 to far beyond every count value: a counts table mistaken for sector radii
            # would assign different sizes (or fail) on such a grid
            rg = OneDGrid(0.03 * 1.2 ** np.arange(max(n, 1)), np.full(max(n, 1), 0.11), (0, np.inf))
            _, o = build(rg)
            variants.append({"variant": "prescribed", "method": "lebedev", "shells": [], "nshell": n, "rsize": rsize, "o": o})
            if int(z) % 7 == 1 and max(npt) <= 1000:  # a few elements also with another angular family
                _, o = build(rg, "spherical")
                variants.append({"variant": "prescribed-spherical", "method": "spherical", "shells": [], "nshell": n, "rsize": rsize, "o": o})
            for meth, z7, _ in _MORE_METHODS:
                if int(z) % 7 == z7 and max(npt) <= 1000:
                    _, o = build(rg, meth)
                    variants.append({"variant": "prescribed-" + meth, "method": meth, "shells": [], "nshell": n, "rsize": rsize, "o": o})
            entries.append({"z": int(z), "kind": kind, "rad": [int(x) for x in rad], "npt": [int(x) for x in npt],
                            "variants": variants})
            continue
        rad = np.asarray(rad, dtype=float)
        mids = (rad[:-1] + rad[1:]) / 2 if len(rad) > 1 else np.array([])
        custom = np.unique(np.concatenate([[rad[0] / 2, rad[0] / 4], rad, mids, [rad[-1] * 2, rad[-1] * 3]]))
        shells = {"custom": custom}
        grids = {"custom": OneDGrid(custom, np.full(len(custom), 0.1), (0, np.inf))}
        obs = {}
        _, obs["custom"] = build(grids["custom"])
        if int(z) in DEF:
            g, obs["default"] = build(None)
            if g is not None:
                shells["default"] = np.asarray(g.rgrid.points, dtype=float)
            else:
                shells["default"] = np.array([])
        if int(z) % 5 == 1:  # a few elements also with another angular family
            shells["custom-spherical"] = custom
            _, obs["custom-spherical"] = build(grids["custom"], "spherical")
        if int(z) % 3 == 0:  # the sector of a node does not depend on where it stands in the radial grid
            shells["custom-lebedev-reversed"] = custom[::-1]
            _, obs["custom-lebedev-reversed"] = build(OneDGrid(custom[::-1].copy(), np.full(len(custom), 0.1), (0, np.inf)))
        for meth, _, z5 in _MORE_METHODS:
            if int(z) % 5 == z5:
                shells["custom-" + meth] = custom
                _, obs["custom-" + meth] = build(grids["custom"], meth)
        joint = np.unique(np.concatenate([rad] + list(shells.values())))
        for v in shells:
            variants.append({"variant": v, "method": v.split("-")[1] if v.startswith("custom-") else "lebedev",
                             "shells": [int(x) for x in np.searchsorted(joint, shells[v])],
                             "nshell": int(len(shells[v])), "rsize": -1, "o": obs[v]})
        entries.append({"z": int(z), "kind": kind, "rad": [int(x) for x in np.searchsorted(joint, rad)],
                        "npt": [int(x) for x in npt], "variants": variants})
    # the radial size for a list of elements is the list of the sizes; a NumPy integer is an atomic number
    zs = [int(z) for z, kind, _, _ in items if kind == "counts"]
    if zs:
        try:
            lst = [int(v) for v in _quiet(_get_rgrid_size, name, zs)]
            one = [int(_quiet(_get_rgrid_size, name, z)[0]) for z in zs]
        except Exception as e:  # noqa: BLE001
            lst, one = None, type(e).__name__
        if lst != one:
            EXTRA.append((f"preset:{name}:rgrid_size-list:Z={zs}", f"_get_rgrid_size({name!r}, {zs}) = {lst}, one element at a time: {one}"))
    for z, kind, rad, npt in items[:2]:
        malformed = (len(npt) != len(rad)) if kind == "counts" else (len(npt) != len(rad) + 1)
        if malformed:
            continue
        nn = int(np.sum(rad)) if kind == "counts" else 7
        rg = OneDGrid(0.05 * 1.3 ** np.arange(nn), np.full(nn, 0.2), (0, np.inf))
        try:
            ga = _quiet(AtomGrid.from_preset, int(z), name, rg, rotate=3)
            gb = _quiet(AtomGrid.from_preset, np.int64(z), name, rg, rotate=3)
            same = bool(np.array_equal(ga.points, gb.points) and np.array_equal(ga.weights, gb.weights) and np.array_equal(ga.indices, gb.indices))
        except Exception as e:  # noqa: BLE001
            same = type(e).__name__
        if same is not True:
            EXTRA.append((f"preset:{name}:Z={int(z)}:numpy-atnum", f"AtomGrid.from_preset(np.int64({int(z)}), {name!r}, rgrid) differs from / fails unlike "
                          f"from_preset({int(z)}, ...): {same}"))
    return name, entries, [[k[0], k[1], k[2], v] for k, v in TRANSLATE.items()], list(EXTRA), dict(PMAX)


def _report_some(rep, items, counter_name):
    seen = {}
    for key, what, case in items:
        cat = key.split(":")[0]
        seen[cat] = seen.get(cat, 0) + 1
        if seen[cat] <= MAX_REPORT:
            rep.violation(key, what, case)
    if seen:
        rep.set(counter_name, seen)


def run(tier: str) -> int:
    rep = Report(PROP, tier, "model_checking")
    rng = np.random.default_rng(rep.seed)
    wd = tlc.scratch(f"{PROP}-{tier}")
    quick = tier == "quick"
    import os, sys, time
    t0 = time.time()

    def lap(what):
        if os.environ.get("C05_TIMING"):
            print(f"  [C05 timing] {what}: {time.time() - t0:.1f}s", file=sys.stderr, flush=True)
    extract.write_tables_angular(wd, extract.angular_tables())
    write_tables(wd, 4 if quick else 5)

    # ---- 2. index loop, laws, emission ---------------------------------------------------------
    # (AtomGridX EXTENDS AtomGrid: the same machine and invariants plus the laws / cases of the second layer)
    res = tlc.run_tlc("AtomGridX", "MC_AtomGridXIdx.cfg", wd, workers=8, timeout=900).require_ok("MC_AtomGridXIdx")
    rep.tlc(res, "MC_AtomGridIdx")
    lap("TLC idx/emit")
    for t in tlc.tagged(res.stdout, "LAWFAIL"):
        rep.violation(f"model:law:{t[1]}", f"TLC: law {t[1]} of spec/AtomGrid.tla is false")
    if res.status == "violation":
        st = tlc.last_state(res)
        rep.violation(f"model:{','.join(res.violated)}", f"TLC: invariant(s) {res.violated} violated; last state {st}", st)
    try:
        configs = json.load(open(wd / "atomgrid_configs.json"))
        monomials = json.load(open(wd / "atomgrid_monomials.json"))
        xcases = json.load(open(wd / "atomgrid_xcases.json"))
        gvals = {json.dumps(e["rgp"]): e["num"] for e in json.load(open(wd / "atomgrid_gvals.json"))}
    except FileNotFoundError as e:
        raise tlc.MachineryError(f"TLC did not emit {e.filename}")
    configs.sort(key=lambda e: json.dumps(e["c"], sort_keys=True))
    for e in configs:
        e["numg"] = gvals[json.dumps(e["c"]["rgp"])]
    if quick:
        pick = sorted(rng.choice(len(configs), size=300, replace=False).tolist())
        configs = [configs[i] for i in pick]
    xcases.sort(key=lambda e: json.dumps(e["x"], sort_keys=True))
    if quick:   # the big families are sampled, the small ones (seeds, presentation, spelling, table ends) run whole
        keep = []
        for fam, k in (("order", 160), ("scale", 60)):
            ids = [i for i, e in enumerate(xcases) if e["x"]["fam"] == fam]
            keep += rng.choice(ids, size=min(k, len(ids)), replace=False).tolist()
        keep += [i for i, e in enumerate(xcases) if e["x"]["fam"] not in ("order", "scale")]
        xcases = [xcases[i] for i in sorted(keep)]

    pool = mp.get_context("fork").Pool(8)
    try:
        # ---- 3. structural replay ----------------------------------------------------------------
        # configurations of one (seed) stay in one worker per slice so that rotations can be compared
        jobs = [(configs[i::32], monomials) for i in range(32)]
        cfgobs, viol = [], []
        mx = {}
        for out, vi, m_ in pool.imap_unordered(_config_worker, jobs):
            cfgobs += out
            viol += vi
            for k, v in m_.items():
                mx[k] = max(mx.get(k, 0.0), v)
        cfgobs.sort(key=lambda e: json.dumps(e["c"], sort_keys=True))
        _report_some(rep, sorted(viol, key=lambda t: t[0]), "structural_violations")
        for e in cfgobs:
            c = e["c"]
            rep.evaluated(1, ("config", c["method"], c["kind"], tuple(c["req"]), c["n"], json.dumps(c["sectors"]), json.dumps(c["rgp"][0])))
        with open(wd / "cfgobs.json", "w") as f:
            json.dump(cfgobs, f)

        lap("structural replay")
        # ---- 3b. second layer: cases of AtomGridX.tla -------------------------------------------
        big = [e for e in xcases if e["x"]["fam"] == "bounds"]      # a few of these have 10^4 - 10^5 points: spread them
        rest = [e for e in xcases if e["x"]["fam"] != "bounds"]
        jobs = [(rest[i::24] + big[i::24], monomials) for i in range(24)]
        xobs, xviol, xskipped = [], [], 0
        for out, vi, m_, sk in pool.imap_unordered(_xcase_worker, jobs):
            xobs += out
            xviol += vi
            xskipped += sk
            for k, v in m_.items():
                mx[k] = max(mx.get(k, 0.0), v)
        xobs.sort(key=lambda e: json.dumps(e["x"], sort_keys=True))
        _report_some(rep, sorted(xviol, key=lambda t: t[0]), "second_layer_violations")
        for e in xobs:
            rep.evaluated(1, ("xcase", _xkey(e["x"])))
        with open(wd / "xobs.json", "w") as f:
            json.dump([{"x": e["x"], "o": e["o"]} for e in xobs], f)

        lap("second layer")
        # ---- 4. presets --------------------------------------------------------------------------
        tabs = preset_tables()
        quick_z = {1, 6, 7, 8, 14, 15, 19, 20, 26, 36}
        jobs = []
        for name, t in tabs.items():
            items = [(z, *t[z]) for z in sorted(t) if not quick or z in quick_z]
            for i in range(0, len(items), 12):
                jobs.append((name, items[i:i + 12]))
        pres = {name: [] for name in tabs}
        translate_bad, preset_extra = [], []
        for name, ents, trs, extra, pm in pool.imap_unordered(_preset_worker, jobs):
            pres[name] += ents
            translate_bad += [t for t in trs if not t[3]]
            preset_extra += extra
            for k, v in pm.items():
                mx[k] = max(mx.get(k, 0.0), v)
    finally:
        pool.close()
        pool.join()
    lap("presets")
    presets = [{"name": n, "entries": sorted(pres[n], key=lambda e: e["z"])} for n in sorted(pres)]
    npairs = 0
    for p in presets:
        for e in p["entries"]:
            for v in e["variants"]:
                npairs += 1
                rep.evaluated(1, ("preset", p["name"], e["z"], v["variant"]))
                v["o"] = {k: x for k, x in v["o"].items()}
    with open(wd / "presets.json", "w") as f:
        json.dump(presets, f)
    write_tables(wd, 4 if quick else 5, "cfgobs.json", "presets.json", "xobs.json")

    res = tlc.run_tlc("AtomGridX", "MC_AtomGridXCfg.cfg", wd, workers=8, timeout=900).require_ok("MC_AtomGridXCfg")
    rep.tlc(res, "MC_AtomGridCfg")
    lap("TLC cfg")
    if res.status == "violation":
        st = tlc.last_state(res)
        rep.violation(f"model:{','.join(res.violated)}", f"TLC: invariant(s) {res.violated} violated while judging configurations; last state {st}", st)
    items = []
    for _, c, exp, got in tlc.tagged(res.stdout, "MISMATCH"):
        items.append((f"structure:{c['method']}:{c['kind']}:req={c['req']}:n={c['n']}:sectors={c['sectors']}:radius={c['radius']}",
                      f"AtomGrid built for {c['kind']}={c['req']} (method {c['method']}, {c['n']} shells, radii {c['rgp']}, "
                      f"sectors {c['sectors']} x {c['radius']}): specification expects {exp}, observed {got} ([ok |-> FALSE] = ValueError)",
                      {"config": c, "expected": exp, "observed": got}))
    _report_some(rep, items, "structure_mismatches")
    items = []
    errs = {_xkey(e["x"]): e.get("err", "") for e in xobs}
    for _, x, exp, got in tlc.tagged(res.stdout, "XMISMATCH"):
        c = x["c"]
        outcome = "rejected" if not got.get("ok") else "built"
        items.append((f"xstructure-{_xkey(x)}:observed={outcome}",
                      f"AtomGrid for {c['kind']}={c['req']} (method {c['method']}, radii {c['rgp']} x 2^{x['scale']}, sectors {c['sectors']} x "
                      f"{c['radius']}, seed {_seed_int(x['seedx'])}, presentation {x['form']}): specification expects {exp}, observed {got} "
                      f"([ok |-> FALSE] = rejected{'; ' + errs.get(_xkey(x), '') if errs.get(_xkey(x)) else ''})",
                      {"case": x, "expected": exp, "observed": got}))
    _report_some(rep, items, "second_layer_structure_mismatches")

    res = tlc.run_tlc("AtomGrid", "MC_AtomGridPre.cfg", wd, workers=8, timeout=900).require_ok("MC_AtomGridPre")
    rep.tlc(res, "MC_AtomGridPre")
    lap("TLC pre")
    if res.status == "violation":
        st = tlc.last_state(res)
        rep.violation(f"model:{','.join(res.violated)}", f"TLC: invariant(s) {res.violated} violated on the preset tables; last state {st}", st)
    for _, what, name, z in tlc.tagged(res.stdout, "TABLEFAIL"):
        t = tabs[name][z]
        rep.violation(f"preset:{name}:Z={z}:{what}",
                      f"preset table {name} for Z={z}: law {what} is false (kind {t[0]}, rad={t[1].tolist()}, npt={t[2].tolist()})",
                      {"preset": name, "Z": z, "rad": t[1], "npt": t[2]})
    for _, name, z, variant, exp, got in tlc.tagged(res.stdout, "PRESETMISMATCH"):
        rep.violation(f"preset:{name}:Z={z}:build:{variant}",
                      f"AtomGrid.from_preset({z}, {name!r}) [{variant}]: specification expects {str(exp)[:300]}, observed {str(got)[:300]}",
                      {"preset": name, "Z": z, "variant": variant, "expected": exp, "observed": got})
    notes = tlc.tagged(res.stdout, "PRESETNOTE")
    # a malformed table must not silently build something: report the observation next to the table law
    for p in presets:
        for e in p["entries"]:
            for v in e["variants"]:
                t = tabs[p["name"]][e["z"]]
                malformed = (len(t[2]) != len(t[1])) if t[0] == "counts" else (len(t[2]) != len(t[1]) + 1)
                if malformed and not v["o"]["ok"]:
                    rep.violation(f"preset:{p['name']}:Z={e['z']}:build:{v['variant']}",
                                  f"AtomGrid.from_preset({e['z']}, {p['name']!r}) raises {v['o'].get('err')}: the table is malformed "
                                  f"(rad={t[1].tolist()}, npt={t[2].tolist()})", {"preset": p["name"], "Z": e["z"]})
    for n in notes:
        rep.violation(f"preset:{n[1]}:Z={n[2]}:build:{n[3]}", f"from_preset builds a grid from a malformed table: {n}")
    for pname, z, method, _ in sorted(translate_bad):
        rep.violation(f"preset:{pname}:Z={z}:centre-rotation:{method}",
                      f"AtomGrid.from_preset({z}, {pname!r}, center=c, rotate=5, method={method!r}) is not the translate by c of the grid "
                      f"built at the origin with the same seed (centre attribute, points, weights, radii or index table differ)",
                      {"preset": pname, "Z": z, "method": method})

    for key, what in sorted(set(preset_extra)):
        rep.violation(key, what)

    rep.set("configurations", len(cfgobs))
    rep.set("second_layer_cases", len(xobs))
    rep.set("second_layer_spellings_unknown_to_the_constructor", xskipped)
    rep.set("preset_pairs_built", npairs)
    rep.set("max_deviation_measured", {k: float(f"{v:.3e}") for k, v in sorted(mx.items())})
    rep.set("tolerances", {**_TOL, **_TOLX})
    rep.set("traces_validated_against_impl", rep.evaluations)
    rep.set("exhaustive", not quick)
    rep.set("rule", "one case = one emitted configuration / second-layer case built through the public constructor (TLC judges "
                    "degrees/sizes/indices, harness checks every shell numerically) or one (preset, element, radial grid) build judged by TLC")
    rep.sample(cfgobs[len(cfgobs) // 2])
    rep.sample({"preset": presets[0]["name"], "entry": presets[0]["entries"][0]})
    rep.assume("the unit angular grid U, W of a degree is taken from the public AngularGrid (its exactness is C02, its selection C12)")
    rep.assume("the rotation matrix is opaque: only orthogonality (Gram matrices), reproducibility and dependence on (seed, shell) are checked")
    rep.assume("admissible rotation seeds are the documented range 0 <= s < 2^32 - N; NumPy integers and method names in another case "
               "that the constructor accepts for degrees denote the same seed / method for every kind of request")
    return rep.finish()


def replay(path: str) -> int:
    with open(path) as f:
        v = json.load(f)
    import os
    os.environ["VERIF_SEED"] = str(v.get("seed", 0))
    print("replay: rerunning the recorded tier; recorded violation:", v.get("key"))
    return run(v.get("tier", "quick"))


MUTANTS = [
    ("weights: r instead of r^2", "grid.atomgrid", "weights = weights * rgrid[i].weights * rgrid[i].points ** 2",
     "weights = weights * rgrid[i].weights * rgrid[i].points"),
    ("indices: off by one", "grid.atomgrid", "indices[i + 1] = indices[i] + len(points)", "indices[i + 1] = indices[i] + len(points) - (i == 1)"),
    ("rotation: other seed rule in the constructor", "grid.atomgrid", "rot_mt = R.random(random_state=rotate + i).as_matrix()",
     "rot_mt = R.random(random_state=rotate + i + 1).as_matrix()"),
    ("rotation: scaled (not orthogonal)", "grid.atomgrid", "points = points @ rot_mt", "points = points @ (rot_mt * (1 + 1e-7))"),
    ("sector: >= at boundaries", "grid.atomgrid", "radial_points[:, None] > r_sectors[None, :]", "radial_points[:, None] >= r_sectors[None, :]"),
    ("pruned: radius not applied", "grid.atomgrid", "r_sectors = np.array(r_sectors) * radius", "r_sectors = np.array(r_sectors)"),
    ("preset: branch condition atnum > 19", "grid.atomgrid", 'elif preset == "sg_1" and atnum > 18:', 'elif preset == "sg_1" and atnum > 19:'),
    ("preset: sizes converted with the default method", "grid.atomgrid",
     "degs = AngularGrid.convert_angular_sizes_to_degrees(npt, method=method)", "degs = AngularGrid.convert_angular_sizes_to_degrees(npt, method=\"lebedev\")"),
    ("preset: counts expanded one short", "grid.atomgrid",
     "sector_sizes = [npt[idx] for idx in range(len(rad)) for _ in range(rad[idx])]\n            return cls(rgrid, None, sizes=sector_sizes, center=center, rotate=rotate, method=method)\n        elif",
     "sector_sizes = [npt[min(idx + (rad[idx] > 40), len(npt) - 1)] for idx in range(len(rad)) for _ in range(rad[idx])]\n            return cls(rgrid, None, sizes=sector_sizes, center=center, rotate=rotate, method=method)\n        elif"),
    ("centre added twice", "grid.atomgrid", "return self._points + self._center", "return self._points + 2 * self._center"),
    ("shell grid: r instead of r^2", "grid.atomgrid", "wts = wts * self.rgrid[index].points ** 2", "wts = wts * self.rgrid[index].points"),
    ("shell grid: transposed rotation", "grid.atomgrid", "pts = pts.dot(rot_mt)", "pts = pts.dot(rot_mt.T)"),
    ("rgrid size: sg_1 table ignored", "grid.atomgrid", 'if preset_grid == "sg_1":\n                rad = data["r_points"]', 'if preset_grid == "sg_1":\n                rad = data["r_points"] + (at_num == 20)'),
    ("sizes: converted with the default method", "grid.atomgrid",
     "degrees = AngularGrid.convert_angular_sizes_to_degrees(sizes, method=method)",
     "degrees = AngularGrid.convert_angular_sizes_to_degrees(sizes, method=\"lebedev\")"),
    ("pruned sizes: converted with the default method", "grid.atomgrid",
     "d_sectors = AngularGrid.convert_angular_sizes_to_degrees(s_sectors, method)",
     "d_sectors = AngularGrid.convert_angular_sizes_to_degrees(s_sectors, \"lebedev\")"),
    # ---- second layer (spec/AtomGridX.tla) -------------------------------------------------------------------------
    ("X integrate: own override, off by 1e-6", "grid.atomgrid", "    @property\n    def rgrid(self):",
     "    def integrate(self, *value_arrays):\n        return super().integrate(*value_arrays) * (1 + 1e-6)\n\n    @property\n    def rgrid(self):"),
    ("X angular integrals: divided by r w", "grid.atomgrid", "radial_coefficients /= self.rgrid.points**2 * self.rgrid.weights",
     "radial_coefficients /= self.rgrid.points * self.rgrid.weights"),
    ("X angular integrals: tiny radii halved", "grid.atomgrid",
     "values = func_vals[..., self.indices[i] : self.indices[i + 1]] * agrid.weights",
     "values = func_vals[..., self.indices[i] : self.indices[i + 1]] * agrid.weights * 0.5"),
    ("X centre: default is not the origin", "grid.atomgrid",
     "center = np.zeros(3, dtype=float) if center is None else np.asarray(center, dtype=float)",
     "center = np.full(3, 1e-6) if center is None else np.asarray(center, dtype=float)", 0),
    ("X sizes lose against degrees", "grid.atomgrid", "if sizes is not None:", "if sizes is not None and degrees is None:"),
    ("X s_sectors lose against d_sectors", "grid.atomgrid", "if s_sectors is not None:", "if s_sectors is not None and d_sectors is None:"),
    ("X shell grid: r_sq defaults to False", "grid.atomgrid", "def get_shell_grid(self, index: int, r_sq: bool = True):",
     "def get_shell_grid(self, index: int, r_sq: bool = False):"),
    ("X shell grid: negative index served", "grid.atomgrid", "if not (0 <= index < len(self.degrees)):",
     "if not (-len(self.degrees) <= index < len(self.degrees)):"),
    ("X seed range ends at 2^31", "grid.atomgrid", "(not 0 <= rotate < 2**32 - len(rgrid.points))", "(not 0 <= rotate < 2**31 - len(rgrid.points))"),
    ("X rotation drawn from the global generator", "grid.atomgrid", "rot_mt = R.random(random_state=rotate + i).as_matrix()",
     "np.random.seed(rotate + i)\n                rot_mt = R.random().as_matrix()"),
    ("X radial nodes sorted inside", "grid.atomgrid", "points = points * rgrid[i].points", "points = points * np.sort(rgrid.points)[i]"),
    ("X shell grid: tiny radii are zero", "grid.atomgrid", "pts = pts * self.rgrid[index].points",
     "pts = pts * np.where(self.rgrid[index].points > 1e-10, self.rgrid[index].points, 0.0)"),
    ("X sectors compared after rounding", "grid.atomgrid", "position = np.sum(radial_points[:, None] > r_sectors[None, :], axis=1)",
     "position = np.sum(np.round(radial_points, 9)[:, None] > np.round(r_sectors, 9)[None, :], axis=1)"),
    ("X largest degree rejected", "grid.angular", "if degree < 0 or degree > max_degree:", "if degree < 0 or degree >= max_degree:"),
    ("X one-element array not broadcast", "grid.atomgrid", "if len(degrees) == 1:", "if isinstance(degrees, list) and len(degrees) == 1:"),
    ("X rgrid size: list truncated", "grid.atomgrid", "for at_num in atnums:", "for at_num in atnums[:1]:"),
    ("X preset: NumPy atomic number", "grid.atomgrid", 'rad = data[f"{atnum}_rad"]', 'rad = data[f"{atnum!r}_rad"]'),
    ("X preset: radial weights perturbed", "grid.atomgrid",
     "return cls(rgrid, None, sizes=sector_sizes, center=center, rotate=rotate, method=method)",
     "return cls(OneDGrid(rgrid.points, rgrid.weights * (1 + 1e-9), rgrid.domain), None, sizes=sector_sizes, center=center, rotate=rotate, method=method)", 0),
]


def selftest(tier: str) -> int:
    from ..mutate import run_mutants
    return run_mutants(PROP, run, tier, MUTANTS)
