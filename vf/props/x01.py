"""X01 - error paths are part of the model (growth of the specification, DESIGN.md section 11 item 1).

Flow
 1. TLC enumerates spec/ErrorPaths.tla: every (entry point, abstract argument) pair, checking the laws of the
    table itself (every validation clause is the deciding clause of some argument, every entry point accepts
    something, what the docstring calls valid is never rejected) and printing one CASE line per pair.
 2. The harness builds concrete calls for every CASE (``BUILD[op](a, rng)``), runs them on the real library and
    records: raised?, the exception class (with its ancestors), the first observable attribute of the receiver /
    caller buffer that is not bit-identical after the call, and how many entries the module-level caches gained.
 3. TLC judges the observations (spec/ErrorPathsJudge.tla): raised <=> Rejects, the class, atomic failure,
    purity of accepted non-mutating calls, cache accounting, completeness (one observation per case at least).
 4. Setter state machine (spec/ErrorPathsSys.tla): TLC generates every behaviour of length GenLen that interleaves
    accepted and rejected assignments / calls on ONE object; each is replayed on real Grid / OneDGrid /
    PeriodicGrid / AtomGrid / transform objects, and the recorded traces are judged by TLC (ErrorPathsTrace).

Python never decides whether a call should raise: it only builds arguments and encodes what happened.

Left out of the judged set on purpose (code and documentation disagree, or the behaviour looks accidental; reproducers in
the builder comments / the report of the module): empty `sizes` with an unsupported method in the converter; upper-case
method names on the sizes / from_pruned routes (the degrees route lower-cases them); ExpRTransform(rmin=0); HandyModRTransform
with rmax == rmin; transform_1d_grid of a OneDGrid without domain; moments(orders=list); MultiDomainGrid(num_domains=1);
1-D PeriodicGrid lattice "vectors" that are zero or have two elements; molgrid[-1] with store=False (C07's known finding);
func_vals of length 1 in integrate_angular_coordinates (broadcasts); module-cache gains of a rejected AtomGrid constructor
whose first shells were valid (AngularGrid caches them before a later shell is rejected).
Fixtures of ACCEPTED cases are chosen where the code behind the argument check is regular (e.g. HandyModRTransform with
m = 1: for rmax - rmin < 2^m - 1 its formula has a pole inside (-1, 1)); outcome stability of every case was measured over
VERIF_SEED = 0..23 (no case changes its outcome with the seed).
"""
from __future__ import annotations

import json
import random
import warnings

import numpy as np

from .. import tlc
from ..evidence import Report

PROP = "X01"


# --------------------------------------------------------------------------------------------
# observation machinery

def _sig(x):
    a = np.asarray(x)
    if a.dtype == object:
        return ("obj", repr(x))
    return (a.dtype.str, a.shape, a.tobytes())


def _value_sig(v, depth=0):
    from grid.basegrid import Grid
    if v is None or isinstance(v, (bool, int, float, str, complex, np.generic)):
        return ("v", repr(v))
    if isinstance(v, np.ndarray):
        return _sig(v)
    if isinstance(v, tuple) and all(isinstance(x, (int, float, np.generic)) for x in v):
        return ("t", repr(tuple(float(x) for x in v)))
    if isinstance(v, Grid) and depth < 2:
        return ("g", id(v), tuple(snapshot(v, depth + 1)))
    if isinstance(v, (list, tuple)):
        return ("l", tuple(_value_sig(x, depth + 1) for x in v))
    if isinstance(v, dict):
        return ("d", tuple((repr(k), _value_sig(x, depth + 1)) for k, x in sorted(v.items(), key=lambda kv: repr(kv[0]))))
    if hasattr(v, "__next__"):           # generators / iterators (MultiDomainGrid.points, .weights): fresh on every access
        return ("iter",)
    return ("id", id(v))


def snapshot(obj, depth=0):
    """Every observable attribute of ``obj``: all public properties of its class (evaluated), the identity of the
    arrays it stores, and its instance dictionary (private fields included: they are what the properties read)."""
    out = []
    if obj is None:
        return out
    cls = type(obj)
    with warnings.catch_warnings():
        warnings.simplefilter("ignore")
        for name in sorted(dir(cls)):
            if name.startswith("_"):
                continue
            if isinstance(getattr(cls, name, None), property):
                try:
                    out.append((name, _value_sig(getattr(obj, name), depth)))
                except Exception as e:  # noqa: BLE001 - an unreadable attribute is an observation as well
                    out.append((name, ("raises", type(e).__name__)))
    for name, v in sorted(getattr(obj, "__dict__", {}).items()):
        if name == "_kdtree":      # lazily built search structure: not observable (what it answers is C10's subject)
            continue
        out.append(("." + name, _value_sig(v, depth)))
        if isinstance(v, np.ndarray):
            out.append(("id." + name, id(v)))
    return out


def _caches():
    import grid.angular as ang
    return [ang.LEBEDEV_CACHE, ang.SPHERICAL_CACHE, ang.MAX_DET_CACHE, ang.AHRENS_BEYLKIN_CACHE]


class Call:
    """One concrete call: ``fn()`` is executed; ``recv`` (may be None) is snapshotted before and after, ``bufs``
    are the arrays the caller owns.  ``clear_cache`` empties the angular caches first (so that gains are counted
    from zero); otherwise the caches are left as they are and only the number of new keys is counted."""

    def __init__(self, fn, recv=None, bufs=(), clear_cache=False):
        self.fn, self.recv, self.bufs, self.clear_cache = fn, recv, list(bufs), clear_cache


def observe(call: Call):
    if call.clear_cache:
        for c in _caches():
            c.clear()
    keys0 = [set(c.keys()) for c in _caches()]
    s0 = snapshot(call.recv)
    b0 = [_sig(b) for b in call.bufs]
    exc, mro, msg = "", [], ""
    with warnings.catch_warnings():
        warnings.simplefilter("ignore")
        try:
            call.fn()
        except Exception as e:  # noqa: BLE001 - which exception is the observation
            exc, mro, msg = type(e).__name__, [k.__name__ for k in type(e).__mro__], str(e)[:200]
    s1 = snapshot(call.recv)
    b1 = [_sig(b) for b in call.bufs]
    changed = ""
    if len(s0) != len(s1):
        changed = "attribute-set"
    else:
        for (n0, v0), (n1, v1) in zip(s0, s1):
            if n0 != n1 or v0 != v1:
                changed = n0
                break
    if not changed:
        for k, (x, y) in enumerate(zip(b0, b1)):
            if x != y:
                changed = f"caller-buffer-{k}"
                break
    gain = sum(len(set(c.keys()) - k0) for c, k0 in zip(_caches(), keys0))
    return {"exc": exc, "mro": mro, "changed": changed, "gain": int(gain), "msg": msg}


# --------------------------------------------------------------------------------------------
# concretisation: one builder per entry point.  A builder gets the abstract argument (dict) and an rng and
# returns a Call.  Builders never look at what the specification says about the case.

BUILD = {}


def builder(name):
    def deco(f):
        BUILD[name] = f
        return f
    return deco


def _arr(rng, n, d, c):
    shape = (n,) if d == 1 else (n, c) if d == 2 else (n, c, c)
    return rng.uniform(-1.0, 1.0, size=shape)


def _grid(rng, cls="Grid2", n=3):
    """A fresh receiver of the named class with n points (AtomGrid: whatever its shells give)."""
    from grid.atomgrid import AtomGrid
    from grid.basegrid import Grid, LocalGrid, OneDGrid
    from grid.periodicgrid import PeriodicGrid
    w = rng.uniform(0.1, 1.0, size=n)
    if cls in ("Grid1",):
        return Grid(np.sort(rng.uniform(0.0, 4.0, size=n)), w)
    if cls in ("Grid2", "Grid"):
        return Grid(rng.uniform(-1.0, 1.0, size=(n, 2)), w)
    if cls == "Grid3":
        return Grid(rng.uniform(-1.0, 1.0, size=(n, 3)), w)
    if cls == "OneDGrid":
        return OneDGrid(np.sort(rng.uniform(0.5, 4.0, size=n)), w, (0.0, 5.0))
    if cls == "LocalGrid":
        return LocalGrid(rng.uniform(-1.0, 1.0, size=(n, 3)), w, np.zeros(3), np.arange(n))
    if cls == "PeriodicGrid":
        return PeriodicGrid(rng.uniform(0.0, 1.0, size=(n, 2)), w, np.array([[9.0, 0.0], [0.0, 9.0]]))
    if cls == "PeriodicGrid0":
        return PeriodicGrid(rng.uniform(0.0, 1.0, size=(n, 2)), w)
    if cls == "AtomGrid":
        rg = OneDGrid(np.array([0.5, 1.0, 2.0]), np.array([0.3, 0.4, 0.5]), (0, np.inf))
        return AtomGrid(rg, degrees=[3, 5, 3], center=np.array([0.5, -0.25, 1.0]))
    raise KeyError(cls)


@builder("Grid.new")
def _b_grid_new(a, rng, wd):
    from grid.basegrid import Grid
    p = _arr(rng, a["np"], a["pd"], 2)
    w = rng.uniform(0.1, 1.0, size=(a["nw"],) if a["wd"] == 1 else (a["nw"], 1))
    return Call(lambda: Grid(p, w), None, [p, w])


@builder("Grid.points.set")
def _b_points_set(a, rng, wd):
    g = _grid(rng, "Grid1" if a["pd"] == 1 else "Grid2")
    v = _arr(rng, a["vn"], a["vd"], a["vc"])

    def fn():
        g.points = v
    return Call(fn, g, [v])


@builder("Grid.weights.set")
def _b_weights_set(a, rng, wd):
    g = _grid(rng, "Grid2")
    v = rng.uniform(0.1, 1.0, size=(a["vn"],) if a["vd"] == 1 else (a["vn"], 1))

    def fn():
        g.weights = v
    return Call(fn, g, [v])


@builder("Grid.integrate")
def _b_integrate(a, rng, wd):
    g = _grid(rng, "Grid2", n=4)
    args, bufs = [], []
    for k in a["ks"]:
        if k == "ok":
            x = rng.uniform(-1, 1, size=4)
        elif k == "list":
            x = rng.uniform(-1, 1, size=4).tolist()
        elif k == "shortlist":
            x = rng.uniform(-1, 1, size=3).tolist()
        elif k == "short":
            x = rng.uniform(-1, 1, size=3)
        else:
            x = rng.uniform(-1, 1, size=(4, 1))
        args.append(x)
        if isinstance(x, np.ndarray):
            bufs.append(x)
    return Call(lambda: g.integrate(*args), g, bufs)


_RADII = {"pos": 1.5, "zero": 0.0, "inf": np.inf, "neg": -1.0, "neginf": -np.inf, "nan": float("nan")}


def _center(g, kind, rng):
    m = np.asarray(g.points).shape[1:]
    if kind == "match":
        return rng.uniform(-1, 1, size=m) if m else float(rng.uniform(0, 1))
    if kind == "long":
        return rng.uniform(-1, 1, size=(m[0] + 1,) if m else (1,))
    return rng.uniform(-1, 1, size=(1, m[0]) if m else (1, 1))


@builder("Grid.get_localgrid")
def _b_localgrid(a, rng, wd):
    g = _grid(rng, a["cls"])
    c = _center(g, a["cs"], rng)
    r = _RADII[a["r"]]
    return Call(lambda: g.get_localgrid(c, r), g, [c] if isinstance(c, np.ndarray) else [])


@builder("Grid.getitem")
def _b_getitem(a, rng, wd):
    g = _grid(rng, a["cls"])
    i = int(a["i"]) if a["ik"] == "int" else np.int64(a["i"])
    return Call(lambda: g[i], g)


@builder("Grid.moments")
def _b_moments(a, rng, wd):
    g = _grid(rng, "Grid3", n=4)
    n = 4 if a["fl"] == "N" else 3
    f = rng.uniform(-1, 1, size=(n,) if a["fd"] == 1 else (n, 1))
    cc = a["cc"]
    c = rng.uniform(-1, 1, size={1: (cc,), 2: (2, cc), 3: (1, 2, cc)}[a["cd"]])
    o = {"int": int, "npint": np.int64, "float": float}[a["ot"]](a["ord"])
    return Call(lambda: g.moments(o, c, f, type_mom=a["tm"]), g, [c, f])


@builder("LocalGrid.new")
def _b_localgrid_new(a, rng, wd):
    from grid.basegrid import LocalGrid
    p = rng.uniform(-1, 1, size=(a["np"], 3))
    w = rng.uniform(0.1, 1, size=a["nw"])
    c = np.zeros(3)
    ind = None if a["ni"] == 0 else (np.arange(a["ni"]) if a["idim"] == 1 else np.arange(a["ni"]).reshape(-1, 1))
    return Call(lambda: LocalGrid(p, w, c, ind), None, [p, w, c] + ([ind] if ind is not None else []))


@builder("OneDGrid.new")
def _b_onedgrid_new(a, rng, wd):
    from grid.basegrid import OneDGrid
    p = np.array([1.0, 2.0]) if a["pd"] == 1 else np.array([[1.0], [2.0]])
    w = rng.uniform(0.1, 1, size=a["nw"])
    if a["dl"] == 0:
        dom = None
    elif a["dl"] == 1:
        dom = (0.0,)
    elif a["dl"] == 3:
        dom = (0.0, 1.0, 3.0)
    else:
        lo = {"out": 0.0, "slack": 1.0 + 5e-8, "cut": 1.25}[a["lo"]]
        hi = {"out": 3.0, "slack": 2.0 - 5e-8, "cut": 1.75}[a["hi"]]
        dom = (lo, hi) if a["ord"] == "asc" else (hi, lo)
    return Call(lambda: OneDGrid(p, w, dom), None, [p, w])


@builder("Grid.save")
def _b_save(a, rng, wd):
    g = _grid(rng, {"Grid": "Grid2"}.get(a["cls"], a["cls"]))
    d = wd / "save-ok"
    d.mkdir(exist_ok=True)
    path = str((d if a["dir"] == "exists" else wd / "no-such-directory") / "g.npz")
    return Call(lambda: g.save(path), g)


def _ang_tables():
    import grid.angular as ang
    return {"lebedev": (ang.LEBEDEV_DEGREES, ang.LEBEDEV_NPOINTS), "spherical": (ang.SPHERICAL_DEGREES, ang.SPHERICAL_NPOINTS),
            "maxdet": (ang.MAX_DET_DEGREES, ang.MAX_DET_NPOINTS), "ahrens_beylkin": (ang.AHRENS_BEYLKIN_DEGREES, ang.AHRENS_BEYLKIN_NPOINTS)}


def _req(kind, which, meth, rng):
    """Concrete degree (which=0) / size (which=1) request of the abstract kind for the method."""
    tab = _ang_tables().get(meth.lower(), _ang_tables()["lebedev"])[which]
    mx = max(tab)
    return {"none": None, "neg": -rng.randint(1, 3), "zero": 0, "mid": rng.randint(1, min(mx - 1, 30)), "max": mx, "over": mx + 1,
            "float": float(rng.randint(1, 9))}[kind]


@builder("AngularGrid.new")
def _b_angular_new(a, rng, wd):
    from grid.angular import AngularGrid
    d = _req(a["deg"], 0, a["meth"], rng)
    s = _req(a["size"], 1, a["meth"], rng)
    return Call(lambda: AngularGrid(degree=d, size=s, cache=a["cache"], method=a["meth"]), None, clear_cache=True)


@builder("AngularGrid.convert")
def _b_angular_convert(a, rng, wd):
    from grid.angular import AngularGrid
    vals = [_req("mid", 1, a["meth"], rng) for _ in range(a["n"] - 1)] + [_req(a["sk"], 1, a["meth"], rng)]
    sizes = np.array(vals)
    return Call(lambda: AngularGrid.convert_angular_sizes_to_degrees(sizes, a["meth"]), None, [sizes], clear_cache=True)


# ---- grid.atomgrid ---------------------------------------------------------------------------

def _rgrid(kind, rng, n=3):
    from grid.basegrid import OneDGrid
    pts = np.sort(rng.uniform(0.2, 3.0, size=n))
    w = rng.uniform(0.1, 1.0, size=n)
    if kind == "ok":
        return OneDGrid(pts, w, (0, np.inf))
    if kind == "nodomain":
        return OneDGrid(pts, w)
    if kind == "notgrid":
        return pts
    if kind == "negdomain":
        return OneDGrid(pts / 4.0, w, (-1, 1))
    if kind == "negpoints":
        p2 = pts.copy()
        p2[0] = -0.5
        return OneDGrid(p2, w)
    if kind == "none":
        return None
    raise KeyError(kind)


def _cen(kind, rng):
    return {"none": None, "ok": rng.uniform(-1, 1, size=3), "long": rng.uniform(-1, 1, size=4)}[kind]


def _rot(kind, rng):
    return {"zero": 0, "pos": rng.randint(1, 1000), "neg": -rng.randint(1, 5), "huge": 2 ** 32, "float": 1.0}[kind]


def _bufs(*xs):
    out = []
    for x in xs:
        if isinstance(x, np.ndarray):
            out.append(x)
        elif hasattr(x, "points") and hasattr(x, "weights") and isinstance(getattr(x, "_points", None), np.ndarray):
            out += [x._points, x._weights]
    return out


@builder("AtomGrid.new")
def _b_atom_new(a, rng, wd):
    from grid.atomgrid import AtomGrid
    rg, cen, rot = _rgrid(a["rg"], rng), _cen(a["cen"], rng), _rot(a["rot"], rng)
    degs = {"ok": [3, 5, 7], "tuple": (3, 5, 7), "badlen": [3, 5]}[a["tail"]]
    return Call(lambda: AtomGrid(rg, degrees=degs, center=cen, rotate=rot), None, _bufs(rg, cen))


def _seq(kind, vals):
    return {"list": list(vals), "array": np.array(vals), "tuple": tuple(vals), "none": None}[kind]


@builder("AtomGrid.shells")
def _b_atom_shells(a, rng, wd):
    from grid.atomgrid import AtomGrid
    rg = _rgrid("ok", rng)
    which = 0 if a["how"] == "degrees" else 1
    vals = [_req("mid", which, a["meth"], rng) for _ in range(a["n"] - 1)] + [_req(a["el"], which, a["meth"], rng)]
    seq = _seq(a["seq"], vals)
    if a["how"] == "degrees":
        fn = lambda: AtomGrid(rg, degrees=seq, method=a["meth"])  # noqa: E731
    else:
        fn = lambda: AtomGrid(rg, None, sizes=seq, method=a["meth"])  # noqa: E731
    return Call(fn, None, _bufs(rg, seq))


_ATNUM = {"H": 1, "At": 85, "Nd": 60}


@builder("AtomGrid.from_preset")
def _b_atom_from_preset(a, rng, wd):
    from grid.atomgrid import AtomGrid
    rg, cen, rot = _rgrid(a["rg"], rng, n=5), _cen(a["cen"], rng), _rot(a["rot"], rng)
    return Call(lambda: AtomGrid.from_preset(_ATNUM[a["atnum"]], a["preset"], rg, center=cen, rotate=rot, method=a["meth"]),
                None, _bufs(rg, cen))


@builder("AtomGrid.from_pruned")
def _b_atom_from_pruned(a, rng, wd):
    from grid.atomgrid import AtomGrid
    rg, cen, rot = _rgrid(a["rg"], rng, n=4), _cen(a["cen"], rng), _rot(a["rot"], rng)
    rs = sorted(rng.uniform(0.3, 2.0) for _ in range(a["nr"]))
    which = 0 if a["how"] == "d" else 1
    if a["nd"] == 0:
        sec = None
    else:
        sec = [_req("mid", which, a["meth"], rng) for _ in range(a["nd"] - 1)] + [_req(a["el"], which, a["meth"], rng)]
        if rng.randint(0, 1):
            sec = np.array(sec)
    if a["how"] == "d":
        fn = lambda: AtomGrid.from_pruned(rg, 1.0, r_sectors=rs, d_sectors=sec, center=cen, rotate=rot, method=a["meth"])  # noqa: E731
    else:
        fn = lambda: AtomGrid.from_pruned(rg, 1.0, r_sectors=rs, d_sectors=None, s_sectors=sec, center=cen, rotate=rot, method=a["meth"])  # noqa: E731
    return Call(fn, None, _bufs(rg, cen, sec))


@builder("AtomGrid.get_shell_grid")
def _b_atom_shell(a, rng, wd):
    g = _grid(rng, "AtomGrid")
    i = int(a["i"]) if a["ik"] == "int" else np.int64(a["i"])
    return Call(lambda: g.get_shell_grid(i, r_sq=a["rsq"]), g)


def _fvals(g, fl, rng, fd=1):
    n = {"N": g.size, "short": g.size - 1, "long": g.size + 1, "empty": 0}[fl]
    return rng.uniform(-1, 1, size=(n,) if fd == 1 else (2, n))


@builder("AtomGrid.integrate_angular")
def _b_atom_intang(a, rng, wd):
    g = _grid(rng, "AtomGrid")
    f = _fvals(g, a["fl"], rng, a["fd"])
    return Call(lambda: getattr(g, a["meth"])(f), g, [f])


@builder("AtomGrid.interpolate")
def _b_atom_interp(a, rng, wd):
    g = _grid(rng, "AtomGrid")
    if a["state"] == "warm":
        g.interpolate(rng.uniform(-1, 1, size=g.size))
    f = _fvals(g, a["fl"], rng)
    return Call(lambda: g.interpolate(f), g, [f])


@builder("AtomGrid.interpolate_call")
def _b_atom_interp_call(a, rng, wd):
    g = _grid(rng, "AtomGrid")
    fn = g.interpolate(rng.uniform(-1, 1, size=g.size))
    pts = rng.uniform(-1, 1, size=(4, 3))
    return Call(lambda: fn(pts, deriv=a["deriv"], deriv_spherical=a["sph"], only_radial_deriv=a["rad"]), g, [pts])


# ---- grid.rtransform -------------------------------------------------------------------------

def _tf_class(name):
    import grid.rtransform as rt
    return getattr(rt, name + "RTransform")


_TF_ARGS = {"LinearInfinite": 2, "Exp": 2, "Power": 2, "Hyperbolic": 2, "Knowles": 3, "Handy": 3, "HandyMod": 3, "Becke": 2,
            "MultiExp": 2, "LinearFinite": 2, "Identity": 0}


@builder("RTransform.new")
def _b_tf_new(a, rng, wd):
    cls = _tf_class(a["cls"])
    args = [float(a["p1"]), float(a["p2"]), int(a["p3"])][: _TF_ARGS[a["cls"]]]
    return Call(lambda: cls(*args))


def _valid_tf(name, rng):
    cls = _tf_class(name)
    lo, hi = rng.uniform(0.01, 0.5), rng.uniform(2.0, 9.0)
    if name in ("LinearInfinite", "Exp", "Power", "LinearFinite"):
        return cls(lo, hi)
    if name == "Hyperbolic":
        return cls(rng.uniform(0.5, 2.0), 0.05)
    if name in ("Knowles", "Handy"):
        return cls(lo, rng.uniform(0.5, 2.0), rng.randint(1, 3))
    if name == "HandyMod":
        # m = 1 only: for rmax - rmin < 2^m - 1 the formula has a pole inside (-1, 1) (not validated by the constructor)
        # and the transformed grid is rejected downstream by OneDGrid - not an argument check of transform_1d_grid
        return cls(lo, hi, 1)
    if name == "Identity":
        return cls()
    return cls(lo, rng.uniform(0.5, 2.0))


@builder("InverseRTransform.new")
def _b_inv_new(a, rng, wd):
    from grid.rtransform import InverseRTransform
    arg = {"transform": lambda: _valid_tf("Becke", rng), "inverse": lambda: InverseRTransform(_valid_tf("Exp", rng)),
           "onedgrid": lambda: _rgrid("ok", rng), "none": lambda: None}[a["arg"]]()
    return Call(lambda: InverseRTransform(arg), arg if a["arg"] in ("transform", "inverse") else None)


@builder("Becke.find_parameter")
def _b_becke_fp(a, rng, wd):
    from grid.rtransform import BeckeRTransform
    x = np.sort(rng.uniform(-0.9, 0.9, size=a["n"]))
    return Call(lambda: BeckeRTransform.find_parameter(x, float(a["rmin"]), float(a["radius"])), None, [x])


@builder("RTransform.transform_1d_grid")
def _b_tf_1d(a, rng, wd):
    from grid.basegrid import OneDGrid
    tf = _valid_tf(a["cls"], rng)
    lo = float(a["lo"])
    hi = np.inf if a["hi"] == 9 else float(a["hi"])
    top = min(hi, 1.0)                              # the nodes stay inside (0, 1): inside every domain used here
    pts = np.sort(rng.uniform(max(lo, 0.0) + 0.05, top - 0.05, size=4))
    g = OneDGrid(pts, rng.uniform(0.1, 1.0, size=4), (lo, hi))
    arg = g if a["g"] == "grid" else pts
    return Call(lambda: tf.transform_1d_grid(arg), tf, _bufs(arg))


@builder("Hyperbolic.transform")
def _b_hyp(a, rng, wd):
    from grid.rtransform import HyperbolicRTransform
    tf = HyperbolicRTransform(rng.uniform(0.5, 2.0), a["q"] / 4.0)
    x = np.sort(rng.uniform(0.0, 0.9, size=a["n"]))
    return Call(lambda: getattr(tf, a["meth"])(x), tf, [x])


@builder("Scaled.transform")
def _b_scaled(a, rng, wd):
    cls = _tf_class(a["cls"])
    tf = cls(rng.uniform(0.01, 0.5), rng.uniform(2.0, 9.0), None if a["b"] == "none" else rng.uniform(1.0, 3.0))
    x = np.sort(rng.uniform(0.1, 3.0, size=4)) if a["x"] == "positive" else np.zeros(4)
    return Call(lambda: tf.transform(x), tf, [x])


# ---- grid.molgrid ---------------------------------------------------------------------------

def _atoms(rng, centers=((0.0, 0.0, -0.7), (0.0, 0.0, 0.7))):
    from grid.atomgrid import AtomGrid
    return [AtomGrid(_rgrid("ok", rng), degrees=[3, 5, 3], center=np.array(c)) for c in centers]


def _molgrid(rng, store):
    from grid.becke import BeckeWeights
    from grid.molgrid import MolGrid
    return MolGrid(np.array([1, 8]), _atoms(rng), BeckeWeights(order=3), store=store)


@builder("MolGrid.new")
def _b_mol_new(a, rng, wd):
    from grid.becke import BeckeWeights
    from grid.molgrid import MolGrid
    ats = _atoms(rng)
    n = sum(g.size for g in ats)
    aw = {"callable": lambda: BeckeWeights(order=3), "array": lambda: rng.uniform(0.1, 1, size=n), "short": lambda: rng.uniform(0.1, 1, size=n - 1),
          "list": lambda: rng.uniform(0.1, 1, size=n).tolist(), "none": lambda: None}[a["aw"]]()
    atnums = np.array([1, 8])
    return Call(lambda: MolGrid(atnums, ats, aw, store=a["store"]), None, _bufs(atnums, aw))


def _coords(cd, rng):
    c = np.array([[0.0, 0.0, -0.7], [0.0, 0.0, 0.7]]) + rng.uniform(-0.05, 0.05, size=(2, 3))
    return {1: c[0].copy(), 2: c, 3: c.reshape(2, 1, 3)}[cd]


def _atnums(na):
    return np.array([1, 8, 6][:na])


def _rg_spec(kind, rng):
    g = _rgrid("ok", rng, n=4)
    return {"none": None, "onedgrid": g, "list": [g, _rgrid("ok", rng, n=4)], "dict": {1: g, 8: g, 6: g}, "tuple": (g, g)}[kind]


@builder("MolGrid.from_preset")
def _b_mol_from_preset(a, rng, wd):
    from grid.molgrid import MolGrid
    atnums, coords, rg = _atnums(a["na"]), _coords(a["cd"], rng), _rg_spec(a["rg"], rng)
    pre = {"str": "coarse", "list": ["coarse", "medium"], "dict": {1: "coarse", 8: "medium", 6: "coarse"}, "tuple": ("coarse", "coarse"),
           "bogus": "no_such_preset"}[a["pre"]]
    return Call(lambda: MolGrid.from_preset(atnums, coords, pre, rgrid=rg), None, _bufs(atnums, coords))


@builder("MolGrid.from_size")
def _b_mol_from_size(a, rng, wd):
    from grid.molgrid import MolGrid
    atnums = np.array([1, _ATNUM[a["atnum"]]])
    coords = _coords(2, rng)
    rg = {"none": None, "ok": _rgrid("ok", rng, n=4), "notgrid": np.array([0.5, 1.0])}[a["rg"]]
    size = _req(a["size"], 1, "lebedev", rng)
    return Call(lambda: MolGrid.from_size(atnums, coords, size, rgrid=rg), None, _bufs(atnums, coords))


@builder("MolGrid.from_pruned")
def _b_mol_from_pruned(a, rng, wd):
    from grid.molgrid import MolGrid
    atnums, coords, rg = _atnums(a["na"]), _coords(a["cd"], rng), _rg_spec(a["rg"], rng)
    rs = [[0.5, 1.0], [0.4, 1.2]]
    which = 0 if a["how"] == "d" else 1
    one = lambda: [_req("mid", which, "lebedev", rng) for _ in range(3)]  # noqa: E731
    sec = {"int": _req("mid", which, "lebedev", rng), "lists": [one(), one()], "short": [one()]}[a["sec"]]
    kw = {"d_sectors": sec} if a["how"] == "d" else {"s_sectors": sec}
    return Call(lambda: MolGrid.from_pruned(atnums, coords, 1.0, rs, rgrid=rg, **kw), None, _bufs(atnums, coords))


@builder("MolGrid.get_atomic_grid")
def _b_mol_get_atomic(a, rng, wd):
    g = _molgrid(rng, a["store"])
    return Call(lambda: g.get_atomic_grid(a["i"]), g)


@builder("MolGrid.getitem")
def _b_mol_getitem(a, rng, wd):
    g = _molgrid(rng, a["store"])
    return Call(lambda: g[a["i"]], g)


# ---- grid.periodicgrid -----------------------------------------------------------------------

@builder("PeriodicGrid.new")
def _b_per_new(a, rng, wd):
    from grid.periodicgrid import PeriodicGrid
    n = 4
    if a["pd"] == 1:
        p = rng.uniform(0.0, 2.0, size=n)
        rv = {"none": None, "match": np.array([rng.uniform(2.5, 4.0)]), "ndim": np.array([[3.0]])}[a["rv"]]
    else:
        p = rng.uniform(0.0, 2.0, size=(n, 2))
        rv = {"none": None, "match": np.array([[3.0, 0.5], [0.0, 4.0]]), "ndim": np.array([3.0, 4.0]), "cols": np.array([[3.0, 0.0, 0.0]]),
              "many": np.array([[3.0, 0.0], [0.0, 4.0], [1.0, 1.0]]), "singular": np.array([[1.0, 2.0], [2.0, 4.0]])}[a["rv"]]
    w = rng.uniform(0.1, 1, size=n if a["nw"] == "N" else n - 1)
    return Call(lambda: PeriodicGrid(p, w, rv, wrap=a["wrap"]), None, _bufs(p, w, rv))


@builder("PeriodicGrid.get_localgrid")
def _b_per_localgrid(a, rng, wd):
    from grid.periodicgrid import PeriodicGrid
    if a["pd"] == 1:
        g = PeriodicGrid(rng.uniform(0.0, 2.0, size=4), rng.uniform(0.1, 1, size=4), np.array([2.5]))
    else:
        g = PeriodicGrid(rng.uniform(0.0, 2.0, size=(4, 2)), rng.uniform(0.1, 1, size=4), np.array([[3.0, 0.5], [0.0, 4.0]]))
    c = _center(g, a["cs"], rng)
    r = _RADII[a["r"]]
    return Call(lambda: g.get_localgrid(c, r), g, [c] if isinstance(c, np.ndarray) else [])


# ---- grid.cubic ------------------------------------------------------------------------------

def _oned(n, rng):
    from grid.basegrid import OneDGrid
    return OneDGrid(np.sort(rng.uniform(-1, 1, size=n)), rng.uniform(0.1, 1, size=n), (-1, 1))


@builder("Tensor1DGrids.new")
def _b_tensor_new(a, rng, wd):
    from grid.cubic import Tensor1DGrids

    def mk(axis, kind):
        if kind == "none":
            return None
        if kind == "array":
            return rng.uniform(-1, 1, size=3)
        return _oned(1 if a["one"] == axis else rng.randint(2, 3), rng)
    x, y, z = mk("x", a["x"]), mk("y", a["y"]), mk("z", a["z"])
    return Call(lambda: Tensor1DGrids(x, y, z), None, _bufs(x, y, z))


@builder("UniformGrid.new")
def _b_uniform_new(a, rng, wd):
    from grid.cubic import UniformGrid
    d = a["osz"]
    origin = rng.uniform(-1, 1, size=d)
    ad = d if a["ash"] == "match" else d - 1
    axes = np.eye(ad) * rng.uniform(0.2, 0.5) + rng.uniform(-0.02, 0.02, size=(ad, ad))
    if a["det"] == "singular":
        axes[-1] = 2.0 * axes[0]
    sd = d if a["ssz"] == "match" else d + 1
    shape = np.array([rng.randint(2, 3) for _ in range(sd)])
    if a["sh"] == "zero":
        shape[-1] = 0
    elif a["sh"] == "one":
        shape[-1] = 1
    lst = lambda x, k: x.tolist() if k == "list" else x  # noqa: E731
    o, ax, sh = lst(origin, a["ot"]), lst(axes, a["at"]), lst(shape, a["st"])
    return Call(lambda: UniformGrid(o, ax, sh, weight=a["weight"]), None, _bufs(o, ax, sh))


@builder("UniformGrid.from_molecule")
def _b_uniform_from_molecule(a, rng, wd):
    from grid.cubic import UniformGrid
    nums = np.array([8.0, 1.0, 1.0])
    coords = np.array([[0.0, 0.0, 0.1], [0.0, 0.75, -0.45], [0.0, -0.75, -0.45]]) + rng.uniform(-0.02, 0.02, size=(3, 3))
    return Call(lambda: UniformGrid.from_molecule(nums, coords, spacing=0.9, extension=1.0, rotate=a["rotate"], weight=a["weight"]),
                None, [nums, coords])


def _cube_file(wd, rng):
    from grid.cubic import UniformGrid
    path = wd / "x01.cube"
    if not path.exists():
        g = UniformGrid(np.array([-1.0, -1.0, -1.0]), np.eye(3) * 0.5, np.array([3, 2, 4]), weight="Rectangle")
        g.generate_cube(str(path), np.arange(24, dtype=float), np.array([[0.0, 0.0, 0.0]]), np.array([1]))
        (wd / "x01.txt").write_text(path.read_text())
    return path


@builder("UniformGrid.from_cube")
def _b_uniform_from_cube(a, rng, wd):
    from grid.cubic import UniformGrid
    path = _cube_file(wd, rng)
    name = str(path.with_suffix("." + a["ext"])) if a["exists"] else str(wd / ("missing." + a["ext"]))
    return Call(lambda: UniformGrid.from_cube(name, weight=a["weight"], return_data=a["data"]))


# ---- grid.ngrid ------------------------------------------------------------------------------

@builder("MultiDomainGrid.new")
def _b_multi_new(a, rng, wd):
    from grid.ngrid import MultiDomainGrid
    g1, g2 = _grid(rng, "Grid3"), _grid(rng, "Grid3", n=2)
    gl = {"none": None, "tuple": (g1, g2), "empty": [], "one": [g1], "two": [g1, g2], "mixed": [g1, np.zeros(3)]}[a["gl"]]
    nd = {"none": None, "zero": 0, "two": 2, "neg": -1, "float": 2.0}[a["nd"]]
    return Call(lambda: MultiDomainGrid(gl, nd), None, _bufs(g1, g2))


@builder("MultiDomainGrid.method")
def _b_multi_method(a, rng, wd):
    from grid.ngrid import MultiDomainGrid
    g1, g2 = _grid(rng, "Grid3"), _grid(rng, "Grid3", n=2)
    m = MultiDomainGrid([g1, g2])

    def integrand(x, y):
        v = np.exp(-np.sum((x - y) ** 2, axis=-1))
        return v if a["f"] == "ok" else v[:-1]
    fn = {"get_localgrid": lambda: m.get_localgrid(np.zeros(3), 1.0),
          "moments": lambda: m.moments(1, np.zeros((1, 3)), np.zeros(6)),
          "integrate": lambda: m.integrate(integrand)}[a["meth"]]
    return Call(fn, m, _bufs(g1, g2))


# ---- grid.becke / grid.hirshfeld -------------------------------------------------------------

@builder("BeckeWeights.new")
def _b_becke_new(a, rng, wd):
    from grid.becke import BeckeWeights
    order = {"int": rng.randint(1, 4), "float": 3.0, "none": None}[a["order"]]
    radii = {"none": None, "dict": {1: 0.6, 8: 1.2}, "list": [0.6, 1.2], "strkeys": {"H": 0.6, 8: 1.2}}[a["radii"]]
    return Call(lambda: BeckeWeights(radii, order))


@builder("BeckeWeights.weights")
def _b_becke_weights(a, rng, wd):
    from grid.becke import BeckeWeights
    b = BeckeWeights(order=3)
    pts = rng.uniform(-2, 2, size=(6, 3))
    coords, nums = _coords(2, rng), np.array([1, 8])
    sel = {"none": None, "int": rng.randint(0, 1), "list1": [rng.randint(0, 1)], "list2": [0, 1]}[a["sel"]]
    pt = {"none": None, "len1": [0], "len2": [0, 6], "len3": [0, 3, 6]}[a["pt"]]
    return Call(lambda: getattr(b, a["meth"])(pts, coords, nums, select=sel, pt_ind=pt), b, [pts, coords, nums])


@builder("HirshfeldWeights.call")
def _b_hirshfeld(a, rng, wd):
    from grid.hirshfeld import HirshfeldWeights
    h = HirshfeldWeights()
    pts = rng.uniform(-2, 2, size=(6, 3))
    coords = _coords(2, rng)
    nums = np.array([1, 8]) if a["dt"] == "int" else np.array([1.0, 8.0])
    idx = np.array([0, 3, 6])
    return Call(lambda: h(pts, coords, nums, idx), h, [pts, coords, nums, idx])


# --------------------------------------------------------------------------------------------

def _akey(a):
    def f(v):
        if isinstance(v, bool):
            return "T" if v else "F"
        if isinstance(v, list):
            return "[" + "|".join(map(str, v)) + "]"
        return str(v)
    return ",".join(f"{k}={f(v)}" for k, v in a.items())


def _enumerate(rep, wd):
    res = tlc.run_tlc("ErrorPaths", "MC_ErrorPaths.cfg", wd, workers=4, timeout=900).require_ok("MC_ErrorPaths")
    rep.tlc(res, "MC_ErrorPaths")
    if res.status == "violation":
        st = tlc.last_state(res)
        und = tlc.tagged(res.stdout, "UNDECIDED")
        raise tlc.MachineryError(f"the table of ErrorPaths.tla violates its own law {res.violated}; last state {st}; "
                                 f"clauses that decide no case: {und}")
    cases = [(c[1], c[2], c[3], c[4]) for c in tlc.tagged(res.stdout, "CASE")]
    if res.status == "ok" and len(cases) != res.distinct - 1 - len({c[0] for c in cases}):
        raise tlc.MachineryError(f"enumerator: {len(cases)} CASE lines for {res.distinct} states")
    return cases


def _judge(rep, wd, obs, tag="table", complete=True):
    slim = [{k: o[k] for k in ("op", "a", "exc", "mro", "changed", "gain")} for o in obs]
    with open(wd / "obs_x01.json", "w") as f:
        json.dump(slim, f)
    cfg = "Judge_ErrorPaths.cfg"
    if not complete:      # a slice of the entry points (replay, selftest): same judge without the completeness law
        txt = (tlc.SPEC / cfg).read_text().replace("INVARIANT Complete\n", "")
        (wd / "Judge_ErrorPaths_slice.cfg").write_text(txt)
        cfg = wd / "Judge_ErrorPaths_slice.cfg"
    res = tlc.run_tlc("ErrorPathsJudge", cfg, wd, workers=4, timeout=900).require_ok("Judge_ErrorPaths")
    rep.tlc(res, f"Judge_ErrorPaths[{tag}]")
    if res.status == "violation":
        st = tlc.last_state(res)
        rep.violation(f"judge:{','.join(res.violated)}", f"judge run stopped: {res.violated}; last state {st}", st)
    inc = tlc.tagged(res.stdout, "INCOMPLETE")
    if inc:
        raise tlc.MachineryError(f"no observation for some case of {sorted({i[1] for i in inc})}")
    if res.status == "ok" and res.distinct < len(obs):
        raise tlc.MachineryError(f"judge visited {res.distinct} states for {len(obs)} observations")
    seen = set()
    for _, idx, what, op, a, cls, rule, exc, changed, gain in tlc.tagged(res.stdout, "MISMATCH"):
        key = f"{op}:{what}:{_akey(a)}"
        if key in seen:
            continue
        seen.add(key)
        o = obs[idx - 1]
        rep.violation(key,
                      f"{op}({_akey(a)}): {what}; specification: "
                      f"{'raises ' + cls + ' by rule [' + rule + ']' if cls else 'accepted'}; observed: "
                      f"{'raised ' + exc + ' (' + o.get('msg', '') + ')' if exc else 'returned normally'}"
                      f"{'; changed: ' + changed if changed else ''}; cache entries gained: {gain}",
                      {"op": op, "a": a, "variant": o.get("variant", 0), "spec_class": cls, "rule": rule, "observed": {k: o[k] for k in ("exc", "changed", "gain", "msg")}})
    return res


def _observe_cases(rep, wd, cases, nvar, seed):
    obs = []
    for op, a, k, valid in cases:
        if op not in BUILD:
            raise tlc.MachineryError(f"no builder for entry point {op}")
        for v in range(nvar):
            rng = random.Random(f"{seed}:{op}:{_akey(a)}:{v}")
            nrng = np.random.default_rng(rng.getrandbits(32))
            try:
                call = BUILD[op](a, _Rng(rng, nrng), wd)
            except Exception as e:  # noqa: BLE001 - the fixture of a case must always be constructible
                raise tlc.MachineryError(f"builder of {op} failed on {a}: {type(e).__name__}: {e}") from e
            o = observe(call)
            o.update(op=op, a=a, variant=v)
            obs.append(o)
            rep.evaluated(1, (op, _akey(a)))
    return obs


class _Rng:
    """random.Random for integers/choices + numpy Generator for arrays, both derived from the seed."""

    def __init__(self, r, n):
        self._r, self._n = r, n

    def uniform(self, lo, hi, size=None):
        return self._n.uniform(lo, hi, size=size) if size is not None else self._r.uniform(lo, hi)

    def randint(self, lo, hi):
        return self._r.randint(lo, hi)

    def choice(self, seq):
        return self._r.choice(seq)


# --------------------------------------------------------------------------------------------
# the state machine part: behaviours generated by TLC, replayed on one real object, judged by TLC

SYS_KINDS = ["Grid", "OneDGrid", "PeriodicGrid", "AtomGrid", "Scaled"]


class SysDriver:
    """Replays abstract actions [act, v, k] on one concrete object and logs one event per action."""

    def __init__(self, kind, rng, variant=0):
        self.kind, self.rng = kind, rng
        if kind == "Scaled":
            cls = _tf_class(["LinearInfinite", "Exp", "Power"][variant % 3])
            self.obj = cls(rng.uniform(0.01, 0.5), rng.uniform(2.0, 9.0))
            self.p = self.w = None
        else:
            self.obj = _grid(rng, {"Grid": "Grid2"}.get(kind, kind))
            p0, w0 = np.array(self.obj.points), np.array(self.obj.weights)
            # value number 0 = what the constructor got, 1 and 2 = the values the caller assigns later
            self.p = [p0] + [p0 + rng.uniform(0.01, 0.05, size=p0.shape) for _ in range(2)]
            self.w = [w0] + [w0 * rng.uniform(1.1, 1.9) for _ in range(2)]
            if kind == "OneDGrid":
                self.p = [np.sort(x) for x in self.p]
        self.events = [{"kind": kind}]

    def _token(self, arr, alts):
        b = _sig(arr)
        for i, x in enumerate(alts):
            if _sig(x) == b:
                return i
        return 9

    def _call(self, act, v, k):
        g, rng = self.obj, self.rng
        if act == "SP":
            base = self.p[v]
            val = {"same": base.copy(), "short": base[:-1].copy(),
                   "wide": rng.uniform(-1, 1, size=(len(base), 3) if base.ndim == 1 or base.shape[1] != 3 else (len(base), 4))}[k]

            def fn():
                g.points = val
            return Call(fn, g, [val])
        if act == "SW":
            base = self.w[v]
            val = {"same": base.copy(), "short": base[:-1].copy(), "col": base.reshape(-1, 1).copy()}[k]

            def fn():
                g.weights = val
            return Call(fn, g, [val])
        if act == "IN":
            n = g.size
            x = rng.uniform(-1, 1, size=n if k != "short" else n - 1)
            arg = x.tolist() if k == "list" else x
            return Call(lambda: g.integrate(arg), g, [x])
        if act == "LG":
            c = _center(g, "long" if k == "long" else "match", rng)
            r = -1.0 if k == "neg" else 0.75
            return Call(lambda: g.get_localgrid(c, r), g, [c] if isinstance(c, np.ndarray) else [])
        if act == "IP":
            f = rng.uniform(-1, 1, size=g.size if k == "N" else g.size - 1)
            return Call(lambda: g.interpolate(f), g, [f])
        if act == "TF":
            x = np.sort(rng.uniform(0.1, 3.0, size=4)) if k == "positive" else np.zeros(4)
            return Call(lambda: g.transform(x), g, [x])
        if act == "RD":
            return Call(lambda: snapshot(g), g)
        raise KeyError(act)

    def step(self, act, v, k):
        o = observe(self._call(act, v, k))
        g = self.obj
        e = {"act": act, "v": int(v), "k": k, "exc": o["exc"], "mro": o["mro"], "changed": o["changed"], "pv": 0, "wv": 0, "ex": "none"}
        try:
            with warnings.catch_warnings():
                warnings.simplefilter("ignore")
                if self.kind == "Scaled":
                    e["ex"] = "none" if g.b is None else "set"
                else:
                    e["pv"] = self._token(g.points, self.p)
                    e["wv"] = self._token(g.weights, self.w)
                    if self.kind == "AtomGrid":
                        e["ex"] = "none" if g.basis is None else "built"
        except Exception as ex:  # noqa: BLE001
            e["changed"] = e["changed"] or ("unreadable:" + type(ex).__name__)
        self.events.append(e)

    def run(self, beh):
        for act, v, k in beh:
            self.step(act, v, k)
        return self.events


def _sys_model_runs(rep, wd):
    res = tlc.run_tlc("ErrorPathsSys", "MC_ErrorPathsSys.cfg", wd, workers=4, coverage=True).require_ok("MC_ErrorPathsSys")
    rep.tlc(res, "MC_ErrorPathsSys")
    if res.status == "violation":
        raise tlc.MachineryError(f"ErrorPathsSys violates its own property {res.violated}: {tlc.last_state(res)}")
    for act in ("StepSP", "StepSW", "StepIN", "StepLG", "StepIP", "StepTF", "StepRD"):
        if res.coverage.get(act, (0, 0))[1] == 0:
            raise tlc.MachineryError(f"vacuity: action {act} never taken in MC_ErrorPathsSys ({res.coverage})")
    r2 = tlc.run_tlc("ErrorPathsSys", "MC_ErrorPathsSys_NoValidation.cfg", wd, workers=2).require_ok("NoValidation")
    rep.set("unvalidated_setters_refuted", r2.status == "violation")
    if r2.status != "violation":
        raise tlc.MachineryError("the variant without setter validation is not refuted: the model lost its teeth")
    for wcfg in ("MC_ErrorPathsSys_Witness1.cfg", "MC_ErrorPathsSys_Witness2.cfg"):
        r3 = tlc.run_tlc("ErrorPathsSys", wcfg, wd, workers=2).require_ok(wcfg)
        if r3.status != "violation":
            raise tlc.MachineryError(f"vacuity: witness {wcfg} not reachable")


def _sys_behaviours(rep, wd):
    res = tlc.run_tlc("ErrorPathsGen", "Gen_ErrorPaths.cfg", wd, workers=4, timeout=900).require_ok("Gen_ErrorPaths")
    rep.tlc(res, "Gen_ErrorPaths")
    if res.status == "violation":
        raise tlc.MachineryError(f"generation model violates {res.violated}: {tlc.last_state(res)}")
    behs = sorted((b[1], [tuple(x) for x in b[2]]) for b in tlc.tagged(res.stdout, "BEH"))
    if len(behs) < 10000:
        raise tlc.MachineryError(f"behaviour generation produced only {len(behs)} behaviours")
    rep.set("tlc_behaviours_generated", len(behs))
    return behs


def _random_beh(kind, rng, length):
    if kind == "Scaled":
        alpha = [("TF", 0, "positive"), ("TF", 0, "zeros"), ("RD", 0, "")]
    else:
        alpha = [("SP", 1, "same"), ("SP", 2, "same"), ("SP", 1, "short"), ("SP", 1, "wide"), ("SW", 1, "same"), ("SW", 2, "same"),
                 ("SW", 1, "short"), ("SW", 1, "col"), ("IN", 0, "ok"), ("IN", 0, "short"), ("IN", 0, "list"), ("LG", 0, "ok"),
                 ("LG", 0, "neg"), ("LG", 0, "long"), ("RD", 0, "")]
        if kind == "AtomGrid":
            alpha += [("IP", 0, "N"), ("IP", 0, "short")]
    return [rng.choice(alpha) for _ in range(length)]


def _sys_validate(rep, wd, traces, meta):
    with open(wd / "traces_x01.json", "w") as f:
        json.dump(traces, f)
    res = tlc.run_tlc("ErrorPathsTrace", "Trace_ErrorPaths.cfg", wd, workers=1, timeout=1500).require_ok("Trace_ErrorPaths")
    rep.tlc(res, "Trace_ErrorPaths")
    acc = {t[1] for t in tlc.tagged(res.stdout, "ACCEPT")}
    rej = tlc.tagged(res.stdout, "REJECT")
    if res.status == "violation":
        st = tlc.last_state(res)
        tid = st.get("tid", 0)
        kind, beh = meta[tid - 1] if 0 < tid <= len(meta) else ("?", [])
        rep.violation(f"sys:{kind}:spec-invariant:{','.join(res.violated)}",
                      f"specification property {res.violated} fails while replaying a recorded trace", {"kind": kind, "behaviour": beh})
    elif len(acc) + len(rej) != len(traces):
        raise tlc.MachineryError(f"trace validation gave {len(acc)}+{len(rej)} verdicts for {len(traces)} traces")
    seen = set()
    for _, tid, pos, clause in rej:
        kind, beh = meta[tid - 1]
        ev = traces[tid - 1][pos - 1]
        key = f"sys:{kind}:{ev['act']}({ev['k']}):{clause}"
        if key in seen:
            continue
        seen.add(key)
        hist = ";".join(f"{e['act']}({e['k']}){'!' if e['exc'] else ''}" for e in traces[tid - 1][1:pos - 1])
        rep.violation(key, f"{kind}: event {pos - 1} of the recorded trace is not allowed by ErrorPathsSys: {clause}; preceding events "
                           f"[{hist}]; event {json.dumps(ev)[:300]}", {"kind": kind, "behaviour": beh, "position": pos - 1, "event": ev})
    rep.set("sys_traces", len(traces))
    rep.set("sys_traces_accepted", len(acc))
    return len(acc)


def _sys_part(rep, wd, tier, kinds=None):
    _memo("sys_model", lambda: _sys_model_runs(rep, wd))
    behs = _memo("behs", lambda: _sys_behaviours(rep, wd))
    kinds = list(kinds or SYS_KINDS)
    behs = [b for b in behs if b[0] in kinds]
    rng = random.Random(f"{rep.seed}:sys")
    if tier == "quick":
        sel = [b for b in behs if b[0] == "Scaled"] * 3
        for kind in kinds:
            if kind != "Scaled":
                sel += rng.sample([b for b in behs if b[0] == kind], 450)
        nrand = 300
    else:
        sel = [b for b in behs if b[0] == "Scaled"] * 3 + [b for b in behs if b[0] != "Scaled"]
        nrand = 3000
    for i in range(nrand):
        kind = kinds[i % len(kinds)]
        sel.append((kind, _random_beh(kind, rng, rng.randint(4, 12))))
    traces, meta = [], []
    used = set()
    for i, (kind, beh) in enumerate(sel):
        r = random.Random(f"{rep.seed}:sys:{i}")
        drv = SysDriver(kind, _Rng(r, np.random.default_rng(r.getrandbits(32))), variant=i)
        traces.append(drv.run(beh))
        meta.append((kind, [list(x) for x in beh]))
        rep.evaluated(len(beh), ("sys", kind, json.dumps(beh)))
        used.update((kind, a, v, k) for a, v, k in beh)
    _sys_validate(rep, wd, traces, meta)
    rep.set("sys_action_kinds_replayed", len(used))
    want = sum({"Scaled": 3, "AtomGrid": 17}.get(k, 15) for k in kinds)
    if len(used) != want:
        raise tlc.MachineryError(f"vacuity: {len(used)} of the {want} (kind, action) pairs of the alphabet were replayed")
    rep.sample({"kind": meta[0][0], "behaviour": meta[0][1], "events": traces[0][1:3]})
    rep.sample({"kind": meta[-1][0], "behaviour": meta[-1][1], "events": traces[-1][1:3]})


_MEMO: dict = {}


def _memo(key, fn):
    """The model-only TLC runs do not depend on the library: within one selftest process they are run once."""
    import os
    if not os.environ.get("VERIF_SELFTEST"):
        return fn()
    if key not in _MEMO:
        _MEMO[key] = fn()
    return _MEMO[key]


def _run(tier, ops=None, sys_kinds=None, tag=None, variants=None):
    """ops / sys_kinds = None: everything (the registered check).  A subset is used by replay and by the selftest
    (a mutant of one module is hunted with the entry points of that module)."""
    rep = Report(PROP, tier, "model_checking")
    wd = tlc.scratch(tag or f"{PROP}-{tier}")
    cases = _memo("cases", lambda: _enumerate(rep, wd))
    rep.set("cases_in_model", len(cases))
    rep.set("entry_points", sorted({c[0] for c in cases}))
    if ops is not None:
        cases = [c for c in cases if c[0] in ops]
    obs = _observe_cases(rep, wd, cases, variants or (1 if tier == "quick" else 4), rep.seed)
    if obs:
        _judge(rep, wd, obs, complete=ops is None)
    per_op, anyrule = {}, {}
    for o in obs:
        d = per_op.setdefault(o["op"], {"raised": 0, "accepted": 0})
        d["raised" if o["exc"] else "accepted"] += 1
    # (that every entry point has accepted and rejected cases, and that every clause decides some case, is the
    # invariant EveryClauseDecides of the enumerator run; the observed counts are recorded for the evidence)
    rep.set("observed_per_entry_point", per_op)
    rep.set("observed_exception_classes", sorted({o["exc"] for o in obs if o["exc"]}))
    rep.set("holes_accepted_but_not_documented_valid", sum(1 for c in cases if c[2] == 0 and not c[3]))
    if sys_kinds is None or sys_kinds:
        _sys_part(rep, wd, tier, sys_kinds)
    rep.set("traces_validated_against_impl", len(obs) + rep.cov.get("sys_traces", 0))
    for o in obs[:: max(1, len(obs) // 10)][:10]:
        rep.sample({k: o[k] for k in ("op", "a", "exc", "changed", "gain")})
    rep.set("rule", "one case = one concrete call built for an (entry point, abstract argument) pair enumerated by TLC, judged by "
                    "TLC (ErrorPathsJudge): raised <=> Rejects, exception class, atomic failure, cache accounting; or one recorded "
                    "event of a TLC-generated behaviour replayed on one object, judged by TLC (ErrorPathsTrace)")
    rep.set("exhaustive", ops is None and tier == "thorough")
    rep.assume("an attribute is observable if it is a public property of the receiver's class or a field of its instance dictionary "
               "(the lazily built neighbour tree excepted)")
    rep.assume("abstract arguments are concretised with VERIF_SEED-random values; the validation depends on the abstract attributes only")
    return rep.finish()


def run(tier: str) -> int:
    return _run(tier)


def replay(path: str) -> int:
    with open(path) as f:
        v = json.load(f)
    c = v.get("case") or {}
    if "op" in c:
        return _run("quick", ops=[c["op"]], sys_kinds=[], tag=f"{PROP}-replay")
    if "kind" in c:
        return _run("quick", ops=[], sys_kinds=[c["kind"]], tag=f"{PROP}-replay")
    return run("quick")


# --------------------------------------------------------------------------------------------
# selftest: in-process mutants of the library (never touches /repo); each is hunted with the entry points of
# the module it lives in (the first one with the complete check)

def selftest(tier: str = "quick") -> int:
    import contextlib

    from ..evidence import patched, run_mutants
    from ..srcmutant import mutate
    import grid.angular as ang
    import grid.atomgrid as agm
    import grid.basegrid as bg
    import grid.becke as bk
    import grid.cubic as cu
    import grid.molgrid as mg
    import grid.ngrid as ng
    import grid.periodicgrid as pg
    import grid.rtransform as rt

    def src(owner, name, old, new, count=1):
        @contextlib.contextmanager
        def cm():
            orig = mutate(owner, name, old, new, count)
            if isinstance(orig, staticmethod):
                setattr(owner, name, staticmethod(owner.__dict__[name]))
            try:
                yield
            finally:
                setattr(owner, name, orig)
        return cm

    def weights_set_before_validation():   # state written before validation: the rejected call leaves damage
        def setter(self, value):
            old = self._weights
            self._weights = value
            if value.shape != old.shape:
                raise ValueError("The shape of the new weights should match the shape of the old weights.")
        return patched(bg.Grid, "weights", property(bg.Grid.weights.fget, setter))

    def points_setter_checks_length_only():  # widened condition: only the number of rows is compared
        def setter(self, value):
            if len(value) != len(self._points):
                raise ValueError("The shape of the new points should match the shape of the old points.")
            self._points = value
            self._kdtree = None
        return patched(bg.Grid, "points", property(bg.Grid.points.fget, setter))

    def rejected_assignment_restores_constructor_array():
        # only an interleaving sees it: after an ACCEPTED assignment a rejected one puts the constructor's array back
        @contextlib.contextmanager
        def cm():
            orig = bg.Grid.__init__

            def init(self, points, weights):
                orig(self, points, weights)
                self._p0 = points

            def setter(self, value):
                if value.shape != self._points.shape:
                    self._points = self._p0
                    raise ValueError("The shape of the new points should match the shape of the old points.")
                self._points = value
                self._kdtree = None
            with patched(bg.Grid, "__init__", init), patched(bg.Grid, "points", property(bg.Grid.points.fget, setter)):
                yield
        return cm()

    BASE = ["Grid.new", "Grid.points.set", "Grid.weights.set", "Grid.integrate", "Grid.get_localgrid", "Grid.getitem", "Grid.moments",
            "LocalGrid.new", "OneDGrid.new", "Grid.save"]
    ANG = ["AngularGrid.new", "AngularGrid.convert"]
    ATOM = ["AtomGrid.new", "AtomGrid.shells", "AtomGrid.from_preset", "AtomGrid.from_pruned", "AtomGrid.get_shell_grid",
            "AtomGrid.integrate_angular", "AtomGrid.interpolate", "AtomGrid.interpolate_call"]
    RT = ["RTransform.new", "InverseRTransform.new", "Becke.find_parameter", "RTransform.transform_1d_grid", "Hyperbolic.transform",
          "Scaled.transform"]
    MOL = ["MolGrid.new", "MolGrid.from_preset", "MolGrid.from_size", "MolGrid.from_pruned", "MolGrid.get_atomic_grid", "MolGrid.getitem"]
    REST = ["PeriodicGrid.new", "PeriodicGrid.get_localgrid", "Tensor1DGrids.new", "UniformGrid.new", "UniformGrid.from_molecule",
            "UniformGrid.from_cube", "MultiDomainGrid.new", "MultiDomainGrid.method", "BeckeWeights.new", "BeckeWeights.weights",
            "HirshfeldWeights.call"]
    GRIDS = ["Grid", "OneDGrid", "PeriodicGrid"]
    # (name, context manager factory, entry points, kinds of the state machine part)
    muts = [
        ("weights-set-before-validation", weights_set_before_validation, None, None),
        ("points-setter-checks-length-only", points_setter_checks_length_only, BASE, GRIDS),
        ("rejected-points-assignment-restores-constructor-array", rejected_assignment_restores_constructor_array, BASE, GRIDS),
        ("Grid-drops-weights-ndim-check", src(bg.Grid, "__init__", "if weights.ndim != 1:", "if False:"), BASE, []),
        ("integrate-shape-check-before-type-check", src(bg.Grid, "integrate", "if not isinstance(array, np.ndarray):",
                                                        "if np.shape(array) != (self.size,):\n            raise ValueError('shape')\n"
                                                        "        if not isinstance(array, np.ndarray):"), BASE, []),
        ("localgrid-rejects-zero-radius", src(bg.Grid, "get_localgrid", "if radius < 0:", "if radius <= 0:"), BASE, []),
        ("OneDGrid-domain-slack-dropped", src(bg.OneDGrid, "__init__", "domain[0] - 1e-7 > min_p", "domain[0] > min_p"), BASE, []),
        ("moments-orders-check-dropped", src(bg.Grid, "moments", 'if type_mom == "pure-radial" and orders == 0:', "if False:"), BASE, []),
        ("angular-cache-false-still-caches", src(ang.AngularGrid, "__init__", "if cache:", "if True:"), ANG, []),
        ("angular-largest-degree-rejected", src(ang.AngularGrid, "_get_degree_and_size", "degree > max_degree", "degree >= max_degree"), ANG, []),
        ("angular-float-size-accepted", src(ang.AngularGrid, "_get_degree_and_size",
                                            "isinstance(size, int | np.integer) and size >= 0", "size >= 0"), ANG, []),
        ("shell-index-negative-accepted", src(agm.AtomGrid, "get_shell_grid", "0 <= index < len(self.degrees)",
                                              "-len(self.degrees) <= index < len(self.degrees)"), ATOM, []),
        ("rgrid-type-error-becomes-value-error", src(agm.AtomGrid, "_input_type_check",
                                                     'raise TypeError(f"Argument rgrid is not an instance', 'raise ValueError(f"Argument rgrid is not an instance'), ATOM, []),
        ("center-checked-before-rgrid", src(agm.AtomGrid, "_input_type_check", "if not isinstance(rgrid, OneDGrid):",
                                            "if center.shape != (3,):\n        raise ValueError('center')\n    if not isinstance(rgrid, OneDGrid):"), ATOM, []),
        ("basis-built-before-size-check", src(agm.AtomGrid, "radial_component_splines", "if func_vals.size != self.size:",
                                              "if self._basis is None:\n        theta, phi = self.convert_cartesian_to_spherical().T[1:]\n"
                                              "        self._basis = generate_real_spherical_harmonics(self.l_max // 2, theta, phi)\n"
                                              "    if func_vals.size != self.size:"), ATOM, ["AtomGrid"]),
        ("rotate-upper-bound-dropped", src(agm.AtomGrid, "__init__", "not 0 <= rotate < 2**32 - len(rgrid.points)", "not 0 <= rotate"), ATOM, []),
        ("power-rmin-zero-accepted", src(rt.PowerRTransform, "__init__", "rmin <= 0 or rmax <= 0", "rmin < 0 or rmax <= 0"), RT, []),
        ("transform-1d-upper-bound-swapped", src(rt.BaseTransform, "transform_1d_grid", "oned_grid.domain[1] > self.domain[1]",
                                                 "oned_grid.domain[1] > self.domain[0]"), RT, []),
        ("hyperbolic-deriv-check-dropped", src(rt.HyperbolicRTransform, "deriv", "if self._b * (x.size - 1) >= 1.0:", "if False:"), RT, []),
        ("scale-retaken-on-every-call", src(rt.ExpRTransform, "set_maximum_parameter_b", "if self.b is None:", "if True:"), RT, ["Scaled"]),
        ("molgrid-negative-index-accepted", src(mg.MolGrid, "get_atomic_grid", "if index < 0:", "if False:"), MOL, []),
        ("molgrid-aim-weights-list-let-through", src(mg.MolGrid, "__init__", "elif isinstance(aim_weights, np.ndarray):",
                                                     "elif isinstance(aim_weights, (np.ndarray, list)):"), MOL, []),
        ("periodic-too-many-vectors-accepted", src(pg.PeriodicGrid, "__init__", "if ncellvec > npointdim:", "if False:"), REST, []),
        ("uniformgrid-list-origin-value-error", src(cu.UniformGrid, "__init__",
                                                    'raise TypeError(f"Argument origin should be', 'raise ValueError(f"Argument origin should be'), REST, []),
        ("multidomain-zero-domains-accepted", src(ng.MultiDomainGrid, "__init__", "num_domains < 1", "num_domains < 0"), REST, []),
        ("becke-order-check-dropped", src(bk.BeckeWeights, "__init__", "if not isinstance(order, int):", "if False:"), REST, []),
    ]
    import os
    only = os.environ.get("VERIF_MUTANTS")
    if only:
        muts = [m for m in muts if any(t.strip() and t.strip() in m[0] for t in only.split(","))]
    _MEMO.clear()
    runs = []
    for name, cm, ops, kinds in muts:
        runs.append((name, cm, (lambda t, o=ops, k=kinds, n=name: _run(t, ops=o, sys_kinds=k, tag=f"{PROP}-selftest"))))
    # run_mutants drives one `run` for all mutants: dispatch on the mutant being applied
    state = {}

    def factory(name, cm):
        @contextlib.contextmanager
        def wrapped():
            state["name"] = name
            with cm():
                yield
        return wrapped
    table = {name: r for name, _, r in runs}
    return run_mutants(PROP, lambda t: table[state["name"]](t), [(name, factory(name, cm)) for name, cm, _ in runs], tier)
