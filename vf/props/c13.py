"""C13 - rectilinear grids: layout, index maps, weights, molecule box, closest point, cube I/O,
interpolation.

Specification: spec/Cubic.tla (definitions) + spec/MC_Cubic*.tla (state machines, judges).
Every family follows the same flow:
  1. TLC run with Emit=TRUE: the specification writes the cases (and, for real-valued clauses, the
     expected values / expression trees it derives) to a JSON file;
  2. the harness replays every case into grid.cubic and records what the implementation did;
  3. TLC run on the model: checks the model invariants over the whole bounded input space and judges
     the recorded integer observations against the declarative definitions (MISMATCH lines);
     real-valued observations are compared by the harness with the spec-derived values.

Tolerances (calibration on the pinned tree, see _calibration notes at each family):
  weights      rtol 1e-12   (largest deviation measured 4.5e-16; a wrong scheme is off by >= 1e-2)
  box origin   atol 1e-12   (measured <= 9e-16)
  interpolation: |err| <= 2e-9 * scale / h^nu  (measured <= 3e-12 * scale / h^nu, mutants >= 1e-3),
               scale = sum |c| |x|^i |y|^j |z|^k over the grid box (for the log variant: times f)
  cube files   geometry 5.1e-7 absolute (printed with 6 decimals), data 5.1e-6 relative (6 digits),
               exact for values that are printable without rounding
"""
from __future__ import annotations

import json
import math
import os
import random
from fractions import Fraction
from pathlib import Path

import numpy as np

from .. import tlc
from ..evidence import Report
from ..expr_eval import evaluate

PROP = "C13"


# --------------------------------------------------------------------------------------------
# helpers

def _cfg(wd: Path, name: str, consts: dict, invariants=(), spec="Spec") -> Path:
    lines = [f"SPECIFICATION {spec}"]
    if consts:
        lines.append("CONSTANTS")
        for k, v in consts.items():
            lines.append(f" {k} = {tlc.tla(v)}")
    for inv in invariants:
        lines.append(f"INVARIANT {inv}")
    p = wd / name
    p.write_text("\n".join(lines) + "\n")
    return p


def _obs_module(wd: Path, module: str, op: str, jsonfile: str | None):
    body = f'{op} == JsonDeserialize("{jsonfile}")' if jsonfile else f"{op} == <<>>"
    (wd / f"{module}.tla").write_text(
        f"---- MODULE {module} ----\nEXTENDS Json\n{body}\n====\n")


class _NotInt(Exception):
    pass


def _int(x) -> int:
    """Exact integer value of an observation (the layout cases are integer lattices)."""
    f = float(x)
    if not math.isfinite(f) or f != int(f):
        raise _NotInt(repr(x))
    return int(f)


def _ints(a):
    a = np.asarray(a)
    if a.ndim == 0:
        return _int(a)
    return [_ints(x) for x in a]


def _emit(module, wd, consts, fname):
    cfg = _cfg(wd, f"{module}_emit.cfg", {**consts, "Emit": True})
    res = tlc.run_tlc(module, cfg, wd, workers=1, timeout=900).require_ok(module + " emit")
    if res.status != "ok" or not (wd / fname).exists():
        raise tlc.MachineryError(f"{module}: case emission failed\n{res.stdout[-3000:]}")
    with open(wd / fname) as f:
        return json.load(f), res


def _model_violation(rep, res, family):
    if res.status == "violation":
        st = tlc.last_state(res)
        rep.violation(f"model:{family}:{','.join(res.violated)}",
                      f"TLC: invariant(s) {res.violated} of the {family} model violated; last state {st}", st)


# --------------------------------------------------------------------------------------------
# family 1: layout, index maps, point law, tensor products

LAYOUT_INVARIANTS = [
    "StridesAgree", "IndexIsBijection", "LexicographicOrder", "NumpyUniformLayout", "NumpyTensorLayout",
    "Separable", "PointLawInjective", "CodeMapsAreTheDefinition", "RoundTrips", "LastIndexFastest",
    "JudgeI2C", "JudgeC2I", "JudgePoints", "JudgeWeights", "JudgeAlong", "JudgeSeparable", "ObsCoverShapes",
]


def _blank(kind, shape):
    return {"kind": kind, "shape": list(shape), "origin": [], "axes": [], "nodes": [], "w1d": [],
            "i2c": [], "c2i": [], "pts": [], "wts": [], "along": [], "integ": []}


def _index_maps(g, shape, rec, fail):
    n = int(np.prod(shape))
    try:
        rec["i2c"] = [[_int(v) for v in g.index_to_coordinates(i)] for i in range(n)]
    except Exception as e:
        fail("index_to_coordinates", e)
    try:
        out = []
        for c in np.ndindex(*shape):
            out.append([list(map(int, c)), _int(g.coordinates_to_index(tuple(int(v) for v in c)))])
        rec["c2i"] = out
    except Exception as e:
        fail("coordinates_to_index", e)


def _obs_uniform(shape, origin, axes, full, along, fail):
    from grid.cubic import UniformGrid
    rec = _blank("uniform", shape)
    rec["origin"], rec["axes"] = list(origin), [list(r) for r in axes]
    try:
        g = UniformGrid(np.array(origin, float), np.array(axes, float), np.array(shape, int))
    except Exception as e:
        fail("UniformGrid", e)
        return rec
    try:
        rec["pts"] = _ints(g.points)
    except Exception as e:
        fail("points", e)
    if full:
        _index_maps(g, shape, rec, fail)
    if along:
        try:
            rec["along"] = [_ints(a) for a in g.get_points_along_axes()]
        except Exception as e:
            fail("get_points_along_axes", e)
    return rec


def _obs_tensor(case, fail):
    from grid.basegrid import OneDGrid
    from grid.cubic import Tensor1DGrids
    shape = case["shape"]
    rec = _blank("tensor", shape)
    rec["nodes"], rec["w1d"] = case["nodes"], case["w1d"]
    try:
        oned = [OneDGrid(np.array(p, float), np.array(w, float)) for p, w in zip(case["nodes"], case["w1d"])]
        g = Tensor1DGrids(*oned)
    except Exception as e:
        fail("Tensor1DGrids", e)
        return rec
    try:
        if tuple(int(v) for v in g.shape) != tuple(shape):
            raise ValueError(f"shape attribute {g.shape}")
        rec["pts"] = _ints(g.points)
        rec["wts"] = _ints(g.weights)
    except Exception as e:
        fail("points/weights", e)
    _index_maps(g, shape, rec, fail)
    try:
        rec["along"] = [_ints(a) for a in g.get_points_along_axes()]
    except Exception as e:
        fail("get_points_along_axes", e)
    try:
        vals = np.ones(len(g.points))
        for d, tags in enumerate(case["ftags"]):
            lut = {float(p): t for p, t in zip(case["nodes"][d], tags)}
            vals = vals * np.array([lut[float(x)] for x in g.points[:, d]], float)
        rec["integ"] = [_int(g.integrate(vals))]
    except Exception as e:
        fail("integrate", e)
    return rec


def _family_layout(rep: Report, tier: str, wd: Path):
    consts = {"MinM": 2, "MaxM": 4 if tier == "quick" else 5, "NumpyMaxM": 3 if tier == "quick" else 4,
              "Seed": rep.seed, "NRandom3": 300 if tier == "quick" else 3000, "AllSmall3": tier != "quick"}
    _obs_module(wd, "Obs_layout", "LayoutObs", None)
    cases, _ = _emit("MC_CubicLayout", wd, consts, "cases_layout.json")
    obs = []

    def failer(key):
        def fail(call, e):
            rep.violation(f"layout:{key}:{call}", f"{call} failed on an admissible grid ({key}): {type(e).__name__}: {e}")
        return fail

    for c in cases["shapes"]:
        sh = c["shape"]
        tag = "x".join(map(str, sh))
        obs.append(_obs_uniform(sh, c["origin"], c["skew"], True, False, failer(f"uniform:skew:shape={tag}")))
        obs.append(_obs_uniform(sh, c["origin"], c["diag"], False, True, failer(f"uniform:diag:shape={tag}")))
        obs.append(_obs_tensor(c, failer(f"tensor:shape={tag}")))
        rep.evaluated(3, ("layout", tag))
    for a in cases["axes2"]:
        obs.append(_obs_uniform([2, 3], [1, -2], a, False, False, failer(f"uniform:axes={a}")))
    for a in cases["axes3"]:
        obs.append(_obs_uniform([2, 3, 2], [1, -2, 3], a, False, False, failer(f"uniform:axes={a}")))
    for c in cases["random3"]:
        obs.append(_obs_uniform(c["shape"], [-1, 2, 0], c["axes"], False, False, failer(f"uniform:axes={c['axes']}")))
    nax = len(cases["axes2"]) + len(cases["axes3"]) + len(cases["random3"])
    rep.evaluated(nax, ("layout", "axes"))
    rep.set("layout_axes_cases", nax)
    rep.sample({"family": "layout", "case": cases["shapes"][-1], "observed_points_head": obs[3 * len(cases["shapes"]) - 3]["pts"][:4]})
    with open(wd / "obs_layout.json", "w") as f:
        json.dump(obs, f)
    _obs_module(wd, "Obs_layout", "LayoutObs", "obs_layout.json")
    cfg = _cfg(wd, "MC_CubicLayout.cfg", {**consts, "Emit": False}, LAYOUT_INVARIANTS)
    res = tlc.run_tlc("MC_CubicLayout", cfg, wd, workers=16, timeout=1500).require_ok("MC_CubicLayout")
    rep.tlc(res, "MC_CubicLayout")
    _model_violation(rep, res, "layout")
    for t in _tagged(res.stdout, "MISMATCH"):
        _, r, clause, at, want, got = t
        if r == 0:
            rep.violation(f"layout:{clause}:{at}", f"shape {at} was not observed for grid class {want}")
            continue
        o = obs[r - 1]
        where = f"shape={'x'.join(map(str, o['shape']))}"
        if o["kind"] == "uniform":
            where += f":axes={o['axes']}"
        rep.violation(f"layout:{o['kind']}:{clause}:{where}",
                      f"{o['kind']} grid {where}: {clause} at {at}: specification {want}, implementation {got}",
                      {"record": {k: v for k, v in o.items() if k in ('kind', 'shape', 'origin', 'axes', 'nodes', 'w1d')},
                       "clause": clause, "at": at, "spec": want, "observed": got})
    return len(obs)


# --------------------------------------------------------------------------------------------
# family 2: weighting schemes

W_RTOL = 1e-12       # rational schemes; measured max relative deviation 4.5e-16
W_F1_RTOL = 1e-10    # Fourier1 (sums of sines); measured max relative deviation 2e-15
W_SUM_SLACK = 1e-12
STATS = {}


def _stat(name, value):
    STATS[name] = max(STATS.get(name, 0.0), float(value))


def _family_weights(rep: Report, tier: str, wd: Path):
    from grid.cubic import UniformGrid
    consts = {"MaxW": 8 if tier == "quick" else 12, "CaseMax": 4 if tier == "quick" else 5}
    cfg = _cfg(wd, "MC_CubicWeights.cfg", {**consts, "Emit": True}, ["WeightSumBound", "WeightSums", "VolumeLaw"])
    res = tlc.run_tlc("MC_CubicWeights", cfg, wd, workers=16, timeout=900).require_ok("MC_CubicWeights")
    rep.tlc(res, "MC_CubicWeights")
    _model_violation(rep, res, "weights")
    with open(wd / "cases_weights.json") as f:
        cases = json.load(f)
    n = 0
    for c in cases:
        shape = c["shape"]
        dim = len(shape)
        tag = "x".join(map(str, shape))
        vol = c["volume"]
        bound = Fraction(*c["bound"])
        for scheme in ("Rectangle", "Trapezoid", "Alternative", "Fourier1", "Fourier2"):
            n += 1
            rep.evaluated(1, ("weights", scheme, dim))
            try:
                g = UniformGrid(np.zeros(dim), np.array(c["axes"], float), np.array(shape, int), weight=scheme)
                w = np.asarray(g.weights, float)
                if w.shape != (int(np.prod(shape)),) or not np.all(np.isfinite(w)):
                    raise ValueError(f"weights have shape {w.shape} / non-finite entries")
            except Exception as e:
                rep.violation(f"weights:{scheme}:dim={dim}:construct:shape={tag}",
                              f"UniformGrid(shape={shape}, weight={scheme!r}) does not construct: {type(e).__name__}: {e}",
                              {"shape": shape, "axes": c["axes"], "scheme": scheme})
                continue
            dev = abs(float(w.sum()) / vol - 1.0)
            if dev > float(bound) + W_SUM_SLACK:
                rep.violation(f"weights:{scheme}:dim={dim}:sum-bound:shape={tag}",
                              f"weight={scheme!r} shape={shape}: |sum(w)/V - 1| = {dev:.6g} exceeds sum(1/M_i) = {float(bound):.6g} "
                              f"(sum(w) = {w.sum():.6g}, V = {vol}, min weight {w.min():.3g})",
                              {"shape": shape, "axes": c["axes"], "scheme": scheme, "deviation": dev, "bound": float(bound)})
            key = {"Rectangle": "rect", "Trapezoid": "trap", "Alternative": "alt"}.get(scheme)
            if key:
                want = float(Fraction(*c[key]) * vol)
                err = float(np.max(np.abs(w - want))) / want
                _stat("weights_rational_relerr", err)
                if err > W_RTOL:
                    rep.violation(f"weights:{scheme}:dim={dim}:value:shape={tag}",
                                  f"weight={scheme!r} shape={shape}: documented weight {want!r}, implementation "
                                  f"{w[int(np.argmax(np.abs(w - want)))]!r}",
                                  {"shape": shape, "axes": c["axes"], "scheme": scheme, "spec": want})
            elif scheme == "Fourier1" and (tier != "quick" or np.prod(shape) <= 200):
                names = ["i", "j", "k"][:dim]
                worst, at = 0.0, None
                for flat, idx in enumerate(np.ndindex(*shape)):
                    env = {nm: int(v) + 1 for nm, v in zip(names, idx)}
                    want = vol * evaluate(c["fourier1"], env, "float")
                    err = abs(w[flat] - want) / abs(want)
                    if err > worst:
                        worst, at = err, (idx, want, float(w[flat]))
                _stat("weights_fourier1_relerr", worst)
                if worst > W_F1_RTOL:
                    rep.violation(f"weights:Fourier1:dim={dim}:value:shape={tag}",
                                  f"weight='Fourier1' shape={shape}: at coordinates {at[0]} documented weight {at[1]!r}, "
                                  f"implementation {at[2]!r}", {"shape": shape, "axes": c["axes"], "at": list(at[0])})
    rep.sample({"family": "weights", "shape": cases[-1]["shape"], "axes": cases[-1]["axes"], "volume": cases[-1]["volume"],
                "trapezoid_w_over_V": cases[-1]["trap"], "bound": cases[-1]["bound"]})
    return n


# --------------------------------------------------------------------------------------------
# family 3: UniformGrid.from_molecule

BOX_ATOL = 1e-12      # origin / margin, exact dyadic inputs; measured <= 9e-16 (rotate=False)
BOX_SLACK = 1e-9      # enclosure predicate on floats (rotate=True goes through eigh)


def _tagged(stdout, tag):
    """tlc.tagged, also for values that TLC pretty-prints over several lines (<< "TAG", ...)."""
    return tlc.tagged(stdout.replace('<< "', '<<"'), tag)


def _molkey(zs, xs, sp, ex):
    return f"Z={zs}:X={[[float(v) for v in x] for x in xs]}:spacing={float(sp)}:extension={float(ex)}"


def _box_worker(case):
    """Replay one emitted case (rotate=False and rotate=True); returns (violations, stats)."""
    from grid.cubic import UniformGrid
    _, mol, sp, ex, shape, origin, margin, encloses, centred = case
    zs = [a[0] for a in mol]
    xs = [[Fraction(*q) for q in a[1]] for a in mol]
    sp, ex = Fraction(*sp), Fraction(*ex)
    origin = [Fraction(*q) for q in origin]
    margin = Fraction(*margin)
    key = _molkey(zs, xs, sp, ex)
    cls = "com=midpoint" if centred else "com!=midpoint"
    info = {"atcorenums": zs, "atcoords": [[float(v) for v in x] for x in xs], "spacing": float(sp),
            "extension": float(ex), "spec_shape": shape, "spec_origin": [float(v) for v in origin],
            "spec_margin": float(margin), "spec_encloses": encloses}
    out, stats = [], {}
    znp = np.array(zs, float)
    xnp = np.array([[float(v) for v in x] for x in xs])
    need = float(ex - sp)
    # ---- rotate=False: exact arithmetic of the box + the enclosure law
    try:
        g = UniformGrid.from_molecule(znp, xnp, spacing=float(sp), extension=float(ex), rotate=False)
        gshape = [int(v) for v in g.shape]
        lo, hi = g.points.min(axis=0), g.points.max(axis=0)
        gmargin = float(min((xnp - lo).min(), (hi - xnp).min()))
        if gshape != list(shape):
            out.append((f"from_molecule:box-arithmetic:shape:{key}",
                        f"from_molecule(rotate=False) {key}: number of points {gshape}, specification {shape}", info))
        else:
            err = float(np.max(np.abs(np.asarray(g.origin, float) - np.array([float(v) for v in origin]))))
            stats["box_origin_abserr"] = err
            if err > BOX_ATOL or abs(gmargin - float(margin)) > 1e-9:
                out.append((f"from_molecule:box-arithmetic:origin:{key}",
                            f"from_molecule(rotate=False) {key}: origin {list(map(float, g.origin))} margin {gmargin}, "
                            f"specification of the shipped rule origin {[float(v) for v in origin]} margin {float(margin)}", info))
        if gmargin < need - BOX_SLACK:
            out.append((f"from_molecule:enclosure:{cls}:{key}",
                        f"from_molecule(rotate=False) {key}: a nucleus is {gmargin:.6g} from the box boundary "
                        f"(negative = outside); required margin extension - spacing = {need:.6g}; box {lo.tolist()}..{hi.tolist()}",
                        {**info, "observed_margin": gmargin}))
    except Exception as e:
        out.append((f"from_molecule:raises:{key}", f"from_molecule(rotate=False) {key} raised {type(e).__name__}: {e}", info))
    # ---- rotate=True: the enclosure law as a predicate on the resulting grid
    try:
        g = UniformGrid.from_molecule(znp, xnp, spacing=float(sp), extension=float(ex), rotate=True)
        axes = np.asarray(g.axes, float)
        frame = axes / float(sp)
        if not np.allclose(frame @ frame.T, np.eye(3), atol=1e-9):
            out.append((f"from_molecule:rotate:axes:{key}", f"from_molecule(rotate=True) {key}: axes/spacing is not orthonormal", info))
        else:
            t = (xnp - np.asarray(g.origin, float)) @ np.linalg.inv(axes)      # fractional coordinates of the nuclei
            top = np.array(g.shape, float) - 1.0
            gmargin = float(min(t.min(), (top - t).min())) * float(sp)
            com = znp @ xnp / znp.sum()
            tc = (com - np.asarray(g.origin, float)) @ np.linalg.inv(axes)
            mid = 0.5 * (t.max(axis=0) + t.min(axis=0))
            rcls = "com=midpoint" if float(np.max(np.abs(mid - tc))) * float(sp) < 1e-9 else "com!=midpoint"
            if gmargin < need - BOX_SLACK:
                out.append((f"from_molecule:rotate:enclosure:{rcls}:{key}",
                            f"from_molecule(rotate=True) {key}: a nucleus is {gmargin:.6g} from the box boundary "
                            f"(negative = outside); required margin {need:.6g}", {**info, "observed_margin": gmargin}))
    except Exception as e:
        out.append((f"from_molecule:rotate:raises:{key}", f"from_molecule(rotate=True) {key} raised {type(e).__name__}: {e}", info))
    return out, stats, (len(zs), cls)


def _family_box(rep: Report, tier: str, wd: Path):
    consts = ({"MaxAtoms": 2, "ZPool": {1, 8, 50}, "ZPool3": {1}} if tier == "quick"
              else {"MaxAtoms": 3, "ZPool": {1, 6, 8, 50}, "ZPool3": {1, 8, 50}})
    cfg = _cfg(wd, "MC_CubicBox.cfg", consts, ["MidpointBoxEncloses", "ShippedBoxEnclosesWhenCentred", "SizeRule", "EmitCase"])
    res = tlc.run_tlc("MC_CubicBox", cfg, wd, workers=16, timeout=1500).require_ok("MC_CubicBox")
    rep.tlc(res, "MC_CubicBox")
    _model_violation(rep, res, "box")
    cases = _tagged(res.stdout, "BOX")
    if not cases:
        raise tlc.MachineryError("MC_CubicBox emitted no case")
    import multiprocessing as mp
    with mp.get_context("fork").Pool(16) as pool:
        results = pool.map(_box_worker, cases, chunksize=64)
    for (viol, stats, dk), case in zip(results, cases):
        rep.evaluated(2, ("box",) + dk)
        for k, v in stats.items():
            _stat(k, v)
        for key, what, info in viol:
            rep.violation(key, what, info)
    rep.set("box_cases", len(cases))
    rep.sample({"family": "from_molecule", "tlc_case": cases[len(cases) // 2]})
    return 2 * len(cases)


# --------------------------------------------------------------------------------------------

def run(tier: str) -> int:
    rep = Report(PROP, tier, "model_checking")
    wd = tlc.scratch(f"{PROP}-{tier}")
    n = 0
    n += _family_layout(rep, tier, wd)
    n += _family_weights(rep, tier, wd)
    n += _family_box(rep, tier, wd)
    rep.set("traces_validated_against_impl", n)
    rep.set("exhaustive", True)
    rep.set("rule", "one case = one grid / call emitted by the specification and replayed into grid.cubic")
    rep.set("measured_max_errors", {k: float(f"{v:.3g}") for k, v in sorted(STATS.items())})
    return rep.finish()
