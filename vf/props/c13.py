"""C13 - rectilinear grids: layout, index maps, weights, molecule box, closest point, cube I/O,
interpolation.

Specification: spec/Cubic.tla (definitions) + spec/MC_Cubic*.tla (state machines, judges).
Every family follows the same flow:
  1. TLC run with Emit=TRUE: the specification writes the cases (and, for real-valued clauses, the
     expected values / expression trees it derives) to a JSON file;
  2. the harness replays every case into grid.cubic and records what the implementation did;
  3. TLC run on the model: checks the model invariants over the whole bounded input space and judges
     the recorded integer observations against the declarative definitions (MISMATCH lines);
     real-valued observations are compared by the harness with the spec-derived values.

Tolerances (calibration on the pinned tree, quick+thorough, seeds 0-2; the measured maxima are
also written to evidence coverage.measured_max_errors on every run):
  weights      rational schemes rtol 1e-12 (measured 5.6e-16), Fourier1 rtol 1e-10 (measured 1.2e-15);
               a wrong scheme is off by >= 1e-2
  box origin   atol 1e-12 (measured 8.9e-16; dyadic inputs, the arithmetic is exact up to the division by
               the total charge)
  interpolation |err| <= 2e-9 * scale / h^nu, i.e. 9e6 * eps * scale / h^nu (measured <= 91 * eps * scale / h^nu;
               every interpolation mutant >= 1e14 * eps * scale / h^nu), scale = sum |c| |X|^i |Y|^j |Z|^k over the grid box (for the log
               variant exp(that sum)), h^nu = prod_d (smallest node distance along d)^nu_d; linear: 1e-12 * scale
               (measured 2.2e-16)
  cube files   values that are printable without rounding must be read back bit-identically; arbitrary doubles
               to half a unit of the last printed digit (geometry 5.01e-7 absolute, data 5.01e-6 relative);
               angstrom factor rtol 1e-8 (spec constant truncated at 2e-10, CODATA revisions differ by 7e-10)
"""
from __future__ import annotations

import json
import math
import os
import random
from fractions import Fraction
from pathlib import Path

import numpy as np

from .. import tlc
from ..evidence import Report
from ..expr_eval import evaluate

PROP = "C13"


# --------------------------------------------------------------------------------------------
# helpers

def _cfg(wd: Path, name: str, consts: dict, invariants=(), spec="Spec") -> Path:
    lines = [f"SPECIFICATION {spec}"]
    if consts:
        lines.append("CONSTANTS")
        for k, v in consts.items():
            lines.append(f" {k} = {tlc.tla(v)}")
    for inv in invariants:
        lines.append(f"INVARIANT {inv}")
    p = wd / name
    p.write_text("\n".join(lines) + "\n")
    return p


def _obs_module(wd: Path, module: str, op: str, jsonfile: str | None):
    body = f'{op} == JsonDeserialize("{jsonfile}")' if jsonfile else f"{op} == <<>>"
    (wd / f"{module}.tla").write_text(
        f"---- MODULE {module} ----\nEXTENDS Json\n{body}\n====\n")


class _NotInt(Exception):
    pass


def _int(x) -> int:
    """Exact integer value of an observation (the layout cases are integer lattices)."""
    f = float(x)
    if not math.isfinite(f) or f != int(f) or abs(f) >= 2 ** 30:     # TLC integers are 32 bit
        raise _NotInt(repr(x))
    return int(f)


def _ints(a):
    a = np.asarray(a)
    if a.ndim == 0:
        return _int(a)
    return [_ints(x) for x in a]


def _emit(module, wd, consts, fname):
    cfg = _cfg(wd, f"{module}_emit.cfg", {**consts, "Emit": True})
    res = tlc.run_tlc(module, cfg, wd, workers=1, timeout=900).require_ok(module + " emit")
    if res.status != "ok" or not (wd / fname).exists():
        raise tlc.MachineryError(f"{module}: case emission failed\n{res.stdout[-3000:]}")
    with open(wd / fname) as f:
        return json.load(f), res


def _model_violation(rep, res, family):
    if res.status == "violation":
        st = tlc.last_state(res)
        rep.violation(f"model:{family}:{','.join(res.violated)}",
                      f"TLC: invariant(s) {res.violated} of the {family} model violated; last state {st}", st)


# --------------------------------------------------------------------------------------------
# family 1: layout, index maps, point law, tensor products

LAYOUT_INVARIANTS = [
    "StridesAgree", "IndexIsBijection", "LexicographicOrder", "NumpyUniformLayout", "NumpyTensorLayout",
    "Separable", "PointLawInjective", "CodeMapsAreTheDefinition", "RoundTrips", "LastIndexFastest",
    "JudgeI2C", "JudgeC2I", "JudgePoints", "JudgeWeights", "JudgeAlong", "JudgeSeparable", "ObsCoverShapes",
]


def _blank(kind, shape):
    return {"kind": kind, "shape": list(shape), "origin": [], "axes": [], "nodes": [], "w1d": [],
            "i2c": [], "c2i": [], "pts": [], "wts": [], "along": [], "integ": []}


def _index_maps(g, shape, rec, fail):
    n = int(np.prod(shape))
    try:
        rec["i2c"] = [[_int(v) for v in g.index_to_coordinates(i)] for i in range(n)]
    except Exception as e:
        fail("index_to_coordinates", e)
    try:
        out = []
        for c in np.ndindex(*shape):
            out.append([list(map(int, c)), _int(g.coordinates_to_index(tuple(int(v) for v in c)))])
        rec["c2i"] = out
    except Exception as e:
        fail("coordinates_to_index", e)


def _obs_uniform(shape, origin, axes, full, along, fail):
    from grid.cubic import UniformGrid
    rec = _blank("uniform", shape)
    rec["origin"], rec["axes"] = list(origin), [list(r) for r in axes]
    try:
        g = UniformGrid(np.array(origin, float), np.array(axes, float), np.array(shape, int))
    except Exception as e:
        fail("UniformGrid", e)
        return rec
    try:
        rec["pts"] = _ints(g.points)
    except Exception as e:
        fail("points", e)
    if full:
        _index_maps(g, shape, rec, fail)
    if along:
        try:
            rec["along"] = [_ints(a) for a in g.get_points_along_axes()]
        except Exception as e:
            fail("get_points_along_axes", e)
    return rec


def _obs_tensor(case, fail):
    from grid.basegrid import OneDGrid
    from grid.cubic import Tensor1DGrids
    shape = case["shape"]
    rec = _blank("tensor", shape)
    rec["nodes"], rec["w1d"] = case["nodes"], case["w1d"]
    try:
        oned = [OneDGrid(np.array(p, float), np.array(w, float)) for p, w in zip(case["nodes"], case["w1d"])]
        g = Tensor1DGrids(*oned)
    except Exception as e:
        fail("Tensor1DGrids", e)
        return rec
    try:
        if tuple(int(v) for v in g.shape) != tuple(shape):
            raise ValueError(f"shape attribute {g.shape}")
        rec["pts"] = _ints(g.points)
        rec["wts"] = _ints(g.weights)
    except Exception as e:
        fail("points/weights", e)
    _index_maps(g, shape, rec, fail)
    try:
        rec["along"] = [_ints(a) for a in g.get_points_along_axes()]
    except Exception as e:
        fail("get_points_along_axes", e)
    try:
        vals = np.ones(len(g.points))
        for d, tags in enumerate(case["ftags"]):
            lut = {float(p): t for p, t in zip(case["nodes"][d], tags)}
            vals = vals * np.array([lut[float(x)] for x in g.points[:, d]], float)
        rec["integ"] = [_int(g.integrate(vals))]
    except Exception as e:
        fail("integrate", e)
    return rec


def _family_layout(rep: Report, tier: str, wd: Path):
    consts = {"MinM": 2, "MaxM": 4 if tier == "quick" else 5, "NumpyMaxM": 3 if tier == "quick" else 4,
              "Seed": rep.seed, "NRandom3": 300 if tier == "quick" else 3000, "AllSmall3": tier != "quick"}
    _obs_module(wd, "Obs_layout", "LayoutObs", None)
    cases, _ = _emit("MC_CubicLayout", wd, consts, "cases_layout.json")
    obs = []

    def failer(key):
        def fail(call, e):
            rep.violation(f"layout:{key}:{call}", f"{call} failed on an admissible grid ({key}): {type(e).__name__}: {e}")
        return fail

    for c in cases["shapes"]:
        sh = c["shape"]
        tag = "x".join(map(str, sh))
        obs.append(_obs_uniform(sh, c["origin"], c["skew"], True, False, failer(f"uniform:skew:shape={tag}")))
        obs.append(_obs_uniform(sh, c["origin"], c["diag"], False, True, failer(f"uniform:diag:shape={tag}")))
        obs.append(_obs_tensor(c, failer(f"tensor:shape={tag}")))
        rep.evaluated(3, ("layout", tag))
    for a in cases["axes2"]:
        obs.append(_obs_uniform([2, 3], [1, -2], a, False, False, failer(f"uniform:axes={a}")))
    for a in cases["axes3"]:
        obs.append(_obs_uniform([2, 3, 2], [1, -2, 3], a, False, False, failer(f"uniform:axes={a}")))
    for c in cases["random3"]:
        obs.append(_obs_uniform(c["shape"], [-1, 2, 0], c["axes"], False, False, failer(f"uniform:axes={c['axes']}")))
    nax = len(cases["axes2"]) + len(cases["axes3"]) + len(cases["random3"])
    rep.evaluated(nax, ("layout", "axes"))
    rep.set("layout_axes_cases", nax)
    rep.sample({"family": "layout", "case": cases["shapes"][-1], "observed_points_head": obs[3 * len(cases["shapes"]) - 3]["pts"][:4]})
    with open(wd / "obs_layout.json", "w") as f:
        json.dump(obs, f)
    _obs_module(wd, "Obs_layout", "LayoutObs", "obs_layout.json")
    cfg = _cfg(wd, "MC_CubicLayout.cfg", {**consts, "Emit": False}, LAYOUT_INVARIANTS)
    res = tlc.run_tlc("MC_CubicLayout", cfg, wd, workers=16, timeout=1500).require_ok("MC_CubicLayout")
    rep.tlc(res, "MC_CubicLayout")
    _model_violation(rep, res, "layout")
    for t in _tagged(res.stdout, "MISMATCH"):
        _, r, clause, at, want, got = t
        if r == 0:
            rep.violation(f"layout:{clause}:{at}", f"shape {at} was not observed for grid class {want}")
            continue
        o = obs[r - 1]
        where = f"shape={'x'.join(map(str, o['shape']))}"
        if o["kind"] == "uniform":
            where += f":axes={o['axes']}"
        rep.violation(f"layout:{o['kind']}:{clause}:{where}",
                      f"{o['kind']} grid {where}: {clause} at {at}: specification {want}, implementation {got}",
                      {"record": {k: v for k, v in o.items() if k in ('kind', 'shape', 'origin', 'axes', 'nodes', 'w1d')},
                       "clause": clause, "at": at, "spec": want, "observed": got})
    return len(obs)


# --------------------------------------------------------------------------------------------
# family 2: weighting schemes

W_RTOL = 1e-12       # rational schemes; measured max relative deviation 4.5e-16
W_F1_RTOL = 1e-10    # Fourier1 (sums of sines); measured max relative deviation 2e-15
W_SUM_SLACK = 1e-12
STATS = {}


def _stat(name, value):
    STATS[name] = max(STATS.get(name, 0.0), float(value))


def _family_weights(rep: Report, tier: str, wd: Path):
    from grid.cubic import UniformGrid
    consts = {"MaxW": 8 if tier == "quick" else 12, "CaseMax": 4 if tier == "quick" else 5}
    cfg = _cfg(wd, "MC_CubicWeights.cfg", {**consts, "Emit": True}, ["WeightSumBound", "WeightSums", "VolumeLaw"])
    res = tlc.run_tlc("MC_CubicWeights", cfg, wd, workers=16, timeout=900).require_ok("MC_CubicWeights")
    rep.tlc(res, "MC_CubicWeights")
    _model_violation(rep, res, "weights")
    with open(wd / "cases_weights.json") as f:
        cases = json.load(f)
    n = 0
    for c in cases:
        shape = c["shape"]
        dim = len(shape)
        tag = "x".join(map(str, shape))
        vol = c["volume"]
        bound = Fraction(*c["bound"])
        for scheme in ("Rectangle", "Trapezoid", "Alternative", "Fourier1", "Fourier2"):
            n += 1
            rep.evaluated(1, ("weights", scheme, dim))
            try:
                g = UniformGrid(np.zeros(dim), np.array(c["axes"], float), np.array(shape, int), weight=scheme)
                w = np.asarray(g.weights, float)
                if w.shape != (int(np.prod(shape)),) or not np.all(np.isfinite(w)):
                    raise ValueError(f"weights have shape {w.shape} / non-finite entries")
            except Exception as e:
                rep.violation(f"weights:{scheme}:dim={dim}:construct:shape={tag}",
                              f"UniformGrid(shape={shape}, weight={scheme!r}) does not construct: {type(e).__name__}: {e}",
                              {"shape": shape, "axes": c["axes"], "scheme": scheme})
                continue
            dev = abs(float(w.sum()) / vol - 1.0)
            if dev > float(bound) + W_SUM_SLACK:
                rep.violation(f"weights:{scheme}:dim={dim}:sum-bound:shape={tag}",
                              f"weight={scheme!r} shape={shape}: |sum(w)/V - 1| = {dev:.6g} exceeds sum(1/M_i) = {float(bound):.6g} "
                              f"(sum(w) = {w.sum():.6g}, V = {vol}, min weight {w.min():.3g})",
                              {"shape": shape, "axes": c["axes"], "scheme": scheme, "deviation": dev, "bound": float(bound)})
            key = {"Rectangle": "rect", "Trapezoid": "trap", "Alternative": "alt"}.get(scheme)
            if key:
                want = float(Fraction(*c[key]) * vol)
                err = float(np.max(np.abs(w - want))) / want
                _stat("weights_rational_relerr", err)
                if err > W_RTOL:
                    rep.violation(f"weights:{scheme}:dim={dim}:value:shape={tag}",
                                  f"weight={scheme!r} shape={shape}: documented weight {want!r}, implementation "
                                  f"{w[int(np.argmax(np.abs(w - want)))]!r}",
                                  {"shape": shape, "axes": c["axes"], "scheme": scheme, "spec": want})
            elif scheme == "Fourier1" and (tier != "quick" or np.prod(shape) <= 200):
                names = ["i", "j", "k"][:dim]
                worst, at = 0.0, None
                for flat, idx in enumerate(np.ndindex(*shape)):
                    env = {nm: int(v) + 1 for nm, v in zip(names, idx)}
                    want = vol * evaluate(c["fourier1"], env, "float")
                    err = abs(w[flat] - want) / abs(want)
                    if err > worst:
                        worst, at = err, (idx, want, float(w[flat]))
                _stat("weights_fourier1_relerr", worst)
                if worst > W_F1_RTOL:
                    rep.violation(f"weights:Fourier1:dim={dim}:value:shape={tag}",
                                  f"weight='Fourier1' shape={shape}: at coordinates {at[0]} documented weight {at[1]!r}, "
                                  f"implementation {at[2]!r}", {"shape": shape, "axes": c["axes"], "at": list(at[0])})
    rep.sample({"family": "weights", "shape": cases[-1]["shape"], "axes": cases[-1]["axes"], "volume": cases[-1]["volume"],
                "trapezoid_w_over_V": cases[-1]["trap"], "bound": cases[-1]["bound"]})
    return n


# --------------------------------------------------------------------------------------------
# family 3: UniformGrid.from_molecule

BOX_ATOL = 1e-12      # origin / margin, exact dyadic inputs; measured <= 9e-16 (rotate=False)
BOX_SLACK = 1e-9      # enclosure predicate on floats (rotate=True goes through eigh)


def _tagged(stdout, tag):
    """tlc.tagged, also for values that TLC pretty-prints over several lines (<< "TAG", ...)."""
    return tlc.tagged(stdout.replace('<< "', '<<"'), tag)


def _molkey(zs, xs, sp, ex):
    return f"Z={zs}:X={[[float(v) for v in x] for x in xs]}:spacing={float(sp)}:extension={float(ex)}"


def _box_worker(case):
    """Replay one emitted case (rotate=False and rotate=True); returns (violations, stats)."""
    from grid.cubic import UniformGrid
    _, mol, sp, ex, shape, origin, margin, encloses, centred = case
    zs = [a[0] for a in mol]
    xs = [[Fraction(*q) for q in a[1]] for a in mol]
    sp, ex = Fraction(*sp), Fraction(*ex)
    origin = [Fraction(*q) for q in origin]
    margin = Fraction(*margin)
    key = _molkey(zs, xs, sp, ex)
    cls = "com=midpoint" if centred else "com!=midpoint"
    info = {"atcorenums": zs, "atcoords": [[float(v) for v in x] for x in xs], "spacing": float(sp),
            "extension": float(ex), "spec_shape": shape, "spec_origin": [float(v) for v in origin],
            "spec_margin": float(margin), "spec_encloses": encloses}
    out, stats = [], {}
    znp = np.array(zs, float)
    xnp = np.array([[float(v) for v in x] for x in xs])
    need = float(ex - sp)
    # ---- rotate=False: exact arithmetic of the box + the enclosure law
    try:
        g = UniformGrid.from_molecule(znp, xnp, spacing=float(sp), extension=float(ex), rotate=False)
        gshape = [int(v) for v in g.shape]
        lo, hi = g.points.min(axis=0), g.points.max(axis=0)
        gmargin = float(min((xnp - lo).min(), (hi - xnp).min()))
        if gshape != list(shape):
            out.append((f"from_molecule:box-arithmetic:shape:{key}",
                        f"from_molecule(rotate=False) {key}: number of points {gshape}, specification {shape}", info))
        else:
            err = float(np.max(np.abs(np.asarray(g.origin, float) - np.array([float(v) for v in origin]))))
            stats["box_origin_abserr"] = err
            if err > BOX_ATOL or abs(gmargin - float(margin)) > 1e-9:
                out.append((f"from_molecule:box-arithmetic:origin:{key}",
                            f"from_molecule(rotate=False) {key}: origin {list(map(float, g.origin))} margin {gmargin}, "
                            f"specification of the shipped rule origin {[float(v) for v in origin]} margin {float(margin)}", info))
        if gmargin < need - BOX_SLACK:
            out.append((f"from_molecule:enclosure:{cls}:{key}",
                        f"from_molecule(rotate=False) {key}: a nucleus is {gmargin:.6g} from the box boundary "
                        f"(negative = outside); required margin extension - spacing = {need:.6g}; box {lo.tolist()}..{hi.tolist()}",
                        {**info, "observed_margin": gmargin}))
    except Exception as e:
        out.append((f"from_molecule:raises:{key}", f"from_molecule(rotate=False) {key} raised {type(e).__name__}: {e}", info))
    # ---- rotate=True: the enclosure law as a predicate on the resulting grid
    try:
        g = UniformGrid.from_molecule(znp, xnp, spacing=float(sp), extension=float(ex), rotate=True)
        axes = np.asarray(g.axes, float)
        frame = axes / float(sp)
        if not np.allclose(frame @ frame.T, np.eye(3), atol=1e-9):
            out.append((f"from_molecule:rotate:axes:{key}", f"from_molecule(rotate=True) {key}: axes/spacing is not orthonormal", info))
        else:
            t = (xnp - np.asarray(g.origin, float)) @ np.linalg.inv(axes)      # fractional coordinates of the nuclei
            top = np.array(g.shape, float) - 1.0
            gmargin = float(min(t.min(), (top - t).min())) * float(sp)
            com = znp @ xnp / znp.sum()
            tc = (com - np.asarray(g.origin, float)) @ np.linalg.inv(axes)
            mid = 0.5 * (t.max(axis=0) + t.min(axis=0))
            rcls = "com=midpoint" if float(np.max(np.abs(mid - tc))) * float(sp) < 1e-9 else "com!=midpoint"
            # the eigenvector matrix of the inertia tensor enters the result twice (projection of the
            # nuclei, axes of the grid); the two uses agree only when it is symmetric
            fcls = "axes-symmetric" if np.allclose(frame, frame.T, atol=1e-9) else "axes-not-symmetric"
            if gmargin < need - BOX_SLACK:
                out.append((f"from_molecule:rotate:enclosure:{fcls}:{rcls}:{key}",
                            f"from_molecule(rotate=True) {key}: a nucleus is {gmargin:.6g} from the box boundary "
                            f"(negative = outside); required margin {need:.6g}", {**info, "observed_margin": gmargin}))
    except Exception as e:
        # in the rotated frame the extent of a linear / planar molecule can vanish: fewer than two
        # points in a direction is rejected by the constructor as documented (inadmissible input)
        if not (isinstance(e, ValueError) and ("greater than one" in str(e) or "should be positive" in str(e))):
            out.append((f"from_molecule:rotate:raises:{key}", f"from_molecule(rotate=True) {key} raised {type(e).__name__}: {e}", info))
        else:
            stats["box_rotate_rejected"] = 1.0
    return out, stats, (len(zs), cls)


def _family_box(rep: Report, tier: str, wd: Path):
    consts = ({"MaxAtoms": 2, "ZPool": {1, 8, 50}, "ZPool3": {1}} if tier == "quick"
              else {"MaxAtoms": 3, "ZPool": {1, 6, 8, 50}, "ZPool3": {1, 8, 50}})
    cfg = _cfg(wd, "MC_CubicBox.cfg", consts, ["MidpointBoxEncloses", "ShippedBoxEnclosesWhenCentred", "SizeRule", "EmitCase"])
    res = tlc.run_tlc("MC_CubicBox", cfg, wd, workers=16, timeout=1500).require_ok("MC_CubicBox")
    rep.tlc(res, "MC_CubicBox")
    _model_violation(rep, res, "box")
    cases = _tagged(res.stdout, "BOX")
    if not cases:
        raise tlc.MachineryError("MC_CubicBox emitted no case")
    import multiprocessing as mp
    with mp.get_context("fork").Pool(16) as pool:
        results = pool.map(_box_worker, cases, chunksize=64)
    for (viol, stats, dk), case in zip(results, cases):
        rep.evaluated(2, ("box",) + dk)
        for k, v in stats.items():
            _stat(k, v)
        for key, what, info in viol:
            rep.violation(key, what, info)
    rep.set("box_cases", len(cases))
    rep.sample({"family": "from_molecule", "tlc_case": cases[len(cases) // 2]})
    return 2 * len(cases)


# --------------------------------------------------------------------------------------------
# family 4: closest_point

NOTREC = -1000000


def _family_closest(rep: Report, tier: str, wd: Path):
    from grid.cubic import UniformGrid
    consts = {"Fine": 4 if tier == "quick" else 8}
    _obs_module(wd, "Obs_closest", "ClosestObs", None)
    cases, _ = _emit("MC_CubicClosest", wd, consts, "cases_closest.json")
    obs, n = [], 0
    for gi, c in enumerate(cases, 1):
        dim = len(c["shape"])
        sign = "step<0" if min(c["step"]) < 0 else "step>0"
        gkey = f"{sign}:shape={c['shape']}:origin={c['origin']}:steps={c['step']}"
        rows = []
        try:
            g = UniformGrid(np.array(c["origin"], float), np.diag(np.array(c["step"], float)), np.array(c["shape"], int))
        except Exception as e:
            rep.violation(f"closest_point:construct:{gkey}", f"UniformGrid {gkey} raised {type(e).__name__}: {e}")
            obs.append([[NOTREC, NOTREC]] * len(c["queries"]))
            continue
        for q in c["queries"]:
            p = np.array([Fraction(*v) for v in q], float)
            row = []
            for which in ("closest", "origin"):
                try:
                    row.append(_int(g.closest_point(p, which)))
                except Exception as e:
                    row.append(NOTREC)
                    rep.violation(f"closest_point:{which}:{gkey}:raises",
                                  f"closest_point({p.tolist()}, {which!r}) on grid {gkey} raised {type(e).__name__}: {e}",
                                  {"grid": c["shape"], "origin": c["origin"], "steps": c["step"], "point": p.tolist()})
            rows.append(row)
            n += 2
        obs.append(rows)
        rep.evaluated(2 * len(rows), ("closest", gi))
    rep.sample({"family": "closest_point", "grid": {k: cases[2][k] for k in ("shape", "origin", "step")},
                "query": cases[2]["queries"][7], "observed[closest,origin]": obs[2][7]})
    with open(wd / "obs_closest.json", "w") as f:
        json.dump(obs, f)
    _obs_module(wd, "Obs_closest", "ClosestObs", "obs_closest.json")
    cfg = _cfg(wd, "MC_CubicClosest.cfg", {**consts, "Emit": False},
               ["QueriesAreInside", "RoundingFindsNearest", "FlooringFindsCorner", "TiesAreHalves", "JudgeClosest", "JudgeCorner"])
    res = tlc.run_tlc("MC_CubicClosest", cfg, wd, workers=16, timeout=1500).require_ok("MC_CubicClosest")
    rep.tlc(res, "MC_CubicClosest")
    _model_violation(rep, res, "closest")
    for t in _tagged(res.stdout, "MISMATCH"):
        _, gi, which, p, want, got = t
        c = cases[gi - 1]
        sign = "step<0" if min(c["step"]) < 0 else "step>0"
        pt = [float(Fraction(*v)) for v in p]
        rep.violation(f"closest_point:{which}:{sign}:shape={c['shape']}:origin={c['origin']}:steps={c['step']}:point={pt}",
                      f"closest_point({pt}, {which!r}) on UniformGrid(origin={c['origin']}, axes=diag{tuple(c['step'])}, shape={c['shape']}) "
                      f"returned index {got}; " + ("that is not a nearest node" if which == "closest" else "that is not the lower corner of the cell")
                      + f" (the specification's rounding rule gives {want})",
                      {"shape": c["shape"], "origin": c["origin"], "steps": c["step"], "point": pt, "which": which, "spec": want, "observed": got})
    return n


# --------------------------------------------------------------------------------------------
# family 5: cube files

GEOM_ATOL = 5.01e-7      # "{:11.6f}": half a unit of the sixth decimal
DATA_RTOL = 5.01e-6      # "{:12.5E}": half a unit of the sixth significant digit
UNIT_RTOL = 1e-8         # angstrom factor: spec constant truncated to 8 digits (2e-10), CODATA revisions differ by 7e-10


def _cube_close(got, want, atol=0.0, rtol=0.0):
    got, want = np.asarray(got, float), np.asarray(want, float)
    if got.shape != want.shape:
        return False, float("inf")
    err = np.abs(got - want)
    tol = atol + rtol * np.abs(want)
    bad = err > tol
    return (not bool(np.any(bad))), float(np.max(err / np.where(tol > 0, tol, 1.0))) if err.size else 0.0


def _family_cube(rep: Report, tier: str, wd: Path):
    from grid.cubic import UniformGrid
    consts = {"MaxN": 40 if tier == "quick" else 130}
    _obs_module(wd, "Obs_cube", "CubeObs", None)
    emitted, _ = _emit("MC_CubicCube", wd, consts, "cases_cube.json")
    factor = float(evaluate(emitted["angstrom_to_bohr"], {}, "mp"))
    rng = np.random.default_rng(rep.seed)
    obs, n = [], 0
    files = wd / "cube"
    files.mkdir(exist_ok=True)
    for ci, c in enumerate(emitted["cases"], 1):
        shape, natom = c["shape"], c["natom"]
        npts = int(np.prod(shape))
        for printable in (True, False):
            kind = "printable" if printable else "arbitrary"
            key = f"cube:shape={'x'.join(map(str, shape))}:natom={natom}:{kind}"
            n += 1
            rep.evaluated(1, ("cube", npts % 6, kind))
            origin = rng.uniform(-5, 5, 3)
            axes = np.diag(rng.uniform(0.1, 0.9, 3)) + rng.uniform(-0.05, 0.05, (3, 3))
            atcoords = rng.uniform(-4, 4, (natom, 3))
            atnums = rng.integers(1, 30, natom)
            pseudo = (atnums - rng.integers(0, 2, natom) * 0.5).astype(float) if ci % 2 else None
            mant = rng.integers(100000, 1000000, npts) * rng.choice([-1, 1], npts)
            expo = rng.integers(-120, 121, npts) if ci % 3 == 0 else rng.integers(-6, 7, npts)
            if printable:
                origin, axes, atcoords = (np.round(a, 6) for a in (origin, axes, atcoords))
                data = np.array([float(f"{int(m)}E{int(e) - 5}") for m, e in zip(mant, expo)])
            else:
                data = mant * (10.0 ** (expo - 5.0)) * rng.uniform(0.999, 1.001, npts)
            data[0] = 0.0
            fname = str(files / f"case{ci}_{kind}.cube")
            try:
                g = UniformGrid(origin, axes, np.array(shape, int))
                g.generate_cube(fname, data, atcoords, atnums, pseudo_numbers=pseudo)
                with open(fname) as f:
                    lines = f.read().splitlines()
                obs.append({"shape": shape, "natom": natom, "counts": [len(x.split()) for x in lines[2:]]})
            except Exception as e:
                rep.violation(f"{key}:write", f"generate_cube raised {type(e).__name__}: {e}", {"shape": shape, "natom": natom})
                continue
            want_pseudo = atnums.astype(float) if pseudo is None else pseudo
            gt, dt = (0.0, 0.0) if printable else (GEOM_ATOL, DATA_RTOL)

            def printed(a):     # the numbers as they stand in the file (six decimals)
                a = np.asarray(a, float)
                return np.array([float(f"{v:.6f}") for v in a.ravel()]).reshape(a.shape)

            def compare(tag, g2, cube, scale):
                checks = [("shape", np.asarray(g2.shape), np.asarray(shape), 0.0, 0.0)]
                if scale == 1.0:
                    checks += [("origin", g2.origin, origin, gt, 0.0), ("axes", g2.axes, axes, gt, 0.0)]
                else:   # printed numbers times the factor of the specification
                    checks += [("origin", g2.origin, printed(origin) * scale, 0.0, UNIT_RTOL),
                               ("axes", g2.axes, printed(axes) * scale, 0.0, UNIT_RTOL)]
                if cube is not None:
                    checks += [("atnums", cube["atnums"], atnums, 0.0, 0.0),
                               ("atcorenums", cube["atcorenums"], want_pseudo, gt, 0.0),
                               ("data", cube["data"], data, 0.0, dt)]
                    checks += [("atcoords", cube["atcoords"], atcoords, gt, 0.0)] if scale == 1.0 else \
                              [("atcoords", cube["atcoords"], printed(atcoords) * scale, 0.0, UNIT_RTOL)]
                for what, got, want, atol, rtol in checks:
                    ok, worst = _cube_close(got, want, atol, rtol)
                    if not ok:
                        rep.violation(f"{key}:{tag}:{what}",
                                      f"{tag}: {what} read back {np.asarray(got).ravel()[:6].tolist()}..., written "
                                      f"{np.asarray(want).ravel()[:6].tolist()}... (tolerance atol={atol} rtol={rtol})",
                                      {"shape": shape, "natom": natom, "kind": kind, "file": fname})

            try:
                g2, cube = UniformGrid.from_cube(fname, return_data=True)
                compare("bohr", g2, cube, 1.0)
                compare("bohr:grid-only", UniformGrid.from_cube(fname), None, 1.0)
                if not printable:
                    ok, _ = _cube_close(g2.points, g.points, 5 * GEOM_ATOL * max(shape), 0.0)
                    if not ok:
                        rep.violation(f"{key}:bohr:points", "points of the grid read back differ from the written grid")
            except Exception as e:
                rep.violation(f"{key}:bohr:read", f"from_cube raised {type(e).__name__}: {e}", {"file": fname})
            # angstrom convention: the same numbers announced as angstrom by a negative first point count
            for variant, which in (("n1", (3,)), ("all", (3, 4, 5))):
                try:
                    l2 = list(lines)
                    for li in which:
                        tok = l2[li].split()
                        l2[li] = f"{-int(tok[0]):5d} " + " ".join(tok[1:])
                    f2 = fname.replace(".cube", f"_ang_{variant}.cube")
                    with open(f2, "w") as f:
                        f.write("\n".join(l2) + "\n")
                    import contextlib
                    import io
                    with contextlib.redirect_stdout(io.StringIO()):
                        g3, cube3 = UniformGrid.from_cube(f2, return_data=True)
                        g4 = UniformGrid.from_cube(f2)
                    compare(f"angstrom-{variant}", g3, cube3, factor)
                    compare(f"angstrom-{variant}:grid-only", g4, None, factor)
                    n += 1
                except Exception as e:
                    rep.violation(f"{key}:angstrom-{variant}:read", f"from_cube raised {type(e).__name__}: {e}", {"file": fname})
    rep.sample({"family": "cube", "case": emitted["cases"][4], "angstrom_to_bohr": factor, "observed_tokens_per_line_tail": obs[-1]["counts"][-3:]})
    with open(wd / "obs_cube.json", "w") as f:
        json.dump(obs, f)
    _obs_module(wd, "Obs_cube", "CubeObs", "obs_cube.json")
    cfg = _cfg(wd, "MC_CubicCube.cfg", {**consts, "Emit": False},
               ["ReadOfWriteIsIdentity", "WriterLayout", "ReaderIgnoresChunking", "JudgeFileLayout"])
    res = tlc.run_tlc("MC_CubicCube", cfg, wd, workers=4, timeout=900).require_ok("MC_CubicCube")
    rep.tlc(res, "MC_CubicCube")
    _model_violation(rep, res, "cube")
    for t in _tagged(res.stdout, "MISMATCH"):
        _, r, clause, want, got = t
        o = obs[r - 1]
        rep.violation(f"cube:shape={'x'.join(map(str, o['shape']))}:natom={o['natom']}:{clause}",
                      f"cube file for shape {o['shape']} with {o['natom']} atoms: tokens per line {got}, specification {want}",
                      {"shape": o["shape"], "natom": o["natom"], "spec": want, "observed": got})
    return n


# --------------------------------------------------------------------------------------------
# family 6: interpolation

EPS = 2.220446049250313e-16
INTERP_K = 2e-9 / EPS       # |err| <= INTERP_K * eps * scale / h^nu ; measured constant: see module docstring
LINEAR_RTOL = 1e-12


def _build_grid(nodes, uniform):
    from grid.basegrid import OneDGrid
    from grid.cubic import Tensor1DGrids, UniformGrid
    if uniform is not None:
        origin = np.array([float(Fraction(*q)) for q in uniform["origin"]])
        step = np.array([float(Fraction(*q)) for q in uniform["step"]])
        return UniformGrid(origin, np.diag(step), np.array(uniform["shape"], int))
    oned = [OneDGrid(np.array([float(Fraction(*q)) for q in ax]), np.ones(len(ax))) for ax in nodes]
    return Tensor1DGrids(*oned)


def _tree_on_points(tree, pts, mode="float"):
    return np.array([float(evaluate(tree, {"x": p[0], "y": p[1], "z": p[2]}, mode)) for p in pts])


def _family_interp(rep: Report, tier: str, wd: Path):
    consts = {"Seed": rep.seed, "NRandom": 6 if tier == "quick" else 40, "NQuery": 3 if tier == "quick" else 4}
    cfg = _cfg(wd, "MC_CubicInterp.cfg", consts, ["DerivedPartialIsCalculus", "FullDegreePresent"])
    res = tlc.run_tlc("MC_CubicInterp", cfg, wd, workers=16, timeout=1500).require_ok("MC_CubicInterp")
    rep.tlc(res, "MC_CubicInterp")
    _model_violation(rep, res, "interpolation")
    with open(wd / "cases_interp.json") as f:
        cases = json.load(f)
    n = 0
    ngrid = len(cases["nodes"])
    for gi in range(ngrid):
        nodes = cases["nodes"][gi]
        uniform = cases["uniform"][gi] if gi < len(cases["uniform"]) else None
        gname = f"uniform{uniform['shape']}" if uniform else "tensor" + str([len(a) for a in nodes])
        try:
            g = _build_grid(nodes, uniform)
        except Exception as e:
            rep.violation(f"interp:{gname}:construct", f"grid construction raised {type(e).__name__}: {e}")
            continue
        fnodes = [[Fraction(*q) for q in ax] for ax in nodes]
        box = [max(abs(float(ax[0])), abs(float(ax[-1]))) for ax in fnodes]
        hmin = [min(float(b - a) for a, b in zip(ax, ax[1:])) for ax in fnodes]
        queries = [[Fraction(*q) for q in pt] for pt in cases["queries"][gi]]
        qf = np.array([[float(v) for v in pt] for pt in queries])
        gpts = np.asarray(g.points, float)

        def scale_of(terms):
            return sum(abs(t[3]) * box[0] ** t[0] * box[1] ** t[1] * box[2] ** t[2] for t in terms) or 1.0

        # ---- cubic, all derivative orders of total order <= 3
        for pi, poly in enumerate(cases["cubic"]):
            vals = _tree_on_points(poly["partials"][0]["tree"], gpts)
            scale = scale_of(poly["terms"])
            for part in poly["partials"]:
                nu = part["nu"]
                want = np.array([float(evaluate(part["tree"], dict(zip("xyz", pt)), "fraction")) for pt in queries])
                key = f"interp:cubic:{gname}:poly={poly['terms'] if len(poly['terms']) <= 8 else 'dense'}:nu={nu}"
                n += 1
                rep.evaluated(1, ("interp", "cubic", gi, tuple(nu)))
                try:
                    got = np.asarray(g.interpolate(qf, vals, nu_x=nu[0], nu_y=nu[1], nu_z=nu[2], method="cubic"), float).ravel()
                    if got.shape != want.shape:
                        raise ValueError(f"result has shape {got.shape} for {len(qf)} points")
                except Exception as e:
                    rep.violation(key + ":raises", f"interpolate(method='cubic', nu={nu}) on {gname} raised {type(e).__name__}: {e}",
                                  {"grid": gname, "terms": poly["terms"], "nu": nu})
                    continue
                hh = hmin[0] ** nu[0] * hmin[1] ** nu[1] * hmin[2] ** nu[2]
                unit = EPS * scale / hh
                err = float(np.max(np.abs(got - want)))
                _stat("interp_cubic_err_over_eps_scale_hnu", err / unit)
                if not err <= INTERP_K * unit:
                    i = int(np.argmax(np.abs(got - want)))
                    rep.violation(key, f"cubic interpolation on {gname} of p = sum c x^i y^j z^k, terms <<i,j,k,c>> = {poly['terms'][:8]}, "
                                       f"derivative orders {nu}, at {qf[i].tolist()}: specification {want[i]!r}, implementation {got[i]!r} "
                                       f"(tolerance {INTERP_K * unit:.3g})",
                                  {"grid": gname, "nodes": nodes, "terms": poly["terms"], "nu": nu, "point": [str(v) for v in queries[i]],
                                   "spec": want[i], "observed": got[i]})
        # ---- linear: trilinear functions
        for poly in cases["linear"]:
            vals = _tree_on_points(poly["tree"], gpts)
            want = np.array([float(evaluate(poly["tree"], dict(zip("xyz", pt)), "fraction")) for pt in queries])
            key = f"interp:linear:{gname}:poly={poly['terms']}"
            n += 1
            rep.evaluated(1, ("interp", "linear", gi))
            try:
                got = np.asarray(g.interpolate(qf, vals, method="linear"), float).ravel()
                err = float(np.max(np.abs(got - want))) / scale_of(poly["terms"])
                _stat("interp_linear_err_over_scale", err)
                if not err <= LINEAR_RTOL:
                    rep.violation(key, f"linear interpolation on {gname} of the trilinear function with terms {poly['terms']}: "
                                       f"specification {want.tolist()}, implementation {got.tolist()}",
                                  {"grid": gname, "terms": poly["terms"], "points": qf.tolist()})
            except Exception as e:
                rep.violation(key + ":raises", f"interpolate(method='linear') on {gname} raised {type(e).__name__}: {e}")
        # ---- logarithmic variant on f = exp(q), single-variable derivatives
        for poly in cases["logv"]:
            vals = _tree_on_points(poly["partials"][0]["tree"], gpts)
            fmag = math.exp(scale_of(poly["terms"]))
            for part in poly["partials"]:
                nu = part["nu"]
                want = np.array([float(evaluate(part["tree"], dict(zip("xyz", pt)), "mp")) for pt in queries])
                key = f"interp:log:{gname}:exponent={poly['terms']}:nu={nu}"
                n += 1
                rep.evaluated(1, ("interp", "log", gi, tuple(nu)))
                try:
                    got = np.array([np.asarray(g.interpolate(qf[i:i + 1], vals, use_log=True, nu_x=nu[0], nu_y=nu[1], nu_z=nu[2]),
                                               float).ravel()[0] for i in range(len(qf))])
                except Exception as e:
                    rep.violation(key + ":raises", f"interpolate(use_log=True, nu={nu}) on {gname} raised {type(e).__name__}: {e}",
                                  {"grid": gname, "terms": poly["terms"], "nu": nu})
                    continue
                hh = hmin[0] ** nu[0] * hmin[1] ** nu[1] * hmin[2] ** nu[2]
                unit = EPS * fmag / hh
                err = float(np.max(np.abs(got - want)))
                _stat("interp_log_err_over_eps_fmag_hnu", err / unit)
                if not err <= INTERP_K * unit:
                    i = int(np.argmax(np.abs(got - want)))
                    rep.violation(key, f"log-variant interpolation on {gname} of f = exp(q), q terms {poly['terms']}, derivative orders {nu}, "
                                       f"at {qf[i].tolist()}: specification {want[i]!r}, implementation {got[i]!r} (tolerance {INTERP_K * unit:.3g})",
                                  {"grid": gname, "terms": poly["terms"], "nu": nu, "point": [str(v) for v in queries[i]]})
    rep.sample({"family": "interpolation", "grid_nodes_x": cases["nodes"][0][0], "query": cases["queries"][0][0],
                "terms": cases["cubic"][2]["terms"], "nu": cases["cubic"][2]["partials"][7]["nu"]})
    return n


# --------------------------------------------------------------------------------------------

def run(tier: str) -> int:
    import time
    rep = Report(PROP, tier, "model_checking")
    wd = tlc.scratch(f"{PROP}-{tier}")
    STATS.clear()
    n, walls = 0, {}
    for name, fam in (("layout", _family_layout), ("weights", _family_weights), ("from_molecule", _family_box),
                      ("closest_point", _family_closest), ("cube", _family_cube), ("interpolation", _family_interp)):
        t0 = time.time()
        k = fam(rep, tier, wd)
        walls[name] = round(time.time() - t0, 1)
        rep.set(f"cases_{name}", k)
        n += k
    rep.set("family_wall_s", walls)
    rep.set("traces_validated_against_impl", n)
    rep.set("exhaustive", True)
    rep.set("rule", "one case = one grid / call / file emitted by the specification and replayed into grid.cubic; "
                    "distinct = distinct (family, shape | scheme | molecule class | grid | residue mod 6 | derivative order)")
    rep.set("measured_max_errors", {k: float(f"{v:.3g}") for k, v in sorted(STATS.items())})
    rep.assume("NumPy semantics of meshgrid/swapaxes/reshape/kron are transcribed in Cubic.tla; the implementation is bound to the "
               "declarative layout by the recorded observations, not by that transcription")
    rep.assume("real-valued clauses (weights, box origin, interpolation, cube numbers) are compared by the harness with values "
               "derived by the specification (exact rationals / expression trees); TLC judges all integer observables")
    return rep.finish()


# --------------------------------------------------------------------------------------------
# sensitivity: textual mutants of grid/cubic.py, loaded in-process (never written to /repo)

MUTANTS = [
    # (name, family, old text, new text)
    ("i2c-stride-swap", "layout", "n_1d, n_2d = self.shape[2], self.shape[1] * self.shape[2]", "n_1d, n_2d = self.shape[1], self.shape[1] * self.shape[2]"),
    ("c2i-stride-off-by-one", "layout", "strides[i] = strides[i + 1] * self.shape[i + 1]", "strides[i] = strides[i + 1] * self.shape[i]"),
    ("uniform-2d-reshape-C", "layout", 'coords = coords.reshape(2, -1, order="F")', "coords = coords.reshape(2, -1)"),
    ("uniform-3d-no-swapaxes", "layout", "coords = np.swapaxes(coords, 1, 2)", "coords = coords"),
    ("uniform-axes-transposed", "layout", "points = coords.T.dot(self._axes) + origin", "points = coords.T.dot(self._axes.T) + origin"),
    ("tensor-kron-order", "layout", "weights = np.kron(np.kron(oned_x.weights, oned_y.weights), oned_z.weights)",
     "weights = np.kron(np.kron(oned_z.weights, oned_y.weights), oned_x.weights)"),
    ("tensor-meshgrid-xy", "layout", 'oned_z.points,\n                        indexing="ij",', 'oned_z.points,\n                        indexing="xy",'),
    ("along-axes-y-index", "layout", "coords_y = [self.coordinates_to_index((0, j, 0)) for j in range(self.shape[1])]",
     "coords_y = [self.coordinates_to_index((0, 0, j)) for j in range(self.shape[1])]"),
    ("trapezoid-no-plus-one", "weights", "numpnt = np.prod(shape + 1.0)\n            weights = np.full", "numpnt = np.prod(shape + 0.0)\n            weights = np.full"),
    ("alternative-factor", "weights", "factor = np.prod((shape - 1) / shape)", "factor = np.prod(shape / (shape + 1))"),
    ("fourier1-sine-argument", "weights", "sin_dir = np.sin(grid_dir_2d * np.pi / (shape[index] + 1.0))", "sin_dir = np.sin(grid_dir_2d * np.pi / (shape[index] + 0.0))"),
    ("volume-2d-no-abs", "weights", "return np.abs(volume)", "return volume"),
    ("box-floor", "from_molecule", "shape = np.ceil(shape)", "shape = np.floor(shape)"),
    ("box-single-extension", "from_molecule", "+ 2.0 * extension) / spacing", "+ 1.0 * extension) / spacing"),
    ("box-origin-shape-minus-one", "from_molecule", "origin = com - np.dot((0.5 * shape), axes)", "origin = com - np.dot((0.5 * (shape - 1)), axes)"),
    ("closest-floor", "closest_point", "coord = np.rint(coord)", "coord = np.floor(coord)"),
    ("closest-origin-ceil", "closest_point", "coord = np.floor(coord)", "coord = np.ceil(coord)"),
    ("cube-five-per-line", "cube", "num_chunks = 6", "num_chunks = 5"),
    ("cube-angstrom-origin-not-scaled", "cube", "origin *= ANGSTROM_TO_BOHR", "origin *= 1.0"),
    ("cube-angstrom-atoms-not-scaled", "cube", "coordinates *= ANGSTROM_TO_BOHR", "coordinates *= 1.0"),
    ("cube-angstrom-inverse-factor", "cube", "axes *= ANGSTROM_TO_BOHR", "axes /= ANGSTROM_TO_BOHR"),
    ("cube-data-precision", "cube", '" {:12.5E}"', '" {:12.4E}"'),
    ("cube-pseudo-numbers-dropped", "cube", "for i, q, (x, y, z) in zip(atnums, pseudo_numbers, atcoords):", "for i, q, (x, y, z) in zip(atnums, atnums.astype(float), atcoords):"),
    ("interp-nu_y-ignored", "interpolation", "            )(y, nu_y)", "            )(y, 0)"),
    ("interp-z-slice-shifted", "interpolation", "values[small_index:large_index],", "values[small_index + 1:large_index + 1],"),
    ("interp-x-nodes-stride", "interpolation", "self.points[np.arange(1, self.shape[0] - 2) * self.shape[1] * self.shape[2], 0],",
     "self.points[np.arange(1, self.shape[0] - 2) * self.shape[2] * self.shape[2], 0],"),
    ("interp-bell-order", "interpolation", "bell(deriv_var, i, sympy_symbols).evalf(subs=symbol_values)\n                                    for i in range(1, deriv_var + 1)",
     "bell(deriv_var, i, sympy_symbols).evalf(subs=symbol_values)\n                                    for i in range(1, deriv_var)"),
    ("interp-log-second-derivative-sign", "interpolation", "return interpolated * np.array(bell_derivs)", "return interpolated * np.abs(np.array(bell_derivs))"),
    ("interp-linear-nearest", "interpolation", "interpolate = RegularGridInterpolator((x, y, z), values, method=method)",
     'interpolate = RegularGridInterpolator((x, y, z), values, method="nearest")'),
]


def _load_mutant(old, new):
    import importlib.util
    import sys
    src = Path("/repo/src/grid/cubic.py").read_text()
    if src.count(old) < 1:
        raise tlc.MachineryError(f"mutant anchor not found: {old!r}")
    code = src.replace(old, new)
    spec = importlib.util.spec_from_loader("grid._c13_mutant", loader=None)
    mod = importlib.util.module_from_spec(spec)
    mod.__package__ = "grid"
    mod.__file__ = "/verif/gen/C13-selftest/cubic_mutant.py"
    sys.modules["grid._c13_mutant"] = mod
    exec(compile(code, mod.__file__, "exec"), mod.__dict__)
    return mod


def selftest(tier: str = "quick") -> int:
    """Each mutant must be reported as a violation by the family it belongs to."""
    import grid.cubic as real
    fams = {"layout": _family_layout, "weights": _family_weights, "from_molecule": _family_box,
            "closest_point": _family_closest, "cube": _family_cube, "interpolation": _family_interp}
    only = os.environ.get("C13_MUTANTS")
    killed, missed = [], []
    for name, fam, old, new in MUTANTS:
        if only and name not in only.split(","):
            continue
        mod = _load_mutant(old, new)
        saved = {k: getattr(real, k) for k in ("UniformGrid", "Tensor1DGrids", "_HyperRectangleGrid")}
        for k in saved:
            setattr(real, k, getattr(mod, k))
        try:
            rep = Report(PROP, tier, "model_checking")
            wd = tlc.scratch(f"{PROP}-selftest")
            fams[fam](rep, tier, wd)
            fresh = [v for v in rep.violations if rep._match_known(v["key"]) is None]
        finally:
            for k, v in saved.items():
                setattr(real, k, v)
        (killed if fresh else missed).append(name)
        print(f"mutant {name:36s} [{fam}] -> {'VIOLATION x%d, e.g. %s' % (len(fresh), fresh[0]['key'][:110]) if fresh else 'MISSED'}", flush=True)
    print(f"selftest: {len(killed)} killed, {len(missed)} missed {missed}")
    return 0 if not missed else 1


def replay(path: str) -> int:
    """Re-run the family of a recorded violation with its seed; exit 1 if the same key is reported again."""
    with open(path) as f:
        v = json.load(f)
    os.environ["VERIF_SEED"] = str(v.get("seed", 0))
    tier = v.get("tier", "quick")
    fams = {"layout": _family_layout, "weights": _family_weights, "from_molecule": _family_box,
            "closest_point": _family_closest, "cube": _family_cube, "interp": _family_interp}
    key = v["key"]
    prefix = key.split(":")[1] if key.startswith("model:") else key.split(":")[0]
    prefix = {"box": "from_molecule", "closest": "closest_point", "interpolation": "interp"}.get(prefix, prefix)
    rep = Report(PROP, tier, "model_checking")
    wd = tlc.scratch(f"{PROP}-replay")
    for name, fam in fams.items():
        if name == prefix or prefix not in fams:
            fam(rep, tier, wd)
    again = [x for x in rep.violations if x["key"] == key]
    print(f"replay {key}: " + (f"reproduced: {again[0]['what'][:300]}" if again else "not reproduced"))
    return 1 if again else 0
