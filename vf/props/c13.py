"""C13 - rectilinear grids: layout, index maps, weights, molecule box, closest point, cube I/O,
interpolation.

Specification: spec/Cubic.tla (definitions) + spec/MC_Cubic*.tla (state machines, judges).
Every family follows the same flow:
  1. TLC run with Emit=TRUE: the specification writes the cases (and, for real-valued clauses, the
     expected values / expression trees it derives) to a JSON file;
  2. the harness replays every case into grid.cubic and records what the implementation did;
  3. TLC run on the model: checks the model invariants over the whole bounded input space and judges
     the recorded integer observations against the declarative definitions (MISMATCH lines);
     real-valued observations are compared by the harness with the spec-derived values.

Tolerances (calibration on the pinned tree, quick+thorough, seeds 0-2; the measured maxima are
also written to evidence coverage.measured_max_errors on every run):
  weights      rational schemes rtol 1e-12 (measured 5.6e-16), Fourier1 rtol 1e-10 (measured 1.2e-15);
               a wrong scheme is off by >= 1e-2
  box origin   atol 1e-12 (measured 8.9e-16; dyadic inputs, the arithmetic is exact up to the division by
               the total charge)
  interpolation |err| <= 2e-9 * scale / h^nu, i.e. 9e6 * eps * scale / h^nu (measured <= 91 * eps * scale / h^nu;
               every interpolation mutant >= 1e14 * eps * scale / h^nu), scale = sum |c| |X|^i |Y|^j |Z|^k over the grid box (for the log
               variant exp(that sum)), h^nu = prod_d (smallest node distance along d)^nu_d; linear: 1e-12 * scale
               (measured 2.2e-16)
  cube files   values that are printable without rounding must be read back bit-identically; arbitrary doubles
               to half a unit of the last printed digit (geometry 5.01e-7 absolute, data 5.01e-6 relative);
               angstrom factor rtol 1e-8 (spec constant truncated at 2e-10, CODATA revisions differ by 7e-10)

Dimensions added by the audit of round 3 (every one is emitted / stated by the specification first):
  layout       non-integer origins and axes (integer grid / 2^k, exact), origin / axes as integer arrays, 1D nodes that are
               not sorted, numpy.int64 / numpy.int32 indices and array / list coordinates, ndim / size / shape attributes,
               large non-cubic shapes with sampled indices (JudgeBig: membership + IndexOf, no enumeration), tensor products
               of the library's own 1D quadratures (tuple law via node positions -> TLC; weights rtol 8 eps, derived: a
               product of three doubles in any association differs by <= 2.3 eps, measured 0; separable integral rtol
               1e-12 of sum |w f|, measured 1.7e-16; a swapped kron order is off by O(1))
  weights      axes / 2^k with non-zero origin and an int32 shape array (VolumeHomogeneous), the scheme name handed on by
               from_cube (both return modes) and by from_molecule; default scheme of from_molecule (read from the
               signature): sum bound, and the Trapezoid value emitted by MC_CubicBox (rtol 1e-12, measured 0;
               rotate=True 1e-9, measured 8e-16; the mutant without "+1" is off by >= 3e-2)
  from_molecule argument forms on every 16th (quick) / 5th (thorough) case: repeated call, arguments untouched, integer
               charges / coordinates, atoms reversed, views; call without options = call with the signature's defaults
  closest_point query points OUTSIDE the box (clamped rounding is the nearest node: ClampedRoundingFindsNearest), grids
               scaled by 2^-k and built from integer arrays, the point as list / float32 / int array / repeated
  cube files   data as 3D array, Fortran order, strided view, float32, integers; integer geometry; no atoms; coordinates
               wider than the 11.6f field; a file name written twice; arguments untouched
  interpolation one point vs several vs reversed order (tolerance 2 x the reproduction bound), use_log for several points,
               repeated call, arguments untouched; grids with negative steps / descending nodes (must reproduce) and
               non-diagonal axes (must reproduce or raise) - measured on the repaired code: err / tolerance <= 3e-5
"""
from __future__ import annotations

import json
import math
import os
import random
from fractions import Fraction
from pathlib import Path

import numpy as np

from .. import tlc
from ..evidence import Report
from ..expr_eval import evaluate

PROP = "C13"
WORKERS = 8          # TLC workers / replay processes (shared machine)


# --------------------------------------------------------------------------------------------
# helpers

def _cfg(wd: Path, name: str, consts: dict, invariants=(), spec="Spec") -> Path:
    lines = [f"SPECIFICATION {spec}"]
    if consts:
        lines.append("CONSTANTS")
        for k, v in consts.items():
            lines.append(f" {k} = {tlc.tla(v)}")
    for inv in invariants:
        lines.append(f"INVARIANT {inv}")
    p = wd / name
    p.write_text("\n".join(lines) + "\n")
    return p


def _obs_module(wd: Path, module: str, op: str, jsonfile: str | None):
    body = f'{op} == JsonDeserialize("{jsonfile}")' if jsonfile else f"{op} == <<>>"
    (wd / f"{module}.tla").write_text(
        f"---- MODULE {module} ----\nEXTENDS Json\n{body}\n====\n")


class _NotInt(Exception):
    pass


def _int(x) -> int:
    """Exact integer value of an observation (the layout cases are integer lattices)."""
    f = float(x)
    if not math.isfinite(f) or f != int(f) or abs(f) >= 2 ** 30:     # TLC integers are 32 bit
        raise _NotInt(repr(x))
    return int(f)


def _ints(a):
    a = np.asarray(a)
    if a.ndim == 0:
        return _int(a)
    return [_ints(x) for x in a]


def _emit(module, wd, consts, fname):
    cfg = _cfg(wd, f"{module}_emit.cfg", {**consts, "Emit": True})
    res = tlc.run_tlc(module, cfg, wd, workers=1, timeout=900).require_ok(module + " emit")
    if res.status != "ok" or not (wd / fname).exists():
        raise tlc.MachineryError(f"{module}: case emission failed\n{res.stdout[-3000:]}")
    with open(wd / fname) as f:
        return json.load(f), res


def _model_violation(rep, res, family):
    if res.status == "violation":
        st = tlc.last_state(res)
        rep.violation(f"model:{family}:{','.join(res.violated)}",
                      f"TLC: invariant(s) {res.violated} of the {family} model violated; last state {st}", st)


# --------------------------------------------------------------------------------------------
# family 1: layout, index maps, point law, tensor products

LAYOUT_INVARIANTS = [
    "StridesAgree", "IndexIsBijection", "LexicographicOrder", "NumpyUniformLayout", "NumpyTensorLayout",
    "Separable", "PointLawInjective", "CodeMapsAreTheDefinition", "RoundTrips", "LastIndexFastest",
    "JudgeI2C", "JudgeC2I", "JudgePoints", "JudgeWeights", "JudgeAlong", "JudgeSeparable", "ObsCoverShapes",
    "JudgeAttrs", "JudgeBig", "BigCasesAdmissible", "PermNodesAdmissible",
]
REAL_W_RTOL = 8 * 2.220446049250313e-16     # product of three doubles, any association: <= 2 roundings (2.3 eps)
REAL_INT_RTOL = 1e-12                       # tensor integral vs product of 1D integrals; measured <= 5e-16 of sum |w f|


def _blank(kind, shape, variant=""):
    return {"kind": kind, "shape": list(shape), "origin": [], "axes": [], "nodes": [], "w1d": [],
            "i2c": [], "c2i": [], "pts": [], "wts": [], "along": [], "integ": [], "attrs": [], "samples": [],
            "variant": variant}


def _attrs(g):
    return [_int(g.ndim), _int(g.size)] + [_int(v) for v in g.shape]


def _index_maps(g, shape, rec, fail, variant="py"):
    """All indices / all coordinates through both maps.  variant = representation of the arguments:
    py (Python int, tuple of Python ints), np (numpy.int64, one-dimensional integer array - the form
    closest_point uses), list (numpy.int32, list of Python ints)."""
    n = int(np.prod(shape))
    mk = {"py": int, "np": np.int64, "list": np.int32}[variant]
    try:
        rec["i2c"] = [[_int(v) for v in g.index_to_coordinates(mk(i))] for i in range(n)]
    except Exception as e:
        fail("index_to_coordinates", e)
    try:
        out = []
        allc = [list(map(int, c)) for c in np.ndindex(*shape)]
        if variant == "np":
            out = [[c, _int(g.coordinates_to_index(np.array(c)))] for c in allc]
        else:
            for c in allc:
                arg = tuple(c) if variant == "py" else list(c)
                out.append([c, _int(g.coordinates_to_index(arg))])
        rec["c2i"] = out
    except Exception as e:
        fail("coordinates_to_index", e)


def _obs_uniform(shape, origin, axes, full, along, fail, den=1, dtype=float, variant="py"):
    from grid.cubic import UniformGrid
    rec = _blank("uniform", shape, variant)
    rec["origin"], rec["axes"] = list(origin), [list(r) for r in axes]
    o, a, sh = np.array(origin, dtype), np.array(axes, dtype), np.array(shape, int)
    if den != 1:
        o, a = o / den, a / den
    keep = (o.copy(), a.copy(), sh.copy())
    try:
        g = UniformGrid(o, a, sh)
    except Exception as e:
        fail("UniformGrid", e)
        return rec
    try:
        rec["pts"] = _ints(np.asarray(g.points) * den)
        rec["attrs"] = _attrs(g)
    except Exception as e:
        fail("points", e)
    if full:
        _index_maps(g, shape, rec, fail, variant)
    if along:
        try:
            rec["along"] = [_ints(np.asarray(x) * den) for x in g.get_points_along_axes()]
        except Exception as e:
            fail("get_points_along_axes", e)
    if not (np.array_equal(keep[0], o) and np.array_equal(keep[1], a) and np.array_equal(keep[2], sh)
            and np.array_equal(keep[0], g.origin) and np.array_equal(keep[1], g.axes)):
        fail("state", ValueError("origin / axes / shape arrays changed while the grid was built and queried"))
    return rec


def _obs_tensor(case, fail, variant="py"):
    from grid.basegrid import OneDGrid
    from grid.cubic import Tensor1DGrids
    shape = case["shape"]
    rec = _blank("tensor", shape, variant)
    rec["nodes"], rec["w1d"] = case["nodes"], case["w1d"]
    try:
        oned = [OneDGrid(np.array(p, float), np.array(w, float)) for p, w in zip(case["nodes"], case["w1d"])]
        g = Tensor1DGrids(*oned)
    except Exception as e:
        fail("Tensor1DGrids", e)
        return rec
    try:
        if tuple(int(v) for v in g.shape) != tuple(shape):
            raise ValueError(f"shape attribute {g.shape}")
        rec["pts"] = _ints(g.points)
        rec["wts"] = _ints(g.weights)
        rec["attrs"] = _attrs(g)
        if not np.array_equal(np.asarray(g.origin), np.asarray(g.points)[0]):
            raise ValueError(f"origin attribute {g.origin} is not the first point {g.points[0]}")
    except Exception as e:
        fail("points/weights", e)
    _index_maps(g, shape, rec, fail, variant)
    try:
        rec["along"] = [_ints(a) for a in g.get_points_along_axes()]
    except Exception as e:
        fail("get_points_along_axes", e)
    try:
        vals = np.ones(len(g.points))
        for d, tags in enumerate(case["ftags"]):
            lut = {float(p): t for p, t in zip(case["nodes"][d], tags)}
            vals = vals * np.array([lut[float(x)] for x in g.points[:, d]], float)
        rec["integ"] = [_int(g.integrate(vals))]
    except Exception as e:
        fail("integrate", e)
    return rec


def _obs_big(c, kind, fail):
    """Sampled indices of a large shape: [index, index_to_coordinates, coordinates_to_index of that, point]."""
    from grid.basegrid import OneDGrid
    from grid.cubic import Tensor1DGrids, UniformGrid
    shape = c["shape"]
    rec = _blank(kind, shape)
    try:
        if kind == "big-uniform":
            rec["origin"], rec["axes"] = c["origin"], c["skew"]
            g = UniformGrid(np.array(c["origin"], float), np.array(c["skew"], float), np.array(shape, int))
        else:
            rec["nodes"] = c["nodes"]
            g = Tensor1DGrids(*[OneDGrid(np.array(p, float), np.ones(len(p))) for p in c["nodes"]])
        rec["attrs"] = _attrs(g)
        pts = np.asarray(g.points)
    except Exception as e:
        fail("construct", e)
        return rec
    out = []
    for k, idx in enumerate(c["sample"]):
        try:
            co = [_int(v) for v in g.index_to_coordinates(np.int64(idx) if k % 2 else int(idx))]
            back = _int(g.coordinates_to_index(tuple(co) if k % 2 else np.array(co)))
            out.append([int(idx), co, back, _ints(pts[idx])])
        except Exception as e:
            fail(f"index maps at {idx}", e)
    rec["samples"] = out
    return rec


def _obs_realtensor(rep, c, obs):
    """Tensor product of the library's 1D quadratures: the tuple law as an integer observation (position
    of every coordinate in the 1D node array, bit-identical) for the TLC judge; weights = products of
    the 1D weights and separable integral = product of the 1D integrals in floating point."""
    import grid.onedgrid as og
    from grid.cubic import Tensor1DGrids
    key = "tensor-real:" + "x".join(f"{n}({m})" for n, m in zip(c["grids"], c["sizes"]))
    rec = _blank("tensor", c["sizes"], "real")
    rec["nodes"] = [list(range(m)) for m in c["sizes"]]
    try:
        oned = [getattr(og, nm)(m) for nm, m in zip(c["grids"], c["sizes"])]
        g = Tensor1DGrids(*oned)
        pts, wts = np.asarray(g.points, float), np.asarray(g.weights, float)
        ranks = []
        for d, o in enumerate(oned):
            lut = {float(x): i for i, x in enumerate(np.asarray(o.points, float))}
            if len(lut) != len(o.points):
                raise tlc.MachineryError(f"{key}: repeated 1D node")
            ranks.append([lut.get(float(x), -1) for x in pts[:, d]])
        rec["pts"] = [list(t) for t in zip(*ranks)]
        rec["attrs"] = _attrs(g)
        rec["along"] = [[{float(x): i for i, x in enumerate(np.asarray(o.points, float))}.get(float(v), -1) for v in a]
                        for o, a in zip(oned, g.get_points_along_axes())]
    except tlc.MachineryError:
        raise
    except Exception as e:
        rep.violation(f"layout:{key}:construct", f"Tensor1DGrids of {c['grids']} {c['sizes']} raised {type(e).__name__}: {e}")
        obs.append(rec)
        return
    obs.append(rec)
    if min(min(r) for r in ranks) < 0 or len(wts) != len(pts):
        return            # reported by the judge (points) / nothing to compare
    want = np.ones(len(pts))
    for d, o in enumerate(oned):
        want = want * np.asarray(o.weights, float)[ranks[d]]
    err = float(np.max(np.abs(wts - want) / np.abs(want)))
    _stat("tensor_real_weight_relerr", err)
    if not err <= REAL_W_RTOL:
        i = int(np.argmax(np.abs(wts - want) / np.abs(want)))
        rep.violation(f"layout:{key}:weights", f"Tensor1DGrids of {c['grids']} {c['sizes']}: weight {i} is {wts[i]!r}, product of the 1D "
                                               f"weights at coordinates {[r[i] for r in ranks]} is {want[i]!r}", {"case": c})
    f1d = [np.asarray(o.points, float) ** p for o, p in zip(oned, c["powers"])]
    vals = np.ones(len(pts))
    for d, p in enumerate(c["powers"]):
        vals = vals * pts[:, d] ** p
    try:
        got = float(g.integrate(vals))
        prod = float(np.prod([o.integrate(f) for o, f in zip(oned, f1d)]))
        mag = float(np.sum(np.abs(wts * vals))) or 1.0
        _stat("tensor_real_integral_relerr", abs(got - prod) / mag)
        if not abs(got - prod) <= REAL_INT_RTOL * mag:
            rep.violation(f"layout:{key}:separable-integral",
                          f"Tensor1DGrids of {c['grids']} {c['sizes']}: integral of x^a y^b z^c, powers {c['powers']}, is {got!r}; "
                          f"product of the 1D integrals {prod!r}", {"case": c})
    except Exception as e:
        rep.violation(f"layout:{key}:integrate", f"integrate raised {type(e).__name__}: {e}")


def _family_layout(rep: Report, tier: str, wd: Path):
    consts = {"MinM": 2, "MaxM": 4 if tier == "quick" else 5, "NumpyMaxM": 3 if tier == "quick" else 4,
              "Seed": rep.seed, "NRandom3": 300 if tier == "quick" else 3000, "AllSmall3": tier != "quick",
              "VarMod": 3 if tier == "quick" else 1}
    _obs_module(wd, "Obs_layout", "LayoutObs", None)
    cases, _ = _emit("MC_CubicLayout", wd, consts, "cases_layout.json")
    obs = []

    def failer(key):
        def fail(call, e):
            rep.violation(f"layout:{key}:{call}", f"{call} failed on an admissible grid ({key}): {type(e).__name__}: {e}")
        return fail

    for c in cases["shapes"]:
        sh = c["shape"]
        tag = "x".join(map(str, sh))
        obs.append(_obs_uniform(sh, c["origin"], c["skew"], True, False, failer(f"uniform:skew:shape={tag}")))
        obs.append(_obs_uniform(sh, c["origin"], c["diag"], False, True, failer(f"uniform:diag:shape={tag}")))
        obs.append(_obs_tensor(c, failer(f"tensor:shape={tag}")))
        rep.evaluated(3, ("layout", tag))
    nshape_obs = len(obs)
    for c in cases["shapes"]:
        if not c["variants"]:
            continue
        sh = c["shape"]
        tag = "x".join(map(str, sh))
        # non-integer origin / axes (integer grid / 2^k), numpy integers and vectorised coordinates_to_index
        obs.append(_obs_uniform(sh, c["origin"], c["skew"], True, False, failer(f"uniform:skew/{c['den']}:shape={tag}"),
                                den=c["den"], variant="np"))
        # origin and axes handed in as integer arrays
        obs.append(_obs_uniform(sh, c["origin"], c["diag"], False, True, failer(f"uniform:diag-int-arrays:shape={tag}"),
                                dtype=int, variant="int-arrays"))
        # 1D nodes that are not sorted; numpy.int32 indices and lists of coordinates
        obs.append(_obs_tensor({**c, "nodes": c["permnodes"]}, failer(f"tensor:unsorted-nodes:shape={tag}"), variant="list"))
        rep.evaluated(3, ("layout-variants", tag))
    for c in cases["big"]:
        tag = "x".join(map(str, c["shape"]))
        obs.append(_obs_big(c, "big-uniform", failer(f"uniform:big:shape={tag}")))
        obs.append(_obs_big(c, "big-tensor", failer(f"tensor:big:shape={tag}")))
        rep.evaluated(2, ("layout-big", tag))
    for c in cases["realtensor"]:
        _obs_realtensor(rep, c, obs)
        rep.evaluated(1, ("layout-real", tuple(c["grids"])))
    for a in cases["axes2"]:
        obs.append(_obs_uniform([2, 3], [1, -2], a, False, False, failer(f"uniform:axes={a}")))
    for a in cases["axes3"]:
        obs.append(_obs_uniform([2, 3, 2], [1, -2, 3], a, False, False, failer(f"uniform:axes={a}")))
    for c in cases["random3"]:
        obs.append(_obs_uniform(c["shape"], [-1, 2, 0], c["axes"], False, False, failer(f"uniform:axes={c['axes']}")))
    nax = len(cases["axes2"]) + len(cases["axes3"]) + len(cases["random3"])
    rep.evaluated(nax, ("layout", "axes"))
    rep.set("layout_axes_cases", nax)
    rep.set("layout_variant_records", len(obs) - nax - nshape_obs)
    rep.sample({"family": "layout", "case": {k: v for k, v in cases["shapes"][-1].items()},
                "observed_points_head": obs[3 * len(cases["shapes"]) - 3]["pts"][:4]})
    with open(wd / "obs_layout.json", "w") as f:
        json.dump(obs, f)
    _obs_module(wd, "Obs_layout", "LayoutObs", "obs_layout.json")
    cfg = _cfg(wd, "MC_CubicLayout.cfg", {**consts, "Emit": False}, LAYOUT_INVARIANTS)
    res = tlc.run_tlc("MC_CubicLayout", cfg, wd, workers=WORKERS, timeout=1500).require_ok("MC_CubicLayout")
    rep.tlc(res, "MC_CubicLayout")
    _model_violation(rep, res, "layout")
    for t in _tagged(res.stdout, "MISMATCH"):
        _, r, clause, at, want, got = t
        if r == 0:
            rep.violation(f"layout:{clause}:{at}", f"shape {at} was not observed for grid class {want}")
            continue
        o = obs[r - 1]
        where = f"shape={'x'.join(map(str, o['shape']))}"
        if o["kind"] in ("uniform", "big-uniform"):
            where += f":axes={o['axes']}"
        if o["variant"]:
            where += f":{o['variant']}"
        rep.violation(f"layout:{o['kind']}:{clause}:{where}",
                      f"{o['kind']} grid {where}: {clause} at {at}: specification {want}, implementation {got}",
                      {"record": {k: v for k, v in o.items() if k in ('kind', 'shape', 'origin', 'axes', 'nodes', 'w1d', 'variant')},
                       "clause": clause, "at": at, "spec": want, "observed": got})
    return len(obs)


# --------------------------------------------------------------------------------------------
# family 2: weighting schemes

W_RTOL = 1e-12       # rational schemes; measured max relative deviation 4.5e-16
W_F1_RTOL = 1e-10    # Fourier1 (sums of sines); measured max relative deviation 2e-15
W_SUM_SLACK = 1e-12
STATS = {}


def _stat(name, value):
    STATS[name] = max(STATS.get(name, 0.0), float(value))


SCHEMES = ("Rectangle", "Trapezoid", "Alternative", "Fourier1", "Fourier2")


def _family_weights(rep: Report, tier: str, wd: Path):
    from grid.cubic import UniformGrid
    consts = {"MaxW": 8 if tier == "quick" else 12, "CaseMax": 4 if tier == "quick" else 5}
    cfg = _cfg(wd, "MC_CubicWeights.cfg", {**consts, "Emit": True}, ["WeightSumBound", "WeightSums", "VolumeLaw", "VolumeHomogeneous"])
    res = tlc.run_tlc("MC_CubicWeights", cfg, wd, workers=WORKERS, timeout=900).require_ok("MC_CubicWeights")
    rep.tlc(res, "MC_CubicWeights")
    _model_violation(rep, res, "weights")
    with open(wd / "cases_weights.json") as f:
        cases = json.load(f)
    n = 0
    files = wd / "wcube"
    files.mkdir(exist_ok=True)

    def judge(c, scheme, build, vol, route, values=True):
        """Construct through `build` and compare with the documented scheme on the volume `vol`.
        route = "" (the constructor itself; keys as in round 0) or a tag of the alternative route."""
        shape = c["shape"]
        dim = len(shape)
        tag = "x".join(map(str, shape)) + (f":{route}" if route else "")
        bound = Fraction(*c["bound"])
        how = f"UniformGrid(shape={shape}, weight={scheme!r})" + (f" via {route}" if route else "")
        rep.evaluated(1, ("weights", scheme, dim, route.split("=")[0]))
        try:
            g = build()
            w = np.asarray(g.weights, float)
            if w.shape != (int(np.prod(shape)),) or not np.all(np.isfinite(w)):
                raise ValueError(f"weights have shape {w.shape} / non-finite entries")
        except Exception as e:
            rep.violation(f"weights:{scheme}:dim={dim}:construct:shape={tag}",
                          f"{how} does not construct: {type(e).__name__}: {e}",
                          {"shape": shape, "axes": c["axes"], "scheme": scheme, "route": route})
            return
        dev = abs(float(w.sum()) / vol - 1.0)
        if dev > float(bound) + W_SUM_SLACK:
            rep.violation(f"weights:{scheme}:dim={dim}:sum-bound:shape={tag}",
                          f"{how}: |sum(w)/V - 1| = {dev:.6g} exceeds sum(1/M_i) = {float(bound):.6g} "
                          f"(sum(w) = {w.sum():.6g}, V = {vol}, min weight {w.min():.3g})",
                          {"shape": shape, "axes": c["axes"], "scheme": scheme, "deviation": dev, "bound": float(bound), "route": route})
        key = {"Rectangle": "rect", "Trapezoid": "trap", "Alternative": "alt"}.get(scheme)
        if key:
            want = float(Fraction(*c[key]) * Fraction(vol))
            err = float(np.max(np.abs(w - want))) / want
            _stat("weights_rational_relerr", err)
            if err > W_RTOL:
                rep.violation(f"weights:{scheme}:dim={dim}:value:shape={tag}",
                              f"{how}: documented weight {want!r}, implementation "
                              f"{w[int(np.argmax(np.abs(w - want)))]!r}",
                              {"shape": shape, "axes": c["axes"], "scheme": scheme, "spec": want, "route": route})
        elif scheme == "Fourier1" and values:
            names = ["i", "j", "k"][:dim]
            worst, at = 0.0, None
            for flat, idx in enumerate(np.ndindex(*shape)):
                env = {nm: int(v) + 1 for nm, v in zip(names, idx)}
                want = vol * evaluate(c["fourier1"], env, "float")
                err = abs(w[flat] - want) / abs(want)
                if err > worst:
                    worst, at = err, (idx, want, float(w[flat]))
            _stat("weights_fourier1_relerr", worst)
            if worst > W_F1_RTOL:
                rep.violation(f"weights:Fourier1:dim={dim}:value:shape={tag}",
                              f"{how}: at coordinates {at[0]} documented weight {at[1]!r}, "
                              f"implementation {at[2]!r}", {"shape": shape, "axes": c["axes"], "at": list(at[0]), "route": route})

    for c in cases:
        shape = c["shape"]
        dim = len(shape)
        small = tier != "quick" or np.prod(shape) <= 200
        axes = np.array(c["axes"], float)
        den = int(c["den"])
        for scheme in SCHEMES:
            n += 1
            judge(c, scheme, lambda: UniformGrid(np.zeros(dim), axes, np.array(shape, int), weight=scheme), c["volume"], "", small)
        # non-integer axes, non-zero origin, 32-bit shape array
        for scheme in SCHEMES[:4]:
            n += 1
            judge(c, scheme, lambda: UniformGrid(np.array(c["origin"], float) / den, axes / den, np.array(shape, np.int32), weight=scheme),
                  float(Fraction(*c["volume_scaled"])), f"axes/{den}", small and np.prod(shape) <= 60)
        # the scheme handed on by from_cube (integer geometry is printed without rounding)
        if c["routes"] and (tier != "quick" or (sum(shape) + rep.seed) % 2 == 0):
            fname = str(files / ("w" + "x".join(map(str, shape)) + ".cube"))
            try:
                g0 = UniformGrid(np.array(c["origin"], float), axes, np.array(shape, int))
                g0.generate_cube(fname, np.zeros(int(np.prod(shape))), np.zeros((1, 3)), np.array([1]))
            except Exception as e:
                rep.violation(f"weights:route:from_cube:write:shape={'x'.join(map(str, shape))}", f"generate_cube raised {type(e).__name__}: {e}")
                continue
            for scheme in SCHEMES:
                n += 2
                judge(c, scheme, lambda: UniformGrid.from_cube(fname, weight=scheme), c["volume"], "from_cube", True)
                judge(c, scheme, lambda: UniformGrid.from_cube(fname, scheme, True)[0], c["volume"], "from_cube+data", False)
    rep.sample({"family": "weights", "shape": cases[-1]["shape"], "axes": cases[-1]["axes"], "volume": cases[-1]["volume"],
                "trapezoid_w_over_V": cases[-1]["trap"], "bound": cases[-1]["bound"]})
    return n


# --------------------------------------------------------------------------------------------
# family 3: UniformGrid.from_molecule

BOX_ATOL = 1e-12      # origin / margin, exact dyadic inputs; measured <= 9e-16 (rotate=False)
BOX_SLACK = 1e-9      # enclosure predicate on floats (rotate=True goes through eigh)


def _tagged(stdout, tag):
    """tlc.tagged, also for values that TLC pretty-prints over several lines (<< "TAG", ...)."""
    return tlc.tagged(stdout.replace('<< "', '<<"'), tag)


def _molkey(zs, xs, sp, ex):
    return f"Z={zs}:X={[[float(v) for v in x] for x in xs]}:spacing={float(sp)}:extension={float(ex)}"


def _default_scheme():
    """Name of the scheme from_molecule uses when none is given (read from the signature, not pinned)."""
    import inspect
    from grid.cubic import UniformGrid
    return inspect.signature(UniformGrid.from_molecule).parameters["weight"].default


def _box_worker(case):
    """Replay one emitted case (rotate=False and rotate=True); returns (violations, stats)."""
    from grid.cubic import UniformGrid
    _, mol, sp, ex, shape, origin, margin, encloses, centred, trapw = case[:10]
    extra = bool(case[10]) if len(case) > 10 else False       # harness flag: also the argument-form relations
    trapw = float(Fraction(*trapw))
    zs = [a[0] for a in mol]
    xs = [[Fraction(*q) for q in a[1]] for a in mol]
    sp, ex = Fraction(*sp), Fraction(*ex)
    origin = [Fraction(*q) for q in origin]
    margin = Fraction(*margin)
    key = _molkey(zs, xs, sp, ex)
    cls = "com=midpoint" if centred else "com!=midpoint"
    info = {"atcorenums": zs, "atcoords": [[float(v) for v in x] for x in xs], "spacing": float(sp),
            "extension": float(ex), "spec_shape": shape, "spec_origin": [float(v) for v in origin],
            "spec_margin": float(margin), "spec_encloses": encloses}
    out, stats = [], {}
    znp = np.array(zs, float)
    xnp = np.array([[float(v) for v in x] for x in xs])
    need = float(ex - sp)
    # ---- rotate=False: exact arithmetic of the box + the enclosure law
    try:
        g = UniformGrid.from_molecule(znp, xnp, spacing=float(sp), extension=float(ex), rotate=False)
        gshape = [int(v) for v in g.shape]
        lo, hi = g.points.min(axis=0), g.points.max(axis=0)
        gmargin = float(min((xnp - lo).min(), (hi - xnp).min()))
        if gshape != list(shape):
            out.append((f"from_molecule:box-arithmetic:shape:{key}",
                        f"from_molecule(rotate=False) {key}: number of points {gshape}, specification {shape}", info))
        else:
            err = float(np.max(np.abs(np.asarray(g.origin, float) - np.array([float(v) for v in origin]))))
            stats["box_origin_abserr"] = err
            if err > BOX_ATOL or abs(gmargin - float(margin)) > 1e-9:
                out.append((f"from_molecule:box-arithmetic:origin:{key}",
                            f"from_molecule(rotate=False) {key}: origin {list(map(float, g.origin))} margin {gmargin}, "
                            f"specification of the shipped rule origin {[float(v) for v in origin]} margin {float(margin)}", info))
        # weights of the scheme used when none is named: they sum to the box volume within sum(1/M_i); if
        # that scheme is Trapezoid (signature) every weight is the documented V / prod(M + 1) of the specification
        w = np.asarray(g.weights, float)
        if gshape == list(shape):
            vol = float(sp) ** 3 * float(np.prod(shape))
            dev = abs(float(w.sum()) / vol - 1.0) if w.shape == (int(np.prod(shape)),) else float("inf")
            if not dev <= sum(1.0 / m for m in shape) + W_SUM_SLACK:
                out.append((f"from_molecule:weights:sum-bound:{key}",
                            f"from_molecule(rotate=False) {key}: |sum(w)/V - 1| = {dev:.6g} exceeds sum(1/M_i) for shape {shape}", info))
            if _default_scheme() == "Trapezoid":
                werr = float(np.max(np.abs(w - trapw))) / trapw if w.shape == (int(np.prod(shape)),) else float("inf")
                stats["box_weight_relerr"] = werr
                if not werr <= W_RTOL:
                    out.append((f"from_molecule:weights:value:{key}",
                                f"from_molecule(rotate=False) {key}: weights {w[:3].tolist()}..., documented scheme Trapezoid "
                                f"V / prod(M + 1) = {trapw!r}", info))
        if extra:
            out.extend(_box_forms(g, zs, znp, xnp, float(sp), float(ex), key, info))
        if gmargin < need - BOX_SLACK:
            out.append((f"from_molecule:enclosure:{cls}:{key}",
                        f"from_molecule(rotate=False) {key}: a nucleus is {gmargin:.6g} from the box boundary "
                        f"(negative = outside); required margin extension - spacing = {need:.6g}; box {lo.tolist()}..{hi.tolist()}",
                        {**info, "observed_margin": gmargin}))
    except Exception as e:
        out.append((f"from_molecule:raises:{key}", f"from_molecule(rotate=False) {key} raised {type(e).__name__}: {e}", info))
    # ---- rotate=True: the enclosure law as a predicate on the resulting grid
    try:
        g = UniformGrid.from_molecule(znp, xnp, spacing=float(sp), extension=float(ex), rotate=True)
        axes = np.asarray(g.axes, float)
        frame = axes / float(sp)
        if not np.allclose(frame @ frame.T, np.eye(3), atol=1e-9):
            out.append((f"from_molecule:rotate:axes:{key}", f"from_molecule(rotate=True) {key}: axes/spacing is not orthonormal", info))
        else:
            t = (xnp - np.asarray(g.origin, float)) @ np.linalg.inv(axes)      # fractional coordinates of the nuclei
            top = np.array(g.shape, float) - 1.0
            gmargin = float(min(t.min(), (top - t).min())) * float(sp)
            com = znp @ xnp / znp.sum()
            tc = (com - np.asarray(g.origin, float)) @ np.linalg.inv(axes)
            mid = 0.5 * (t.max(axis=0) + t.min(axis=0))
            rcls = "com=midpoint" if float(np.max(np.abs(mid - tc))) * float(sp) < 1e-9 else "com!=midpoint"
            # the eigenvector matrix of the inertia tensor enters the result twice (projection of the
            # nuclei, axes of the grid); the two uses agree only when it is symmetric
            fcls = "axes-symmetric" if np.allclose(frame, frame.T, atol=1e-9) else "axes-not-symmetric"
            w = np.asarray(g.weights, float)
            rvol = float(sp) ** 3 * float(np.prod(g.shape))        # |det(spacing * orthonormal frame)| * prod(M)
            dev = abs(float(w.sum()) / rvol - 1.0) if w.ndim == 1 and len(w) == len(g.points) else float("inf")
            if not dev <= float(np.sum(1.0 / np.asarray(g.shape, float))) + BOX_SLACK:
                out.append((f"from_molecule:rotate:weights:sum-bound:{key}",
                            f"from_molecule(rotate=True) {key}: |sum(w)/V - 1| = {dev:.6g} exceeds sum(1/M_i) for shape {list(map(int, g.shape))}", info))
            if _default_scheme() == "Trapezoid":
                wantw = rvol / float(np.prod(np.asarray(g.shape) + 1.0))
                werr = float(np.max(np.abs(w - wantw))) / wantw if w.ndim == 1 and len(w) == len(g.points) else float("inf")
                stats["box_rotate_weight_relerr"] = werr
                if not werr <= BOX_SLACK:
                    out.append((f"from_molecule:rotate:weights:value:{key}",
                                f"from_molecule(rotate=True) {key}: weights {w[:3].tolist()}..., documented scheme Trapezoid "
                                f"spacing^3 prod(M) / prod(M + 1) = {wantw!r} for shape {list(map(int, g.shape))}", info))
            if gmargin < need - BOX_SLACK:
                out.append((f"from_molecule:rotate:enclosure:{fcls}:{rcls}:{key}",
                            f"from_molecule(rotate=True) {key}: a nucleus is {gmargin:.6g} from the box boundary "
                            f"(negative = outside); required margin {need:.6g}", {**info, "observed_margin": gmargin}))
    except Exception as e:
        # in the rotated frame the extent of a linear / planar molecule can vanish: fewer than two
        # points in a direction is rejected by the constructor as documented (inadmissible input)
        if not (isinstance(e, ValueError) and ("greater than one" in str(e) or "should be positive" in str(e))):
            out.append((f"from_molecule:rotate:raises:{key}", f"from_molecule(rotate=True) {key} raised {type(e).__name__}: {e}", info))
        else:
            stats["box_rotate_rejected"] = 1.0
    return out, stats, (len(zs), cls)


def _same_grid(g, h):
    return (np.array_equal(np.asarray(g.shape), np.asarray(h.shape)) and np.array_equal(g.origin, h.origin)
            and np.array_equal(g.axes, h.axes) and np.array_equal(g.points, h.points) and np.array_equal(g.weights, h.weights))


def _box_forms(g, zs, znp, xnp, sp, ex, key, info):
    """Relations between argument forms of from_molecule (rotate=False; harness-only, a model adds
    nothing): the arrays handed in stay untouched and a repeated call gives the same grid; integer
    charges (and integer coordinates where they are integral) give the same grid; the order of the
    atoms does not matter (dyadic inputs: every sum is exact); the scheme name is handed on."""
    from grid.cubic import UniformGrid
    out = []
    z0, x0 = znp.copy(), xnp.copy()

    def call(z, x, **kw):
        return UniformGrid.from_molecule(z, x, spacing=sp, extension=ex, rotate=False, **kw)

    def rel(tag, build):
        try:
            h = build()
            if not _same_grid(g, h):
                out.append((f"from_molecule:form:{tag}:{key}",
                            f"from_molecule(rotate=False) {key}: {tag} gives a different grid (shape {list(map(int, h.shape))}, origin "
                            f"{np.asarray(h.origin).tolist()}) than the float64 call (shape {list(map(int, g.shape))}, origin {np.asarray(g.origin).tolist()})", info))
        except Exception as e:
            out.append((f"from_molecule:form:{tag}:{key}", f"from_molecule(rotate=False) {key}: {tag} raised {type(e).__name__}: {e}", info))

    rel("repeated-call", lambda: call(znp, xnp))
    if not (np.array_equal(z0, znp) and np.array_equal(x0, xnp)):
        out.append((f"from_molecule:form:arguments-modified:{key}", f"from_molecule {key} modified atcorenums / atcoords", info))
    rel("integer-charges", lambda: call(np.array(zs, int), xnp))
    if np.all(xnp == np.round(xnp)):
        rel("integer-coordinates", lambda: call(np.array(zs, int), xnp.astype(int)))
    if len(zs) > 1:
        rel("atoms-reversed", lambda: call(znp[::-1].copy(), xnp[::-1].copy()))
        rel("atoms-as-views", lambda: call(znp[::-1][::-1], np.asfortranarray(xnp)))
    for scheme in SCHEMES:
        try:
            h = call(znp, xnp, weight=scheme)
            d = UniformGrid(np.asarray(g.origin).copy(), np.asarray(g.axes).copy(), np.asarray(g.shape).copy(), weight=scheme)
            if not (np.array_equal(h.points, g.points) and np.array_equal(h.weights, d.weights)):
                out.append((f"from_molecule:form:weight={scheme}:{key}",
                            f"from_molecule(rotate=False, weight={scheme!r}) {key}: weights {np.asarray(h.weights)[:3].tolist()}..., "
                            f"UniformGrid(origin, axes, shape, {scheme!r}) of the same box {np.asarray(d.weights)[:3].tolist()}...", info))
        except Exception as e:
            out.append((f"from_molecule:form:weight={scheme}:{key}",
                        f"from_molecule(rotate=False, weight={scheme!r}) {key} raised {type(e).__name__}: {e}", info))
    return out


def _box_defaults(rep):
    """A call without options: the same grid as the call with the default values of the signature
    spelled out, and the enclosure law for those values.  A single atom, and a homonuclear diatomic on
    the z axis: the centre of charge is the midpoint of the extent and the principal axes are the
    Cartesian ones, so that the enclosure law applies as it stands (no value is pinned here)."""
    import inspect
    from grid.cubic import UniformGrid
    n = 0
    for name, z, x in (("atom", [3.0], [[0.25, -0.5, 1.0]]), ("diatomic", [7.0, 7.0], [[0.0, 0.0, -1.0], [0.0, 0.0, 1.0]])):
        key = f"from_molecule:defaults:{name}"
        n += 1
        rep.evaluated(1, ("box-defaults", name))
        try:
            dflt = {k: v.default for k, v in inspect.signature(UniformGrid.from_molecule).parameters.items()
                    if v.default is not inspect.Parameter.empty}
            sp, ex = float(dflt["spacing"]), float(dflt["extension"])
            z, x = np.array(z), np.array(x)
            g = UniformGrid.from_molecule(z, x)
            h = UniformGrid.from_molecule(z, x, **dflt)
            if not _same_grid(g, h):
                rep.violation(key + ":signature", f"from_molecule({name}) without options differs from the call with the defaults of the "
                                                  f"signature {dflt} (shape {list(map(int, g.shape))} vs {list(map(int, h.shape))})")
            t = (x - np.asarray(g.origin, float)) @ np.linalg.inv(np.asarray(g.axes, float))
            top = np.array(g.shape, float) - 1.0
            steps = np.linalg.norm(np.asarray(g.axes, float), axis=1)
            gmargin = float(np.min(np.minimum(t, top - t) * steps))
            if not np.allclose(steps, sp, rtol=0, atol=1e-12) or gmargin < ex - sp - BOX_SLACK:
                rep.violation(key + ":enclosure", f"from_molecule({name}) with the default options {dflt}: steps {steps.tolist()}, a nucleus is "
                                                  f"{gmargin:.6g} from the boundary; required {ex} - {sp}")
        except Exception as e:
            rep.violation(key + ":raises", f"from_molecule({name}) with default options raised {type(e).__name__}: {e}")
    return n


def _family_box(rep: Report, tier: str, wd: Path):
    consts = ({"MaxAtoms": 2, "ZPool": {1, 8, 50}, "ZPool3": {1}} if tier == "quick"
              else {"MaxAtoms": 3, "ZPool": {1, 6, 8, 50}, "ZPool3": {1, 8, 50}})
    cfg = _cfg(wd, "MC_CubicBox.cfg", consts, ["MidpointBoxEncloses", "ShippedBoxEnclosesWhenCentred", "SizeRule", "EmitCase"])
    res = tlc.run_tlc("MC_CubicBox", cfg, wd, workers=WORKERS, timeout=1500).require_ok("MC_CubicBox")
    rep.tlc(res, "MC_CubicBox")
    _model_violation(rep, res, "box")
    cases = _tagged(res.stdout, "BOX")
    if not cases:
        raise tlc.MachineryError("MC_CubicBox emitted no case")
    import multiprocessing as mp
    every = 16 if tier == "quick" else 5       # argument-form relations on every `every`-th case
    jobs = [list(c) + [(i + rep.seed) % every == 0] for i, c in enumerate(cases)]
    with mp.get_context("fork").Pool(WORKERS) as pool:
        results = pool.map(_box_worker, jobs, chunksize=64)
    for (viol, stats, dk), case in zip(results, cases):
        rep.evaluated(2, ("box",) + dk)
        for k, v in stats.items():
            _stat(k, v)
        for key, what, info in viol:
            rep.violation(key, what, info)
    rep.set("box_cases", len(cases))
    rep.set("box_form_cases", sum(1 for j in jobs if j[-1]))
    rep.sample({"family": "from_molecule", "tlc_case": cases[len(cases) // 2]})
    return 2 * len(cases) + sum(1 for j in jobs if j[-1]) + _box_defaults(rep)


# --------------------------------------------------------------------------------------------
# family 4: closest_point

NOTREC = -1000000


def _obs_modules(wd: Path, module: str, ops: dict):
    """Generated observation module with several operators {name: json file | None}."""
    body = "\n".join(f'{op} == JsonDeserialize("{fn}")' if fn else f"{op} == <<>>" for op, fn in ops.items())
    (wd / f"{module}.tla").write_text(f"---- MODULE {module} ----\nEXTENDS Json\n{body}\n====\n")


def _family_closest(rep: Report, tier: str, wd: Path):
    from grid.cubic import UniformGrid
    stride = 3 if tier == "quick" else 1
    consts = {"Fine": 4 if tier == "quick" else 8, "OutM": 1 if tier == "quick" else 2,
              "OutStride": stride, "OutPhase": rep.seed % stride}
    _obs_modules(wd, "Obs_closest", {"ClosestObs": None, "ClosestOutObs": None})
    cases, _ = _emit("MC_CubicClosest", wd, consts, "cases_closest.json")
    obs, oobs, n = [], [], 0
    for gi, c in enumerate(cases, 1):
        dim = len(c["shape"])
        sign = "step<0" if min(c["step"]) < 0 else "step>0"
        den = int(c["den"])
        gkey = f"{sign}:shape={c['shape']}:origin={c['origin']}:steps={c['step']}" + (f":den={den}" if den != 1 else "")
        rows = []
        # the grid handed to the implementation: integer grid / den (exact), as float or int arrays
        dt = int if c["repr"] == "int" else float
        origin = np.array(c["origin"], dt) if den == 1 else np.array(c["origin"], float) / den
        axes = np.diag(np.array(c["step"], dt)) if den == 1 else np.diag(np.array(c["step"], float)) / den
        shape = np.array(c["shape"], int)
        keep = (origin.copy(), axes.copy(), shape.copy())
        try:
            g = UniformGrid(origin, axes, shape)
        except Exception as e:
            rep.violation(f"closest_point:construct:{gkey}", f"UniformGrid {gkey} raised {type(e).__name__}: {e}")
            obs.append([[NOTREC, NOTREC]] * len(c["queries"]))
            oobs.append([NOTREC] * len(c["outside"]))
            continue
        for qi, q in enumerate(c["queries"]):
            p = np.array([Fraction(*v) for v in q], float) / den
            row = []
            for which in ("closest", "origin"):
                try:
                    row.append(_int(g.closest_point(p, which)))
                except Exception as e:
                    row.append(NOTREC)
                    rep.violation(f"closest_point:{which}:{gkey}:raises",
                                  f"closest_point({p.tolist()}, {which!r}) on grid {gkey} raised {type(e).__name__}: {e}",
                                  {"grid": c["shape"], "origin": c["origin"], "steps": c["step"], "den": den, "point": p.tolist()})
            rows.append(row)
            n += 2
            # representation of the query point: list, float32 (dyadic lattice points are exact in single
            # precision), int array for integral points, and the same call repeated: the same index
            alts = [("list", p.tolist()), ("float32", p.astype(np.float32)), ("repeat", p)]
            if tier == "quick":
                alts = [alts[qi % 3]]
            if np.all(p == np.round(p)):
                alts.append(("int", p.astype(int)))
            for nm, alt in alts:
                for wi, which in enumerate(("closest", "origin")):
                    try:
                        got = _int(g.closest_point(alt, which))
                    except Exception as e:
                        got = f"{type(e).__name__}: {e}"
                    if got != row[wi] and row[wi] != NOTREC:
                        rep.violation(f"closest_point:{which}:{gkey}:point-as-{nm}",
                                      f"closest_point on grid {gkey}: point {p.tolist()} given as {nm} returns {got}, as float64 array {row[wi]}",
                                      {"grid": c["shape"], "origin": c["origin"], "steps": c["step"], "den": den, "point": p.tolist()})
        obs.append(rows)
        orow = []
        for q in c["outside"]:
            p = np.array([Fraction(*v) for v in q], float) / den
            try:
                orow.append(_int(g.closest_point(p, "closest")))
            except Exception as e:
                orow.append(NOTREC)
                rep.violation(f"closest_point:closest-outside:{gkey}:raises",
                              f"closest_point({p.tolist()}) (a point outside the box) on grid {gkey} raised {type(e).__name__}: {e}",
                              {"grid": c["shape"], "origin": c["origin"], "steps": c["step"], "den": den, "point": p.tolist()})
            n += 1
        oobs.append(orow)
        rep.evaluated(2 * len(rows), ("closest", gi))
        rep.evaluated(len(orow), ("closest-outside", gi))
        # the query must not modify the grid or the arrays it was built from
        for nm, was, now in (("origin", keep[0], origin), ("axes", keep[1], axes), ("shape", keep[2], shape),
                             ("grid.origin", keep[0], g.origin), ("grid.axes", keep[1], g.axes)):
            if not np.array_equal(was, np.asarray(now)):
                rep.violation(f"closest_point:state:{gkey}:{nm}", f"closest_point changed {nm} of grid {gkey}: {was.tolist()} -> {np.asarray(now).tolist()}")
    rep.sample({"family": "closest_point", "grid": {k: cases[2][k] for k in ("shape", "origin", "step")},
                "query": cases[2]["queries"][7], "observed[closest,origin]": obs[2][7]})
    with open(wd / "obs_closest.json", "w") as f:
        json.dump(obs, f)
    with open(wd / "obs_closest_out.json", "w") as f:
        json.dump(oobs, f)
    _obs_modules(wd, "Obs_closest", {"ClosestObs": "obs_closest.json", "ClosestOutObs": "obs_closest_out.json"})
    cfg = _cfg(wd, "MC_CubicClosest.cfg", {**consts, "Emit": False},
               ["QueriesAreInside", "RoundingFindsNearest", "FlooringFindsCorner", "TiesAreHalves", "JudgeClosest", "JudgeCorner",
                "OutsideIsOutside", "ClampedRoundingFindsNearest", "ClampIsNeutralInside", "JudgeOutside"])
    res = tlc.run_tlc("MC_CubicClosest", cfg, wd, workers=WORKERS, timeout=1500).require_ok("MC_CubicClosest")
    rep.tlc(res, "MC_CubicClosest")
    _model_violation(rep, res, "closest")
    for t in _tagged(res.stdout, "MISMATCH"):
        _, gi, which, p, want, got = t
        c = cases[gi - 1]
        den = int(c["den"])
        sign = "step<0" if min(c["step"]) < 0 else "step>0"
        pt = [float(Fraction(*v)) / den for v in p]
        o, st = ([v / den for v in c["origin"]], [v / den for v in c["step"]]) if den != 1 else (c["origin"], c["step"])
        rep.violation(f"closest_point:{which}:{sign}:shape={c['shape']}:origin={o}:steps={st}:point={pt}",
                      f"closest_point({pt}, {'closest' if which != 'origin' else which!r}) on UniformGrid(origin={o}, axes=diag{tuple(st)}, shape={c['shape']}) "
                      f"returned index {got}; " + ("that is not the lower corner of the cell" if which == "origin" else "that is not a nearest node")
                      + f" (the specification's rounding rule gives {want})",
                      {"shape": c["shape"], "origin": o, "steps": st, "point": pt, "which": which, "spec": want, "observed": got})
    return n


# --------------------------------------------------------------------------------------------
# family 5: cube files

GEOM_ATOL = 5.01e-7      # "{:11.6f}": half a unit of the sixth decimal
DATA_RTOL = 5.01e-6      # "{:12.5E}": half a unit of the sixth significant digit
UNIT_RTOL = 1e-8         # angstrom factor: spec constant truncated to 8 digits (2e-10), CODATA revisions differ by 7e-10


def _cube_close(got, want, atol=0.0, rtol=0.0):
    got, want = np.asarray(got, float), np.asarray(want, float)
    if got.shape != want.shape:
        return False, float("inf")
    err = np.abs(got - want)
    tol = atol + rtol * np.abs(want)
    bad = err > tol
    return (not bool(np.any(bad))), float(np.max(err / np.where(tol > 0, tol, 1.0))) if err.size else 0.0


def _cube_extra(rep, extra, files, obs):
    """Forms of the data / geometry arrays, no atoms, wide coordinates, a file written twice (cases `extra`
    of MC_CubicCube).  Values are printable without rounding unless the form itself rounds (float32)."""
    from grid.cubic import UniformGrid
    rng = np.random.default_rng(rep.seed + 7919)
    n = 0
    for c in extra:
        shape, natom, form = c["shape"], c["natom"], c["form"]
        npts = int(np.prod(shape))
        key = f"cube:shape={'x'.join(map(str, shape))}:natom={natom}:form={form}"
        n += 1
        rep.evaluated(1, ("cube-form", form))
        origin = np.round(rng.uniform(-5, 5, 3), 6)
        axes = np.round(np.diag(rng.uniform(0.1, 0.9, 3)) + rng.uniform(-0.05, 0.05, (3, 3)), 6)
        atcoords = np.round(rng.uniform(-4, 4, (natom, 3)), 6)
        atnums = rng.integers(1, 30, natom)
        pseudo = (atnums - 0.5).astype(float)
        mant = rng.integers(100000, 1000000, npts) * rng.choice([-1, 1], npts)
        expo = rng.integers(-6, 7, npts)
        data = np.array([float(f"{int(m)}E{int(e) - 5}") for m, e in zip(mant, expo)])
        want_data, dt = data, 0.0
        if form == "cube3d":
            arg = data.reshape(shape)
        elif form == "fortran":
            arg = np.asfortranarray(data.reshape(shape))
        elif form == "strided":
            buf = np.full(2 * npts, 7.0)
            buf[::2] = data
            arg = buf[::2]
        elif form == "float32":
            arg = data.astype(np.float32)
            want_data, dt = arg.astype(float), DATA_RTOL
        elif form == "int":
            arg = (mant // 10) * rng.choice([1, 10], npts)          # at most six significant digits
            want_data = arg.astype(float)
        else:
            arg = data
        if form == "int-geometry":
            origin, atcoords = rng.integers(-5, 6, 3), rng.integers(-4, 5, (natom, 3))
            axes = np.diag(rng.integers(1, 4, 3)) + np.array([[0, 1, 0], [0, 0, 0], [-1, 0, 0]])
            pseudo = atnums.copy()
        if form == "wide-geometry":
            origin = np.round(origin - 12345.0, 6)
            atcoords = np.round(atcoords * 20000.0, 6)
        fname = str(files / f"extra_{form}.cube")
        kept = [np.array(a, copy=True) for a in (arg, origin, axes, atcoords, atnums, pseudo)]
        try:
            g = UniformGrid(origin, axes, np.array(shape, int))
            if form == "rewrite":       # a longer file under the same name first
                gl = UniformGrid(origin + 1.0, axes, np.array([3, 4, 5]))
                gl.generate_cube(fname, np.arange(60.0) + 1.0, np.ones((4, 3)), np.array([1, 2, 3, 4]))
            g.generate_cube(fname, arg, atcoords, atnums, pseudo_numbers=pseudo)
            text = open(fname).read()
            if form == "rewrite":
                g.generate_cube(fname, arg, atcoords, atnums, pseudo_numbers=pseudo)
                if open(fname).read() != text:
                    rep.violation(f"{key}:second-write", "writing the same cube file a second time gives a different file")
            obs.append({"shape": shape, "natom": natom, "counts": [len(x.split()) for x in text.splitlines()[2:]]})
        except Exception as e:
            rep.violation(f"{key}:write", f"generate_cube raised {type(e).__name__}: {e}", {"shape": shape, "natom": natom, "form": form})
            continue
        if not all(np.array_equal(a, b) for a, b in zip(kept, (arg, origin, axes, atcoords, atnums, pseudo))):
            rep.violation(f"{key}:arguments-modified", "generate_cube modified an array handed in")
        try:
            g2, cube = UniformGrid.from_cube(fname, return_data=True)
            g3 = UniformGrid.from_cube(fname)
            checks = [("shape", g2.shape, shape, 0.0), ("origin", g2.origin, origin, 0.0), ("axes", g2.axes, axes, 0.0),
                      ("grid-only:origin", g3.origin, origin, 0.0), ("grid-only:axes", g3.axes, axes, 0.0), ("grid-only:shape", g3.shape, shape, 0.0),
                      ("atnums", cube["atnums"], atnums, 0.0), ("atcorenums", cube["atcorenums"], pseudo, 0.0),
                      ("atcoords", cube["atcoords"], np.asarray(atcoords, float).reshape(natom, 3), 0.0), ("data", cube["data"], want_data, dt),
                      ("points", g2.points, g.points, 0.0)]
            for what, got, want, rtol in checks:
                ok, _ = _cube_close(got, np.asarray(want, float), 0.0, rtol)
                if not ok:
                    rep.violation(f"{key}:bohr:{what}",
                                  f"form {form}: {what} read back {np.asarray(got).ravel()[:6].tolist()}..., written "
                                  f"{np.asarray(want).ravel()[:6].tolist()}... (rtol={rtol})", {"shape": shape, "natom": natom, "form": form, "file": fname})
        except Exception as e:
            rep.violation(f"{key}:bohr:read", f"from_cube raised {type(e).__name__}: {e}", {"file": fname})
    return n


def _family_cube(rep: Report, tier: str, wd: Path):
    from grid.cubic import UniformGrid
    consts = {"MaxN": 40 if tier == "quick" else 130}
    _obs_module(wd, "Obs_cube", "CubeObs", None)
    emitted, _ = _emit("MC_CubicCube", wd, consts, "cases_cube.json")
    factor = float(evaluate(emitted["angstrom_to_bohr"], {}, "mp"))
    rng = np.random.default_rng(rep.seed)
    obs, n = [], 0
    files = wd / "cube"
    files.mkdir(exist_ok=True)
    for ci, c in enumerate(emitted["cases"], 1):
        shape, natom = c["shape"], c["natom"]
        npts = int(np.prod(shape))
        for printable in (True, False):
            kind = "printable" if printable else "arbitrary"
            key = f"cube:shape={'x'.join(map(str, shape))}:natom={natom}:{kind}"
            n += 1
            rep.evaluated(1, ("cube", npts % 6, kind))
            origin = rng.uniform(-5, 5, 3)
            axes = np.diag(rng.uniform(0.1, 0.9, 3)) + rng.uniform(-0.05, 0.05, (3, 3))
            atcoords = rng.uniform(-4, 4, (natom, 3))
            atnums = rng.integers(1, 30, natom)
            pseudo = (atnums - rng.integers(0, 2, natom) * 0.5).astype(float) if ci % 2 else None
            mant = rng.integers(100000, 1000000, npts) * rng.choice([-1, 1], npts)
            expo = rng.integers(-120, 121, npts) if ci % 3 == 0 else rng.integers(-6, 7, npts)
            if printable:
                origin, axes, atcoords = (np.round(a, 6) for a in (origin, axes, atcoords))
                data = np.array([float(f"{int(m)}E{int(e) - 5}") for m, e in zip(mant, expo)])
            else:
                data = mant * (10.0 ** (expo - 5.0)) * rng.uniform(0.999, 1.001, npts)
            data[0] = 0.0
            fname = str(files / f"case{ci}_{kind}.cube")
            try:
                g = UniformGrid(origin, axes, np.array(shape, int))
                g.generate_cube(fname, data, atcoords, atnums, pseudo_numbers=pseudo)
                with open(fname) as f:
                    lines = f.read().splitlines()
                obs.append({"shape": shape, "natom": natom, "counts": [len(x.split()) for x in lines[2:]]})
            except Exception as e:
                rep.violation(f"{key}:write", f"generate_cube raised {type(e).__name__}: {e}", {"shape": shape, "natom": natom})
                continue
            want_pseudo = atnums.astype(float) if pseudo is None else pseudo
            gt, dt = (0.0, 0.0) if printable else (GEOM_ATOL, DATA_RTOL)

            def printed(a):     # the numbers as they stand in the file (six decimals)
                a = np.asarray(a, float)
                return np.array([float(f"{v:.6f}") for v in a.ravel()]).reshape(a.shape)

            def compare(tag, g2, cube, scale):
                checks = [("shape", np.asarray(g2.shape), np.asarray(shape), 0.0, 0.0)]
                if scale == 1.0:
                    checks += [("origin", g2.origin, origin, gt, 0.0), ("axes", g2.axes, axes, gt, 0.0)]
                else:   # printed numbers times the factor of the specification
                    checks += [("origin", g2.origin, printed(origin) * scale, 0.0, UNIT_RTOL),
                               ("axes", g2.axes, printed(axes) * scale, 0.0, UNIT_RTOL)]
                if cube is not None:
                    checks += [("atnums", cube["atnums"], atnums, 0.0, 0.0),
                               ("atcorenums", cube["atcorenums"], want_pseudo, gt, 0.0),
                               ("data", cube["data"], data, 0.0, dt)]
                    checks += [("atcoords", cube["atcoords"], atcoords, gt, 0.0)] if scale == 1.0 else \
                              [("atcoords", cube["atcoords"], printed(atcoords) * scale, 0.0, UNIT_RTOL)]
                for what, got, want, atol, rtol in checks:
                    ok, worst = _cube_close(got, want, atol, rtol)
                    if not ok:
                        rep.violation(f"{key}:{tag}:{what}",
                                      f"{tag}: {what} read back {np.asarray(got).ravel()[:6].tolist()}..., written "
                                      f"{np.asarray(want).ravel()[:6].tolist()}... (tolerance atol={atol} rtol={rtol})",
                                      {"shape": shape, "natom": natom, "kind": kind, "file": fname})

            try:
                g2, cube = UniformGrid.from_cube(fname, return_data=True)
                compare("bohr", g2, cube, 1.0)
                compare("bohr:grid-only", UniformGrid.from_cube(fname), None, 1.0)
                if not printable:
                    ok, _ = _cube_close(g2.points, g.points, 5 * GEOM_ATOL * max(shape), 0.0)
                    if not ok:
                        rep.violation(f"{key}:bohr:points", "points of the grid read back differ from the written grid")
            except Exception as e:
                rep.violation(f"{key}:bohr:read", f"from_cube raised {type(e).__name__}: {e}", {"file": fname})
            # angstrom convention: the same numbers announced as angstrom by a negative first point count
            for variant, which in (("n1", (3,)), ("all", (3, 4, 5))):
                try:
                    l2 = list(lines)
                    for li in which:
                        tok = l2[li].split()
                        l2[li] = f"{-int(tok[0]):5d} " + " ".join(tok[1:])
                    f2 = fname.replace(".cube", f"_ang_{variant}.cube")
                    with open(f2, "w") as f:
                        f.write("\n".join(l2) + "\n")
                    import contextlib
                    import io
                    with contextlib.redirect_stdout(io.StringIO()):
                        g3, cube3 = UniformGrid.from_cube(f2, return_data=True)
                        g4 = UniformGrid.from_cube(f2)
                    compare(f"angstrom-{variant}", g3, cube3, factor)
                    compare(f"angstrom-{variant}:grid-only", g4, None, factor)
                    n += 1
                except Exception as e:
                    rep.violation(f"{key}:angstrom-{variant}:read", f"from_cube raised {type(e).__name__}: {e}", {"file": fname})
    n += _cube_extra(rep, emitted["extra"], files, obs)
    rep.sample({"family": "cube", "case": emitted["cases"][4], "angstrom_to_bohr": factor, "observed_tokens_per_line_tail": obs[-1]["counts"][-3:]})
    with open(wd / "obs_cube.json", "w") as f:
        json.dump(obs, f)
    _obs_module(wd, "Obs_cube", "CubeObs", "obs_cube.json")
    cfg = _cfg(wd, "MC_CubicCube.cfg", {**consts, "Emit": False},
               ["ReadOfWriteIsIdentity", "WriterLayout", "ReaderIgnoresChunking", "JudgeFileLayout"])
    res = tlc.run_tlc("MC_CubicCube", cfg, wd, workers=4, timeout=900).require_ok("MC_CubicCube")
    rep.tlc(res, "MC_CubicCube")
    _model_violation(rep, res, "cube")
    for t in _tagged(res.stdout, "MISMATCH"):
        _, r, clause, want, got = t
        o = obs[r - 1]
        rep.violation(f"cube:shape={'x'.join(map(str, o['shape']))}:natom={o['natom']}:{clause}",
                      f"cube file for shape {o['shape']} with {o['natom']} atoms: tokens per line {got}, specification {want}",
                      {"shape": o["shape"], "natom": o["natom"], "spec": want, "observed": got})
    return n


# --------------------------------------------------------------------------------------------
# family 6: interpolation

EPS = 2.220446049250313e-16
INTERP_K = 2e-9 / EPS       # |err| <= INTERP_K * eps * scale / h^nu ; measured constant: see module docstring
LINEAR_RTOL = 1e-12


def _build_grid(nodes, uniform):
    from grid.basegrid import OneDGrid
    from grid.cubic import Tensor1DGrids, UniformGrid
    if uniform is not None:
        origin = np.array([float(Fraction(*q)) for q in uniform["origin"]])
        step = np.array([float(Fraction(*q)) for q in uniform["step"]])
        return UniformGrid(origin, np.diag(step), np.array(uniform["shape"], int))
    oned = [OneDGrid(np.array([float(Fraction(*q)) for q in ax]), np.ones(len(ax))) for ax in nodes]
    return Tensor1DGrids(*oned)


def _tree_on_points(tree, pts, mode="float"):
    return np.array([float(evaluate(tree, {"x": p[0], "y": p[1], "z": p[2]}, mode)) for p in pts])


def _family_interp(rep: Report, tier: str, wd: Path):
    consts = {"Seed": rep.seed, "NRandom": 6 if tier == "quick" else 40, "NQuery": 3 if tier == "quick" else 4}
    cfg = _cfg(wd, "MC_CubicInterp.cfg", consts, ["DerivedPartialIsCalculus", "FullDegreePresent"])
    res = tlc.run_tlc("MC_CubicInterp", cfg, wd, workers=WORKERS, timeout=1500).require_ok("MC_CubicInterp")
    rep.tlc(res, "MC_CubicInterp")
    _model_violation(rep, res, "interpolation")
    with open(wd / "cases_interp.json") as f:
        cases = json.load(f)
    n = 0
    ngrid = len(cases["nodes"])
    for gi in range(ngrid):
        nodes = cases["nodes"][gi]
        uniform = cases["uniform"][gi] if gi < len(cases["uniform"]) else None
        gname = f"uniform{uniform['shape']}" if uniform else "tensor" + str([len(a) for a in nodes])
        try:
            g = _build_grid(nodes, uniform)
        except Exception as e:
            rep.violation(f"interp:{gname}:construct", f"grid construction raised {type(e).__name__}: {e}")
            continue
        fnodes = [[Fraction(*q) for q in ax] for ax in nodes]
        box = [max(abs(float(ax[0])), abs(float(ax[-1]))) for ax in fnodes]
        hmin = [min(float(b - a) for a, b in zip(ax, ax[1:])) for ax in fnodes]
        queries = [[Fraction(*q) for q in pt] for pt in cases["queries"][gi]]
        qf = np.array([[float(v) for v in pt] for pt in queries])
        gpts = np.asarray(g.points, float)

        def scale_of(terms):
            return sum(abs(t[3]) * box[0] ** t[0] * box[1] ** t[1] * box[2] ** t[2] for t in terms) or 1.0

        # ---- cubic, all derivative orders of total order <= 3
        for pi, poly in enumerate(cases["cubic"]):
            vals = _tree_on_points(poly["partials"][0]["tree"], gpts)
            scale = scale_of(poly["terms"])
            for part in poly["partials"]:
                nu = part["nu"]
                want = np.array([float(evaluate(part["tree"], dict(zip("xyz", pt)), "fraction")) for pt in queries])
                key = f"interp:cubic:{gname}:poly={poly['terms'] if len(poly['terms']) <= 8 else 'dense'}:nu={nu}"
                n += 1
                rep.evaluated(1, ("interp", "cubic", gi, tuple(nu)))
                try:
                    got = np.asarray(g.interpolate(qf, vals, nu_x=nu[0], nu_y=nu[1], nu_z=nu[2], method="cubic"), float).ravel()
                    if got.shape != want.shape:
                        raise ValueError(f"result has shape {got.shape} for {len(qf)} points")
                except Exception as e:
                    rep.violation(key + ":raises", f"interpolate(method='cubic', nu={nu}) on {gname} raised {type(e).__name__}: {e}",
                                  {"grid": gname, "terms": poly["terms"], "nu": nu})
                    continue
                hh = hmin[0] ** nu[0] * hmin[1] ** nu[1] * hmin[2] ** nu[2]
                unit = EPS * scale / hh
                err = float(np.max(np.abs(got - want)))
                _stat("interp_cubic_err_over_eps_scale_hnu", err / unit)
                if not err <= INTERP_K * unit:
                    i = int(np.argmax(np.abs(got - want)))
                    rep.violation(key, f"cubic interpolation on {gname} of p = sum c x^i y^j z^k, terms <<i,j,k,c>> = {poly['terms'][:8]}, "
                                       f"derivative orders {nu}, at {qf[i].tolist()}: specification {want[i]!r}, implementation {got[i]!r} "
                                       f"(tolerance {INTERP_K * unit:.3g})",
                                  {"grid": gname, "nodes": nodes, "terms": poly["terms"], "nu": nu, "point": [str(v) for v in queries[i]],
                                   "spec": want[i], "observed": got[i]})
        # ---- linear: trilinear functions
        for poly in cases["linear"]:
            vals = _tree_on_points(poly["tree"], gpts)
            want = np.array([float(evaluate(poly["tree"], dict(zip("xyz", pt)), "fraction")) for pt in queries])
            key = f"interp:linear:{gname}:poly={poly['terms']}"
            n += 1
            rep.evaluated(1, ("interp", "linear", gi))
            try:
                got = np.asarray(g.interpolate(qf, vals, method="linear"), float).ravel()
                err = float(np.max(np.abs(got - want))) / scale_of(poly["terms"])
                _stat("interp_linear_err_over_scale", err)
                if not err <= LINEAR_RTOL:
                    rep.violation(key, f"linear interpolation on {gname} of the trilinear function with terms {poly['terms']}: "
                                       f"specification {want.tolist()}, implementation {got.tolist()}",
                                  {"grid": gname, "terms": poly["terms"], "points": qf.tolist()})
            except Exception as e:
                rep.violation(key + ":raises", f"interpolate(method='linear') on {gname} raised {type(e).__name__}: {e}")
        # ---- logarithmic variant on f = exp(q), single-variable derivatives
        for poly in cases["logv"]:
            vals = _tree_on_points(poly["partials"][0]["tree"], gpts)
            fmag = math.exp(scale_of(poly["terms"]))
            for part in poly["partials"]:
                nu = part["nu"]
                want = np.array([float(evaluate(part["tree"], dict(zip("xyz", pt)), "mp")) for pt in queries])
                key = f"interp:log:{gname}:exponent={poly['terms']}:nu={nu}"
                n += 1
                rep.evaluated(1, ("interp", "log", gi, tuple(nu)))
                try:
                    got = np.array([np.asarray(g.interpolate(qf[i:i + 1], vals, use_log=True, nu_x=nu[0], nu_y=nu[1], nu_z=nu[2]),
                                               float).ravel()[0] for i in range(len(qf))])
                except Exception as e:
                    rep.violation(key + ":raises", f"interpolate(use_log=True, nu={nu}) on {gname} raised {type(e).__name__}: {e}",
                                  {"grid": gname, "terms": poly["terms"], "nu": nu})
                    continue
                hh = hmin[0] ** nu[0] * hmin[1] ** nu[1] * hmin[2] ** nu[2]
                unit = EPS * fmag / hh
                err = float(np.max(np.abs(got - want)))
                _stat("interp_log_err_over_eps_fmag_hnu", err / unit)
                if not err <= INTERP_K * unit:
                    i = int(np.argmax(np.abs(got - want)))
                    rep.violation(key, f"log-variant interpolation on {gname} of f = exp(q), q terms {poly['terms']}, derivative orders {nu}, "
                                       f"at {qf[i].tolist()}: specification {want[i]!r}, implementation {got[i]!r} (tolerance {INTERP_K * unit:.3g})",
                                  {"grid": gname, "terms": poly["terms"], "nu": nu, "point": [str(v) for v in queries[i]]})
        n += _interp_call_forms(rep, g, gname, gi, cases, qf, gpts, box, hmin)
    n += _interp_extra(rep, wd)
    rep.sample({"family": "interpolation", "grid_nodes_x": cases["nodes"][0][0], "query": cases["queries"][0][0],
                "terms": cases["cubic"][2]["terms"], "nu": cases["cubic"][2]["partials"][7]["nu"]})
    return n


def _interp_call_forms(rep, g, gname, gi, cases, qf, gpts, box, hmin):
    """Relations between call forms on one grid (harness-only; a model adds nothing): one query point
    vs several at once, the logarithmic variant for several points at once, a repeated call, and the
    arrays handed in stay untouched.  Tolerance: both sides satisfy the reproduction bound, hence
    they differ by at most twice that bound."""
    poly = cases["cubic"][2 + gi % 2]
    scale = sum(abs(t[3]) * box[0] ** t[0] * box[1] ** t[1] * box[2] ** t[2] for t in poly["terms"]) or 1.0
    vals = _tree_on_points(poly["partials"][0]["tree"], gpts)
    n = 0
    for nu in ([0, 0, 0], [1, 0, 0], [0, 1, 1], [0, 0, 2]):
        key = f"interp:cubic:{gname}:call-form:nu={nu}"
        tol = 2 * INTERP_K * EPS * scale / (hmin[0] ** nu[0] * hmin[1] ** nu[1] * hmin[2] ** nu[2])
        try:
            v0, q0 = vals.copy(), qf.copy()
            many = np.asarray(g.interpolate(qf, vals, nu_x=nu[0], nu_y=nu[1], nu_z=nu[2]), float).ravel()
            again = np.asarray(g.interpolate(qf, vals, nu_x=nu[0], nu_y=nu[1], nu_z=nu[2]), float).ravel()
            single = np.array([np.asarray(g.interpolate(qf[i:i + 1], vals, nu_x=nu[0], nu_y=nu[1], nu_z=nu[2]), float).ravel()[0]
                               for i in range(len(qf))])
            rev = np.asarray(g.interpolate(qf[::-1], vals, nu_x=nu[0], nu_y=nu[1], nu_z=nu[2]), float).ravel()[::-1]
            n += 4
            rep.evaluated(4, ("interp", "call-form", gi, tuple(nu)))
            if not (np.array_equal(v0, vals) and np.array_equal(q0, qf)):
                rep.violation(key + ":arguments-modified", f"interpolate(nu={nu}) on {gname} modified the arrays handed in")
            if not np.array_equal(many, again):
                rep.violation(key + ":repeat", f"interpolate(nu={nu}) on {gname}: the same call repeated returns {again.tolist()} after {many.tolist()}")
            for nm, other in (("single-point", single), ("reversed-points", rev)):
                if other.shape != many.shape or not np.all(np.abs(other - many) <= tol):
                    rep.violation(key + ":" + nm, f"interpolate(nu={nu}) on {gname}: {nm} calls give {other.tolist()}, "
                                                  f"all points at once {many.tolist()} (tolerance {tol:.3g})",
                                  {"grid": gname, "terms": poly["terms"], "nu": nu, "points": qf.tolist()})
        except Exception as e:
            rep.violation(key + ":raises", f"interpolate(nu={nu}) on {gname} raised {type(e).__name__}: {e}")
    # logarithmic variant: all points at once = point by point (the main loop calls it point by point)
    lpoly = cases["logv"][gi % len(cases["logv"])]
    lvals = _tree_on_points(lpoly["partials"][0]["tree"], gpts)
    fmag = math.exp(sum(abs(t[3]) * box[0] ** t[0] * box[1] ** t[1] * box[2] ** t[2] for t in lpoly["terms"]) or 1.0)
    for nu in ([0, 0, 0], [2, 0, 0], [0, 1, 0], [0, 0, 3]):
        key = f"interp:log:{gname}:call-form:nu={nu}"
        tol = 2 * INTERP_K * EPS * fmag / (hmin[0] ** nu[0] * hmin[1] ** nu[1] * hmin[2] ** nu[2])
        try:
            v0 = lvals.copy()
            many = np.asarray(g.interpolate(qf, lvals, use_log=True, nu_x=nu[0], nu_y=nu[1], nu_z=nu[2]), float).ravel()
            single = np.array([np.asarray(g.interpolate(qf[i:i + 1], lvals, use_log=True, nu_x=nu[0], nu_y=nu[1], nu_z=nu[2]),
                                          float).ravel()[0] for i in range(len(qf))])
            n += 2
            rep.evaluated(2, ("interp", "log-call-form", gi, tuple(nu)))
            if not np.array_equal(v0, lvals):
                rep.violation(key + ":arguments-modified", f"interpolate(use_log=True, nu={nu}) on {gname} modified the values handed in")
            if single.shape != many.shape or not np.all(np.abs(single - many) <= tol):
                rep.violation(key + ":single-point", f"interpolate(use_log=True, nu={nu}) on {gname}: point by point {single.tolist()}, "
                                                     f"all points at once {many.tolist()} (tolerance {tol:.3g})",
                              {"grid": gname, "terms": lpoly["terms"], "nu": nu, "points": qf.tolist()})
        except Exception as e:
            rep.violation(key + ":raises", f"interpolate(use_log=True, nu={nu}) on {gname} raised {type(e).__name__}: {e}")
    return n


def _interp_extra(rep, wd):
    """Grids with negative steps / descending nodes (must reproduce) and non-diagonal axes (must
    reproduce or reject): cases_interp_extra.json of MC_CubicInterp."""
    from grid.basegrid import OneDGrid
    from grid.cubic import Tensor1DGrids, UniformGrid
    with open(wd / "cases_interp_extra.json") as f:
        ex = json.load(f)
    fq = lambda q: float(Fraction(*q))
    grids = []
    for c in ex["uniform"]:
        axes = np.array([[fq(v) for v in row] for row in c["axes"]])
        grids.append((f"uniform-{c['name']}{c['shape']}", c,
                      lambda c=c, axes=axes: UniformGrid(np.array([fq(v) for v in c["origin"]]), axes, np.array(c["shape"], int)),
                      [float(np.min(np.abs(axes[axes != 0])))] * 3))
    for c in ex["tensor"]:
        nodes = [[fq(v) for v in ax] for ax in c["nodes"]]
        grids.append((f"tensor-{c['name']}{[len(a) for a in nodes]}", c,
                      lambda nodes=nodes: Tensor1DGrids(*[OneDGrid(np.array(a), np.ones(len(a))) for a in nodes]),
                      [float(np.min(np.abs(np.diff(a)))) for a in nodes]))
    n = 0
    for gname, c, build, hmin in grids:
        try:
            g = build()
        except Exception as e:
            rep.violation(f"interp:{gname}:construct", f"grid construction raised {type(e).__name__}: {e}")
            continue
        gpts = np.asarray(g.points, float)
        box = [float(np.max(np.abs(gpts[:, d]))) for d in range(3)]
        queries = [[Fraction(*q) for q in pt] for pt in c["queries"]]
        qf = np.array([[float(v) for v in pt] for pt in queries])
        jobs = [("cubic", poly, part["nu"], part["tree"]) for poly in ex["polys"]["cubic"] for part in poly["partials"]]
        jobs += [("linear", poly, [0, 0, 0], poly["tree"]) for poly in ex["polys"]["linear"]]
        for method, poly, nu, tree in jobs:
            ptree = poly["partials"][0]["tree"] if method == "cubic" else poly["tree"]
            vals = _tree_on_points(ptree, gpts)
            scale = sum(abs(t[3]) * box[0] ** t[0] * box[1] ** t[1] * box[2] ** t[2] for t in poly["terms"]) or 1.0
            want = np.array([float(evaluate(tree, dict(zip("xyz", pt)), "fraction")) for pt in queries])
            key = f"interp:{method}:{gname}:poly={poly['terms'] if len(poly['terms']) <= 8 else 'dense'}:nu={nu}"
            n += 1
            rep.evaluated(1, ("interp-extra", method, gname, tuple(nu)))
            info = {"grid": gname, "case": {k: v for k, v in c.items() if k != "queries"}, "terms": poly["terms"], "nu": nu,
                    "points": qf.tolist()}
            try:
                got = np.asarray(g.interpolate(qf, vals, nu_x=nu[0], nu_y=nu[1], nu_z=nu[2], method=method), float).ravel()
                if got.shape != want.shape:
                    raise ValueError(f"result has shape {got.shape} for {len(qf)} points")
            except Exception as e:
                if c["must"]:
                    rep.violation(key + ":raises", f"interpolate(method={method!r}, nu={nu}) on the rectilinear grid {gname} raised "
                                                   f"{type(e).__name__}: {e}", info)
                else:
                    _stat("interp_nondiagonal_rejected", 1.0)
                continue
            tol = (INTERP_K * EPS * scale / (hmin[0] ** nu[0] * hmin[1] ** nu[1] * hmin[2] ** nu[2])) if method == "cubic" \
                else LINEAR_RTOL * scale
            err = float(np.max(np.abs(got - want)))
            if c["must"]:
                _stat(f"interp_extra_{method}_err_over_tol", err / tol)
            if not err <= tol:
                i = int(np.argmax(np.abs(got - want)))
                rep.violation(key, f"{method} interpolation on {gname} of p with terms <<i,j,k,c>> = {poly['terms'][:8]}, derivative orders {nu}, "
                                   f"at {qf[i].tolist()}: specification {want[i]!r}, implementation {got[i]!r} (tolerance {tol:.3g})"
                                   + ("" if c["must"] else "; the axes of this grid are not diagonal: the call must reproduce the "
                                      "polynomial or be rejected, not return a different number"), info)
    return n


# --------------------------------------------------------------------------------------------

def run(tier: str) -> int:
    import time
    rep = Report(PROP, tier, "model_checking")
    wd = tlc.scratch(f"{PROP}-{tier}")
    STATS.clear()
    n, walls = 0, {}
    for name, fam in (("layout", _family_layout), ("weights", _family_weights), ("from_molecule", _family_box),
                      ("closest_point", _family_closest), ("cube", _family_cube), ("interpolation", _family_interp)):
        t0 = time.time()
        k = fam(rep, tier, wd)
        walls[name] = round(time.time() - t0, 1)
        rep.set(f"cases_{name}", k)
        n += k
    rep.set("family_wall_s", walls)
    rep.set("traces_validated_against_impl", n)
    rep.set("exhaustive", True)
    rep.set("rule", "one case = one grid / call / file emitted by the specification and replayed into grid.cubic; "
                    "distinct = distinct (family, shape | scheme | molecule class | grid | residue mod 6 | derivative order)")
    rep.set("measured_max_errors", {k: float(f"{v:.3g}") for k, v in sorted(STATS.items())})
    rep.assume("NumPy semantics of meshgrid/swapaxes/reshape/kron are transcribed in Cubic.tla; the implementation is bound to the "
               "declarative layout by the recorded observations, not by that transcription")
    rep.assume("real-valued clauses (weights, box origin, interpolation, cube numbers) are compared by the harness with values "
               "derived by the specification (exact rationals / expression trees); TLC judges all integer observables")
    return rep.finish()


# --------------------------------------------------------------------------------------------
# sensitivity: textual mutants of grid/cubic.py, loaded in-process (never written to /repo)

MUTANTS = [
    # (name, family, old text, new text)
    ("i2c-stride-swap", "layout", "n_1d, n_2d = self.shape[2], self.shape[1] * self.shape[2]", "n_1d, n_2d = self.shape[1], self.shape[1] * self.shape[2]"),
    ("c2i-stride-off-by-one", "layout", "strides[i] = strides[i + 1] * self.shape[i + 1]", "strides[i] = strides[i + 1] * self.shape[i]"),
    ("uniform-2d-reshape-C", "layout", 'coords = coords.reshape(2, -1, order="F")', "coords = coords.reshape(2, -1)"),
    ("uniform-3d-no-swapaxes", "layout", "coords = np.swapaxes(coords, 1, 2)", "coords = coords"),
    ("uniform-axes-transposed", "layout", "points = coords.T.dot(self._axes) + origin", "points = coords.T.dot(self._axes.T) + origin"),
    ("tensor-kron-order", "layout", "weights = np.kron(np.kron(oned_x.weights, oned_y.weights), oned_z.weights)",
     "weights = np.kron(np.kron(oned_z.weights, oned_y.weights), oned_x.weights)"),
    ("tensor-meshgrid-xy", "layout", 'oned_z.points,\n                        indexing="ij",', 'oned_z.points,\n                        indexing="xy",'),
    ("along-axes-y-index", "layout", "coords_y = [self.coordinates_to_index((0, j, 0)) for j in range(self.shape[1])]",
     "coords_y = [self.coordinates_to_index((0, 0, j)) for j in range(self.shape[1])]"),
    ("trapezoid-no-plus-one", "weights", "numpnt = np.prod(shape + 1.0)\n            weights = np.full", "numpnt = np.prod(shape + 0.0)\n            weights = np.full"),
    ("alternative-factor", "weights", "factor = np.prod((shape - 1) / shape)", "factor = np.prod(shape / (shape + 1))"),
    ("fourier1-sine-argument", "weights", "sin_dir = np.sin(grid_dir_2d * np.pi / (shape[index] + 1.0))", "sin_dir = np.sin(grid_dir_2d * np.pi / (shape[index] + 0.0))"),
    ("volume-2d-no-abs", "weights", "return np.abs(volume)", "return volume"),
    ("box-floor", "from_molecule", "shape = np.ceil(shape)", "shape = np.floor(shape)"),
    ("box-single-extension", "from_molecule", "+ 2.0 * extension) / spacing", "+ 1.0 * extension) / spacing"),
    ("box-origin-shape-minus-one", "from_molecule", "origin = com - np.dot((0.5 * shape), axes)", "origin = com - np.dot((0.5 * (shape - 1)), axes)"),
    ("closest-floor", "closest_point", "coord = np.rint(coord)", "coord = np.floor(coord)"),
    ("closest-origin-ceil", "closest_point", "coord = np.floor(coord)", "coord = np.ceil(coord)"),
    ("cube-five-per-line", "cube", "num_chunks = 6", "num_chunks = 5"),
    ("cube-angstrom-origin-not-scaled", "cube", "origin *= ANGSTROM_TO_BOHR", "origin *= 1.0"),
    ("cube-angstrom-atoms-not-scaled", "cube", "coordinates *= ANGSTROM_TO_BOHR", "coordinates *= 1.0"),
    ("cube-angstrom-inverse-factor", "cube", "axes *= ANGSTROM_TO_BOHR", "axes /= ANGSTROM_TO_BOHR"),
    ("cube-data-precision", "cube", '" {:12.5E}"', '" {:12.4E}"'),
    ("cube-pseudo-numbers-dropped", "cube", "for i, q, (x, y, z) in zip(atnums, pseudo_numbers, atcoords):", "for i, q, (x, y, z) in zip(atnums, atnums.astype(float), atcoords):"),
    ("interp-nu_y-ignored", "interpolation", "            )(y, nu_y)", "            )(y, 0)"),
    ("interp-z-slice-shifted", "interpolation", "values[small_index:large_index],", "values[small_index + 1:large_index + 1],"),
    ("interp-x-nodes-stride", "interpolation", "self.points[np.arange(1, self.shape[0] - 2) * self.shape[1] * self.shape[2], 0],",
     "self.points[np.arange(1, self.shape[0] - 2) * self.shape[2] * self.shape[2], 0],"),
    ("interp-bell-order", "interpolation", "bell(deriv_var, i, sympy_symbols).evalf(subs=symbol_values)\n                                    for i in range(1, deriv_var + 1)",
     "bell(deriv_var, i, sympy_symbols).evalf(subs=symbol_values)\n                                    for i in range(1, deriv_var)"),
    ("interp-log-second-derivative-sign", "interpolation", "return interpolated * np.array(bell_derivs)", "return interpolated * np.abs(np.array(bell_derivs))"),
    ("interp-linear-nearest", "interpolation", "interpolate = RegularGridInterpolator((x, y, z), values, method=method)",
     'interpolate = RegularGridInterpolator((x, y, z), values, method="nearest")'),
    # ---- mutants for the clauses added by the audit (argument forms, unsorted nodes, big shapes, routes, ...)
    ("along-axes-x-sorted", "layout", "            x = self.points[coords_x, 0]\n            return x, y, z",
     "            x = np.unique(self.points[:, 0])\n            return x, y, z"),
    ("c2i-strides-int16", "layout", "strides = np.empty(self.ndim, dtype=int)", "strides = np.empty(self.ndim, dtype=np.int16)"),
    ("uniform-axes-cast-to-int", "layout", "        self._axes = axes\n", "        self._axes = axes.astype(int).astype(float)\n"),
    ("i2c-python-int-only", "layout", "        if not index >= 0:\n", "        if not isinstance(index, int) or index < 0:\n"),
    ("tensor-nodes-sorted", "layout", "                        oned_x.points,\n                        oned_y.points,\n                        oned_z.points,",
     "                        np.sort(oned_x.points),\n                        oned_y.points,\n                        oned_z.points,"),
    ("volume-rounded", "weights", "return np.abs(volume)", "return np.abs(np.rint(volume))"),
    ("from-cube-drops-scheme", "weights", "            if not return_data:\n                return cls(origin, axes, shape, weight)",
     "            if not return_data:\n                return cls(origin, axes, shape)"),
    ("from-cube-data-drops-scheme", "weights", "return cls(origin, axes, shape, weight), cube_data", "return cls(origin, axes, shape), cube_data"),
    ("from-molecule-drops-scheme", "from_molecule", "        return cls(origin, axes, shape, weight)\n\n    @classmethod\n    def from_cube",
     "        return cls(origin, axes, shape)\n\n    @classmethod\n    def from_cube"),
    ("from-molecule-com-in-input-dtype", "from_molecule", "com = np.dot(atcorenums, atcoords) / totz",
     "com = (np.dot(atcorenums, atcoords) / totz).astype(atcoords.dtype)"),
    ("from-molecule-default-ignored", "from_molecule", "shape = (max_coordinate - min_coordinate + 2.0 * extension) / spacing",
     "shape = (max_coordinate - min_coordinate + 2.0 * min(extension, 4.0)) / spacing"),
    ("box-trapezoid-no-plus-one", "from_molecule", "numpnt = np.prod(shape + 1.0)\n            weights = np.full", "numpnt = np.prod(shape + 0.0)\n            weights = np.full"),
    ("closest-coord-in-point-dtype", "closest_point", "for i in range(self.ndim)])\n\n        if which",
     "for i in range(self.ndim)], dtype=np.asarray(point).dtype)\n\n        if which"),
    ("closest-point-list-rejected", "closest_point", "        step_sizes = np.diagonal(self.axes)\n",
     "        step_sizes = np.diagonal(self.axes)\n        point = point.astype(float)\n"),
    ("cube-append-mode", "cube", 'with open(fname, "w") as f:', 'with open(fname, "a") as f:'),
    ("cube-data-memory-order", "cube", "row_data = data.flat[i : i + num_chunks]", 'row_data = data.ravel(order="K")[i : i + num_chunks]'),
    ("cube-natom-at-least-one", "cube", 'f.write(f"{natom:5d} {x:11.6f} {y:11.6f} {z:11.6f}\\n")', 'f.write(f"{max(natom, 1):5d} {x:11.6f} {y:11.6f} {z:11.6f}\\n")'),
    ("interp-log-in-place", "interpolation", "            values = np.log(values)\n", "            values = np.log(values, out=values)\n"),
]

# Proposed repairs of the known findings found by the audit: with the repair loaded the clause must be
# quiet, without it the clause must report - this shows that the clause separates the two.
# (name, family, [(old, new), ...], key prefix of the clause)
_SORTED_SPLINE = (
    "def _sorted_spline(x, y):\n    x = np.asarray(x)\n    order = np.argsort(x)\n"
    "    return CubicSpline(x[order], np.asarray(y)[order])\n\n\nclass _HyperRectangleGrid(Grid):")
FIXES = [
    ("closest-point-clamped", "closest_point",
     [("coord = np.rint(coord)", "coord = np.clip(np.rint(coord), 0, np.asarray(self.shape) - 1)")],
     "closest_point:closest-outside:"),
    ("interp-descending-nodes-sorted", "interpolation",
     [("class _HyperRectangleGrid(Grid):", _SORTED_SPLINE),
      ("            val = CubicSpline(\n                self.points[small_index:large_index, 2],", "            val = _sorted_spline(\n                self.points[small_index:large_index, 2],"),
      ("            val = CubicSpline(\n                self.points[np.arange(1, self.shape[1] - 2) * self.shape[2], 1],",
       "            val = _sorted_spline(\n                self.points[np.arange(1, self.shape[1] - 2) * self.shape[2], 1],"),
      ("            val = CubicSpline(\n                self.points[np.arange(1, self.shape[0] - 2) * self.shape[1] * self.shape[2], 0],",
       "            val = _sorted_spline(\n                self.points[np.arange(1, self.shape[0] - 2) * self.shape[1] * self.shape[2], 0],")],
     "interp:cubic:*-[nd]e[gs]*:raises"),
    ("interp-nondiagonal-rejected", "interpolation",
     [("        if use_log:\n            values = np.log(values)\n",
       "        _ax = getattr(self, \"axes\", None)\n        if _ax is not None and np.count_nonzero(_ax - np.diag(np.diagonal(_ax))) != 0:\n"
       "            raise ValueError(\"Interpolation only works when the 'axes' attribute is a diagonal matrix.\")\n"
       "        if use_log:\n            values = np.log(values)\n")],
     "interp:*:uniform-nondiagonal-skewed*"),
]


def _load_mutant(old, new=None):
    """Load grid/cubic.py with textual replacements as module grid._c13_mutant (never written to /repo).
    `old` is either one anchor (with `new`) or a list of (old, new) pairs."""
    import importlib.util
    import sys
    code = Path(os.environ.get("VERIF_REPO", "/repo") + "/src/grid/cubic.py").read_text()
    for o, nw in ([(old, new)] if new is not None else old):
        if code.count(o) < 1:
            raise tlc.MachineryError(f"mutant anchor not found: {o!r}")
        code = code.replace(o, nw)
    spec = importlib.util.spec_from_loader("grid._c13_mutant", loader=None)
    mod = importlib.util.module_from_spec(spec)
    mod.__package__ = "grid"
    mod.__file__ = "/verif/gen/C13-selftest/cubic_mutant.py"
    sys.modules["grid._c13_mutant"] = mod
    exec(compile(code, mod.__file__, "exec"), mod.__dict__)
    return mod


def _with_module(mod, fam, tier):
    """Run one family against the classes of `mod`; returns all violations (known ones included)."""
    import grid.cubic as real
    fams = {"layout": _family_layout, "weights": _family_weights, "from_molecule": _family_box,
            "closest_point": _family_closest, "cube": _family_cube, "interpolation": _family_interp}
    saved = {k: getattr(real, k) for k in ("UniformGrid", "Tensor1DGrids", "_HyperRectangleGrid")}
    for k in saved:
        setattr(real, k, getattr(mod, k))
    try:
        rep = Report(PROP, tier, "model_checking")
        wd = tlc.scratch(f"{PROP}-selftest")
        fams[fam](rep, tier, wd)
        return rep, list(rep.violations)
    finally:
        for k, v in saved.items():
            setattr(real, k, v)


def selftest(tier: str = "quick") -> int:
    """Each mutant must be reported as a violation by the family it belongs to; each proposed repair of
    a known finding must silence exactly the clause that reports the finding."""
    import fnmatch
    import grid.cubic as real
    only = os.environ.get("C13_MUTANTS")
    killed, missed = [], []
    for name, fam, old, new in MUTANTS:
        if only and name not in only.split(","):
            continue
        rep, viol = _with_module(_load_mutant(old, new), fam, tier)
        fresh = [v for v in viol if rep._match_known(v["key"]) is None]
        (killed if fresh else missed).append(name)
        print(f"mutant {name:36s} [{fam}] -> {'VIOLATION x%d, e.g. %s' % (len(fresh), fresh[0]['key'][:110]) if fresh else 'MISSED'}", flush=True)
    baseline = {}
    for name, fam, pairs, prefix in FIXES:
        if only and name not in only.split(","):
            continue
        if fam not in baseline:
            baseline[fam] = _with_module(real, fam, tier)[1]
        pat = prefix if any(ch in prefix for ch in "*?[") else prefix + "*"
        before = [v for v in baseline[fam] if fnmatch.fnmatch(v["key"], pat)]
        rep, viol = _with_module(_load_mutant(pairs), fam, tier)
        after = [v for v in viol if fnmatch.fnmatch(v["key"], pat)]
        fresh = [v for v in viol if rep._match_known(v["key"]) is None]
        ok = bool(before) and not after and not fresh
        (killed if ok else missed).append("fix:" + name)
        print(f"repair {name:36s} [{fam}] -> clause {pat}: {len(before)} report(s) as shipped, {len(after)} with the repair, "
              f"{len(fresh)} other fresh violation(s) -> {'SEPARATED' if ok else 'NOT SEPARATED'}"
              + (f" e.g. {(after + fresh)[0]['key'][:120]}" if (after or fresh) else ""), flush=True)
    print(f"selftest: {len(killed)} killed, {len(missed)} missed {missed}")
    return 0 if not missed else 1


def replay(path: str) -> int:
    """Re-run the family of a recorded violation with its seed; exit 1 if the same key is reported again."""
    with open(path) as f:
        v = json.load(f)
    os.environ["VERIF_SEED"] = str(v.get("seed", 0))
    tier = v.get("tier", "quick")
    fams = {"layout": _family_layout, "weights": _family_weights, "from_molecule": _family_box,
            "closest_point": _family_closest, "cube": _family_cube, "interp": _family_interp}
    key = v["key"]
    prefix = key.split(":")[1] if key.startswith("model:") else key.split(":")[0]
    prefix = {"box": "from_molecule", "closest": "closest_point", "interpolation": "interp"}.get(prefix, prefix)
    rep = Report(PROP, tier, "model_checking")
    wd = tlc.scratch(f"{PROP}-replay")
    for name, fam in fams.items():
        if name == prefix or prefix not in fams:
            fam(rep, tier, wd)
    again = [x for x in rep.violations if x["key"] == key]
    print(f"replay {key}: " + (f"reproduced: {again[0]['what'][:300]}" if again else "not reproduced"))
    return 1 if again else 0
