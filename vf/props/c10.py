"""C10 - local grids hold exactly the points inside the cutoff sphere, for any grid type;
selection by index returns the selected points of the same type.

Flow (DESIGN.md section 5, C10):
 1. TLC checks the state machine LocalGridSys exhaustively (all histories of Query / SetPoints /
    SetWeights / GetItem over small constants): QueryCorrect, InfIsWholeGrid, TreeFresh,
    ItemCorrect; the as-shipped variant (tree kept on reassignment) must be refuted and two
    witness runs show the interesting states are reached (non-vacuity).
 2. TLC enumerates every behaviour of length GenLen of the same machine (history variable);
    each is replayed on every grid class (Grid 1-3D, OneDGrid, LocalGrid, AngularGrid, AtomGrid,
    MolGrid, Tensor1DGrids, UniformGrid, PeriodicGrid with/without lattice) with the abstract
    alternatives concretised per class on integer-valued points; plus VERIF_SEED-random longer
    behaviours.
 3. Every step of every replay is logged (arguments and observation) and the recorded traces
    are validated by TLC against LocalGridTrace (the judge): each event must be explainable by
    the specification's action from the specification's current state.
"""
from __future__ import annotations

import json
import random
import warnings

import numpy as np

from .. import tlc
from ..evidence import Report

PROP = "C10"
INF = -1
NONEV = 1000000
HUGE = 2000000000
RVALS = [0, 1, 3, 9, 33, INF, HUGE]   # R = 2 r^2 (odd => no integer point on the sphere), Inf, and a finite radius beyond everything


# --------------------------------------------------------------------------------------------
# grid classes: factories returning a fresh object on integer-valued points

def _ipts(a):
    a = np.asarray(a, dtype=float)
    return a


class Case:
    """A concrete grid class with its alternatives."""

    def __init__(self, name, make, can_set_points, can_select, dim1=False, extra=None, can_query=True, inf_ok=True, half=False):
        self.name, self.make = name, make
        self.can_query, self.inf_ok = can_query, inf_ok
        # half: integer-dtype points queried about half-integer centres; the trace is written in DOUBLED coordinates
        # (points 2p, centres 2c, R = 2 (2r)^2), so that the specification still works on integers
        self.half = half
        self.can_set_points, self.can_select, self.dim1 = can_set_points, can_select, dim1
        self.extra = extra  # function(obj) -> comparable "domain or lattice"


def _classes():
    from grid.angular import AngularGrid
    from grid.atomgrid import AtomGrid
    from grid.basegrid import Grid, LocalGrid, OneDGrid
    from grid.becke import BeckeWeights
    from grid.cubic import Tensor1DGrids, UniformGrid
    from grid.molgrid import MolGrid
    from grid.periodicgrid import PeriodicGrid

    w5 = np.array([0.5, 1.25, 2.0, 3.5, 0.75])
    p1 = np.array([0.0, 1.0, 3.0, 6.0, 7.0])
    p2 = np.array([[0, 0], [1, 0], [0, 2], [2, 2], [5, 1]], dtype=float)
    p3 = np.array([[0, 0, 0], [1, 0, 0], [0, 1, 1], [2, 0, -1], [3, 3, 3]], dtype=float)

    def rg():
        return OneDGrid(np.array([1.0, 2.0]), np.array([0.3, 0.7]), (0, np.inf))

    def atom(center=(1.0, -2.0, 0.0)):
        return AtomGrid(rg(), degrees=[3], center=np.array(center))

    def mol():
        a1 = AtomGrid(rg(), degrees=[3], center=np.array([0.0, 0.0, 0.0]))
        a2 = AtomGrid(rg(), degrees=[3], center=np.array([0.0, 0.0, 3.0]))
        return MolGrid(np.array([1, 8]), [a1, a2], BeckeWeights(order=3), store=True)

    def od(pts, lo=-1.0, hi=60.0):
        return OneDGrid(np.array(pts, dtype=float), np.arange(1, len(pts) + 1) * 0.25, (lo, hi))

    cs = [
        Case("Grid1D", lambda: Grid(p1.copy(), w5.copy()), True, True, dim1=True),
        Case("Grid2D", lambda: Grid(p2.copy(), w5.copy()), True, True),
        Case("Grid3D", lambda: Grid(p3.copy(), w5.copy()), True, True),
        Case("Grid3D[int points, half-integer centres]", lambda: Grid(p3.astype(np.int64), w5.copy()), True, True, half=True),
        Case("Grid2D[int points, half-integer centres]", lambda: Grid(p2.astype(np.int32), w5.copy()), True, True, half=True),
        Case("OneDGrid[int points, half-integer centres]", lambda: OneDGrid(p1.astype(np.int64), w5.copy(), (-1, 60)), True, True, dim1=True,
             extra=lambda g: [float(g.domain[0]), float(g.domain[1])], half=True),
        Case("OneDGrid", lambda: OneDGrid(p1.copy(), w5.copy(), (-1.0, 60.0)), True, True, dim1=True,
             extra=lambda g: [float(g.domain[0]), float(g.domain[1])]),
        Case("LocalGrid", lambda: LocalGrid(p3.copy(), w5.copy(), np.zeros(3), np.arange(5)), True, False),
        Case("AngularGrid", lambda: AngularGrid(degree=3), True, False),
        Case("AtomGrid", atom, False, False),
        Case("MolGrid", mol, True, False),
        Case("Tensor1DGrids", lambda: Tensor1DGrids(od([0, 1, 3]), od([0, 2]), od([1, 2, 4])), True, False),
        Case("UniformGrid", lambda: UniformGrid(np.array([1.0, 0.0, -1.0]),
                                                np.array([[1.0, 0, 0], [1.0, 2.0, 0], [0, 1.0, 1.0]]),
                                                np.array([2, 3, 2]), weight="Rectangle"), True, False),
        Case("Tensor1DGrids2D", lambda: Tensor1DGrids(od([0, 1, 3]), od([0, 2, 5])), True, False),
        Case("UniformGrid2D", lambda: UniformGrid(np.array([1.0, -1.0]), np.array([[1.0, 0.0], [1.0, 2.0]]),
                                                  np.array([3, 2]), weight="Rectangle"), True, False),
        Case("PeriodicGrid0", lambda: PeriodicGrid(p3.copy(), w5.copy()), True, True,
             extra=lambda g: np.asarray(g.realvecs).tolist(), inf_ok=False),
        Case("PeriodicGrid1D0", lambda: PeriodicGrid(p1.copy(), w5.copy()), True, True, dim1=True,
             extra=lambda g: np.asarray(g.realvecs).tolist(), inf_ok=False),
        # with lattice vectors get_localgrid enumerates images (property C11): selection only
        Case("PeriodicGridLat", lambda: PeriodicGrid(p3.copy(), w5.copy(), np.array([[9.0, 0, 0], [0, 9.0, 1.0]])),
             False, True, extra=lambda g: np.asarray(g.realvecs).tolist(), can_query=False),
    ]
    return cs


# --------------------------------------------------------------------------------------------
# encoding of observations (integers only: TLC is the judge)

class Tokens:
    """Bit-exact float -> small integer token (weights are opaque to the specification)."""

    def __init__(self):
        self.t = {}

    def of(self, arr):
        out = []
        for v in np.asarray(arr, dtype=float).ravel().tolist():
            k = np.float64(v).tobytes()
            if k not in self.t:
                self.t[k] = len(self.t) + 1
            out.append(self.t[k])
        return out


def enc_points(arr, dim1):
    """Integer-valued points as sequences of integer tuples; anything else -> sentinel 777777."""
    a = np.asarray(arr, dtype=float)
    if dim1 and a.ndim == 1:
        a = a.reshape(-1, 1)
    if a.ndim == 1:
        a = a.reshape(1, -1)
    out = []
    for row in a.tolist():
        out.append([int(x) if (np.isfinite(x) and float(x).is_integer() and abs(x) < 1e6) else 777777 for x in row])
    return out


def enc_center(c, dim1):
    c = np.asarray(c, dtype=float)
    return enc_points(c.reshape(1, -1), False)[0] if not (dim1 and c.ndim == 0) else enc_points(np.array([[float(c)]]), False)[0]


def make_sels(n):
    """Selections, generic in the number of points n >= 4 (same shapes as MC_SSeq)."""
    S = lambda kind, i=0, a=0, b=0, st=1, arr=(): {"kind": kind, "i": i, "a": a, "b": b, "st": st, "arr": list(arr)}  # noqa: E731
    return [S("int", 0), S("int", -1), S("npint", n // 2), S("slice", a=1, b=3, st=NONEV),
            S("slice", a=NONEV, b=NONEV, st=2), S("slice", a=NONEV, b=NONEV, st=-1), S("slice", a=-3, b=n + 6, st=1),
            S("slice", a=-2, b=NONEV, st=NONEV), S("array", arr=[2, 0, 2]), S("array", arr=[-1, 1]),
            S("mask", arr=[1 if k % 3 == 0 else 0 for k in range(n)]), S("mask", arr=[1 if k % 3 else 0 for k in range(n)])]


def py_sel(sel):
    k = sel["kind"]
    if k == "int":
        return int(sel["i"])
    if k == "npint":
        return np.int64(sel["i"])
    if k == "slice":
        f = lambda v: None if v == NONEV else int(v)  # noqa: E731
        return slice(f(sel["a"]), f(sel["b"]), f(sel["st"]))
    if k == "array":
        return np.array(sel["arr"], dtype=int)
    return np.array(sel["arr"], dtype=bool)


class Driver:
    """Runs abstract actions on one concrete object and logs one event per action."""

    def __init__(self, case: Case, rng):
        self.case = case
        with warnings.catch_warnings():
            warnings.simplefilter("ignore")
            self.obj = case.make()
        self.tok = Tokens()
        pts0 = np.array(self.obj.points, dtype=float)
        wts0 = np.array(self.obj.weights, dtype=float)
        n = len(wts0)
        self.n = n
        perm = np.roll(np.arange(n), 1)
        dup = pts0.copy()
        dup[1] = dup[0]
        # the fourth alternative is far outside the bounding box of the others (a neighbour search structure built
        # for the old positions prunes every ball around the new ones); the third centre below sits on its corner
        self.palts = [pts0.copy(), pts0[::-1].copy(), dup, pts0[perm] + 40.0]
        self.walts = [wts0.copy(), wts0[::-1].copy() * 2.0 + 1.0]
        d1 = case.dim1
        P = pts0.reshape(n, -1)
        far = P.max(axis=0) + 40
        mid = np.round(P.mean(axis=0))
        cands = [P[0], mid, far, P[n // 2] + 1]
        self.centers = [c[0] if d1 else c for c in cands]
        self.sels = make_sels(n)
        self.k = 2 if case.half else 1
        self.events = [{"ev": "New", "cls": case.name, "pts": enc_points(self.k * pts0, d1), "wts": self.tok.of(wts0)}]

    def _blank(self, ev):
        # only the fields the trace specification reads for this kind of event
        if ev == "Query":
            return {"ev": ev, "c": [], "r": 0, "idx": [], "lp": [], "lw": [], "lc": [], "typ": "", "exc": ""}
        if ev == "GetItem":
            return {"ev": ev, "exc": "", "kind": "", "i": 0, "a": 0, "b": 0, "st": 1, "arr": [], "rp": [], "rw": [],
                    "sametype": True, "sameextra": True}
        if ev == "Reject":
            return {"ev": ev, "exc": "", "kind": "", "ptsafter": [], "wtsafter": []}
        return {"ev": ev, "exc": "", "pts": [], "wts": []}

    def query(self, ci, ri):
        c = self.centers[ci % len(self.centers)]
        R = RVALS[ri % len(RVALS)]
        form = len(self.events) % 4
        # radius and centre in the forms a caller may hold them ("all centres and radii (0, tiny, huge, inf)"): R = 0 is
        # also asked as a radius far below the spacing of the integer points, the radius beyond everything as 1e300,
        # other radii as Python float / numpy float64 / single precision (R odd keeps every lattice distance > 1 % away)
        if R == INF:
            radius = (np.inf, float("inf"), np.float64(np.inf), np.float32(np.inf))[form]
        elif R == 0:
            radius = (0.0, 0, 1e-12, 5e-324)[form]
        elif R == HUGE:
            radius = (1e300, float(np.sqrt(R / 2.0)), np.float64(1.7e308), 10 ** 15)[form]
        else:
            rad = np.sqrt(R / 2.0) / self.k
            radius = (float(rad), np.float64(rad), np.float32(rad), float(rad))[form]
        d1 = self.case.dim1
        if self.case.half:
            # half-integer centre, float forms only
            if d1:
                c = (float(c) + 0.5, np.float64(c) + 0.5, np.array(float(c) + 0.5), float(c) - 0.5)[(form + ci) % 4]
            else:
                cc = np.asarray(c, dtype=float) + 0.5
                c = (cc, [float(x) for x in cc], tuple(float(x) for x in cc), cc.astype(np.float32))[(form + ci) % 4]
        elif d1:
            c = (float(c), int(c), np.float64(c), np.array(float(c)))[(form + ci) % 4]
        else:
            cc = np.asarray(c, dtype=float)
            c = (cc, cc.astype(int), [float(x) for x in cc], tuple(int(x) for x in cc))[(form + ci) % 4]
        e = self._blank("Query")
        e["c"], e["r"] = enc_center(self.k * np.asarray(c, dtype=float), d1), R
        try:
            with warnings.catch_warnings():
                warnings.simplefilter("ignore")
                lg = self.obj.get_localgrid(c, radius)
            e["idx"] = [int(i) for i in np.asarray(lg.indices).tolist()]
            e["lp"] = enc_points(self.k * np.asarray(lg.points), d1) if len(lg.weights) else []
            e["lw"] = self.tok.of(lg.weights)
            e["lc"] = enc_center(self.k * np.asarray(lg.center, dtype=float), d1)
            e["typ"] = type(lg).__name__
            if len(e["lp"]) != len(e["idx"]) or len(e["lw"]) != len(e["idx"]):
                e["exc"] = "shape-mismatch"
        except Exception as ex:  # the property allows no failure here
            e["exc"] = type(ex).__name__
        self.events.append(e)

    def set_points(self, pi, inplace=False):
        e = self._blank("SetPoints")
        new = self.palts[pi % len(self.palts)].copy()
        if self.case.half:
            new = new.astype(np.asarray(self.obj.points).dtype)    # the grid stays an integer-dtype grid
        e["pts"] = enc_points(self.k * new, self.case.dim1)
        try:
            if inplace:
                # the other way callers move a grid: edit the array they were given, then assign it back
                # (the assignment is how the grid learns of the change)
                p = self.obj.points
                p[...] = new
                self.obj.points = p
            else:
                self.obj.points = new
        except Exception as ex:
            e["exc"] = type(ex).__name__
        self.events.append(e)

    def set_weights(self, wi):
        e = self._blank("SetWeights")
        new = self.walts[wi % len(self.walts)].copy()
        e["wts"] = self.tok.of(new)
        try:
            self.obj.weights = new
        except Exception as ex:
            e["exc"] = type(ex).__name__
        self.events.append(e)

    def get_item(self, si):
        sel = self.sels[si % len(self.sels)]
        e = self._blank("GetItem")
        e.update(sel)
        try:
            with warnings.catch_warnings():
                warnings.simplefilter("ignore")
                sub = self.obj[py_sel(sel)]
            e["rp"] = enc_points(self.k * np.asarray(sub.points), self.case.dim1) if len(sub.weights) else []
            e["rw"] = self.tok.of(sub.weights)
            e["sametype"] = type(sub) is type(self.obj)
            if self.case.extra is not None:
                e["sameextra"] = self.case.extra(sub) == self.case.extra(self.obj)
        except Exception as ex:
            e["exc"] = type(ex).__name__
        self.events.append(e)

    REJECTS = ["neg-radius", "nan-radius", "bad-center", "bad-points", "bad-weights"]

    def reject(self, ki):
        kind = self.REJECTS[ki % len(self.REJECTS)]
        if kind == "bad-points" and not self.case.can_set_points:
            return
        if kind in ("neg-radius", "nan-radius", "bad-center") and not self.case.can_query:
            return
        e = self._blank("Reject")
        e["kind"] = kind
        c = self.centers[0]
        try:
            with warnings.catch_warnings():
                warnings.simplefilter("ignore")
                if kind == "neg-radius":
                    self.obj.get_localgrid(c, -1.0)
                elif kind == "nan-radius":
                    self.obj.get_localgrid(c, float("nan"))
                elif kind == "bad-center":
                    self.obj.get_localgrid(np.zeros(7), 1.0)
                elif kind == "bad-points":
                    self.obj.points = np.asarray(self.obj.points)[:-1].copy()
                else:
                    self.obj.weights = np.asarray(self.obj.weights)[:-1].copy()
        except Exception as ex:
            e["exc"] = type(ex).__name__
        try:
            e["ptsafter"] = enc_points(self.k * np.asarray(self.obj.points), self.case.dim1)
            e["wtsafter"] = self.tok.of(self.obj.weights)
        except Exception as ex:
            e["exc"] = "state-unreadable:" + type(ex).__name__
        self.events.append(e)

    def run(self, beh):
        for act, a, b in beh:
            if act == "Q":
                # an infinite radius on a PeriodicGrid is property C11's business (known finding there)
                if self.case.can_query and (self.case.inf_ok or RVALS[(b - 1) % len(RVALS)] != INF):
                    self.query(a - 1, b - 1)
            elif act in ("SP", "SPI"):
                if self.case.can_set_points:
                    self.set_points(a - 1, inplace=(act == "SPI"))
            elif act == "SW":
                self.set_weights(a - 1)
            elif act == "GI":
                if self.case.can_select:
                    self.get_item(a - 1)
            elif act == "RJ":
                self.reject(a - 1)
        return self.events


# --------------------------------------------------------------------------------------------

def _model_runs(rep, wd):
    """Exhaustive model checking of the design + refutation of the as-shipped variant."""
    res = tlc.run_tlc("MC_LocalGrid", "MC_LocalGrid_Correct.cfg", wd, workers=8, coverage=True).require_ok("Correct")
    rep.tlc(res, "MC_LocalGrid_Correct")
    if res.status == "violation":
        rep.violation("model:design", f"the design model itself violates {res.violated}", tlc.last_state(res))
    for act in ("Query", "SetPoints", "SetWeights", "GetItem", "Reject"):
        if act in res.coverage and res.coverage[act][1] == 0:
            raise tlc.MachineryError(f"vacuity: action {act} never taken in MC_LocalGrid_Correct")
    r2 = tlc.run_tlc("MC_LocalGrid", "MC_LocalGrid_AsShipped.cfg", wd, workers=8).require_ok("AsShipped")
    rep.set("as_shipped_variant_refuted", r2.status == "violation")
    if r2.status != "violation":
        raise tlc.MachineryError("the as-shipped variant (stale tree) is not refuted: the model lost its teeth")
    for wcfg in ("MC_LocalGrid_Witness1.cfg", "MC_LocalGrid_Witness2.cfg"):
        r3 = tlc.run_tlc("MC_LocalGrid", wcfg, wd, workers=4).require_ok(wcfg)
        if r3.status != "violation":
            raise tlc.MachineryError(f"vacuity: witness {wcfg} not reachable")


def _behaviours(rep, wd, tier, rng):
    res = tlc.run_tlc("MC_LocalGridGen", "Gen_LocalGrid.cfg", wd, workers=8, timeout=900).require_ok("Gen")
    rep.tlc(res, "Gen_LocalGrid")
    if res.status == "violation":
        rep.violation("model:gen", f"generation model violates {res.violated}", tlc.last_state(res))
    behs = [b[1] for b in tlc.tagged(res.stdout, "BEH")]
    if len(behs) < 1000:
        raise tlc.MachineryError(f"behaviour generation produced only {len(behs)} behaviours")
    rep.set("tlc_behaviours_generated", len(behs))
    behs.sort()
    return behs


def _random_beh(rng, length):
    out = []
    for _ in range(length):
        x = rng.random()
        if x < 0.45:
            out.append(("Q", rng.randint(1, 4), rng.randint(1, 7)))
        elif x < 0.65:
            out.append((rng.choice(["SP", "SPI"]), rng.randint(1, 4), 0))
        elif x < 0.75:
            out.append(("SW", rng.randint(1, 2), 0))
        elif x < 0.85:
            out.append(("RJ", rng.randint(1, 5), 0))
        else:
            out.append(("GI", rng.randint(1, 12), 0))
    return out


def run(tier: str) -> int:
    rep = Report(PROP, tier, "model_checking")
    rng = random.Random(rep.seed)
    wd = tlc.scratch(f"{PROP}-{tier}")
    _model_runs(rep, wd)
    behs = _behaviours(rep, wd, tier, rng)
    cases = _classes()
    # quick: 9000 of the TLC behaviours on one class each (rotating); thorough: every behaviour on two classes
    traces, meta = [], []
    nper = 1 if tier == "quick" else 2
    sel = behs if tier == "thorough" else rng.sample(behs, 9000)
    for bi, beh in enumerate(sel):
        if bi % 2:   # every other behaviour moves the points by in-place edit + re-assignment of the same array
            beh = [("SPI", a, b) if act == "SP" else (act, a, b) for act, a, b in beh]
        for j in range(nper):
            case = cases[(bi + j) % len(cases)]
            ev = Driver(case, rng).run(beh)
            if len(ev) > 1:
                traces.append(ev)
                meta.append((case.name, beh))
    nrand = 600 if tier == "quick" else 6000
    for k in range(nrand):
        case = cases[k % len(cases)]
        beh = _random_beh(rng, rng.randint(4, 14))
        ev = Driver(case, rng).run(beh)
        traces.append(ev)
        meta.append((case.name, beh))
    for (cname, beh), ev in zip(meta, traces):
        rep.evaluated(len(ev) - 1, (cname, json.dumps(beh)))
    _validate(rep, wd, traces, meta)
    if tier == "thorough":
        # the repository's own tests that call get_localgrid, run under recording and judged by TLC
        from .. import record
        record.judge_suite(rep, wd, "query", ["src/grid/tests/test_grid.py", "src/grid/tests/test_molgrid.py"], "query")
    rep.set("classes", [c.name for c in cases])
    rep.set("rule", "one case = one recorded event (Query/SetPoints/SetWeights/GetItem) of a replayed behaviour on a concrete "
                    "grid class, judged by TLC (LocalGridTrace); distinct = distinct (class, behaviour)")
    rep.set("exhaustive", False)
    rep.assume("cKDTree.query_ball_point is exact for radii that are not attained by any lattice distance (R = 2r^2 odd)")
    rep.assume("weights are opaque: bit-identical floats are the same token")
    return rep.finish()


def _validate(rep, wd, traces, meta, batch=12000):
    nacc = 0
    for b0 in range(0, len(traces), batch):
        chunk = traces[b0:b0 + batch]
        with open(wd / "traces_c10.json", "w") as f:
            json.dump(chunk, f)
        res = tlc.run_tlc("LocalGridTrace", "Trace_LocalGrid.cfg", wd, workers=1, timeout=1500, xmx="12g").require_ok("Trace")
        rep.tlc(res, f"Trace_LocalGrid[{b0}:{b0 + len(chunk)}]")
        acc = {t[1] for t in tlc.tagged(res.stdout, "ACCEPT")}
        rej = tlc.tagged(res.stdout, "REJECT")
        nacc += len(acc)
        if res.status == "violation":
            st = tlc.last_state(res)
            tid = st.get("tid", 0)
            cname, beh = meta[b0 + tid - 1] if 0 < tid <= len(chunk) else ("?", [])
            rep.violation(f"{cname}:spec-invariant:{','.join(res.violated)}",
                          f"specification invariant {res.violated} fails while replaying a recorded trace",
                          {"class": cname, "behaviour": beh})
        for _, tid, pos, evname, clause in rej:
            cname, beh = meta[b0 + tid - 1]
            ev = chunk[tid - 1][pos - 1]
            hist = ";".join(e["ev"] for e in chunk[tid - 1][1:pos - 1][-3:])
            rep.violation(f"{cname}:{evname}:{clause}",
                          f"class {cname}: event {pos - 1} ({evname}) of the recorded trace is not allowed by LocalGridSys: "
                          f"{clause}; preceding events [{hist}]; event {json.dumps(ev)[:400]}",
                          {"class": cname, "behaviour": beh, "position": pos - 1, "event": ev})
        if res.status == "ok" and len(acc) + len(rej) != len(chunk):
            raise tlc.MachineryError(f"trace validation gave {len(acc)}+{len(rej)} verdicts for {len(chunk)} traces")
    rep.set("traces_validated_against_impl", len(traces))
    rep.set("traces_accepted", nacc)
    for i in (0, len(traces) // 2, len(traces) - 1):
        rep.sample({"class": meta[i][0], "behaviour": meta[i][1], "events": traces[i][:4]})


def replay(path: str) -> int:
    with open(path) as f:
        v = json.load(f)
    c = v.get("case") or {}
    if "behaviour" not in c:
        return run("quick")
    rep = Report(PROP, "quick", "model_checking")
    wd = tlc.scratch(f"{PROP}-replay")
    case = [k for k in _classes() if k.name == c["class"]][0]
    ev = Driver(case, random.Random(0)).run([tuple(x) for x in c["behaviour"]])
    rep.evaluated(len(ev) - 1, "replay")
    rep.evaluated(0, "replay2")
    _validate(rep, wd, [ev], [(case.name, c["behaviour"])])
    return rep.finish()


# --------------------------------------------------------------------------------------------
# selftest: in-process mutants (never touches /repo)

def selftest(tier: str = "quick") -> int:
    from ..evidence import patched, run_mutants
    import grid.basegrid as bg
    import grid.atomgrid as ag
    from scipy.spatial import cKDTree

    def stale_tree():  # the defect repaired by 599c742: tree survives a points reassignment
        def setter(self, value):
            self._points = value
        return patched(bg.Grid, "points", property(bg.Grid.points.fget, setter))

    def int_only():  # isinstance(index, int) again
        orig = bg.Grid.__getitem__

        def gi(self, index):
            if isinstance(index, np.integer):
                raise TypeError("len() of unsized object")
            return orig(self, index)
        return patched(bg.Grid, "__getitem__", gi)

    def open_ball():  # boundary handling: shrink the radius a little too much
        class T(cKDTree):
            def query_ball_point(self, x, r, p=2.0, **kw):
                return super().query_ball_point(x, r * 0.8, p=p, **kw)
        return patched(bg, "cKDTree", T)

    def wrong_weights():  # local weights taken by position instead of by index
        orig = bg.LocalGrid.__init__

        def init(self, points, weights, center, indices=None):
            orig(self, points, np.sort(weights), center, indices)
        return patched(bg.LocalGrid, "__init__", init)

    def uncentred_atom():  # get_localgrid reads the private arrays (AtomGrid keeps uncentred points there)
        def gl(self, center, radius):
            center = np.asarray(center)
            if radius == np.inf:
                return bg.LocalGrid(self._points, self._weights, center, np.arange(self.size))
            _points = self._points.reshape(self.size, -1)
            _center = np.array([center]) if center.ndim == 0 else center
            if self._kdtree is None:
                self._kdtree = cKDTree(_points)
            indices = np.array(self._kdtree.query_ball_point(_center, radius, p=2.0), dtype=int)
            return bg.LocalGrid(self._points[indices], self._weights[indices], center, indices)
        return patched(bg.Grid, "get_localgrid", gl)

    def drop_domain():  # OneDGrid selection forgets the domain
        def gi(self, index):
            if isinstance(index, (int, np.integer)):
                return bg.OneDGrid(np.array([self.points[index]]), np.array([self.weights[index]]))
            return bg.OneDGrid(np.array(self.points[index]), np.array(self.weights[index]))
        return patched(bg.OneDGrid, "__getitem__", gi)

    def inf_views():  # infinite radius returns the first n-1 points only
        orig = bg.Grid.get_localgrid

        def gl(self, center, radius):
            if radius == np.inf:
                return bg.LocalGrid(self.points[:-1], self.weights[:-1], np.asarray(center), np.arange(self.size - 1))
            return orig(self, center, radius)
        return patched(bg.Grid, "get_localgrid", gl)

    def set_then_validate():  # the weights setter assigns first and validates afterwards: a rejected call leaves damage
        def setter(self, value):
            old = self._weights
            self._weights = value
            if value.shape != old.shape:
                raise ValueError("The shape of the new weights should match the shape of the old weights.")
        return patched(bg.Grid, "weights", property(bg.Grid.weights.fget, setter))

    muts = [("weights-set-before-validation", set_then_validate), ("stale-tree", stale_tree), ("getitem-int-only", int_only), ("radius-shrunk", open_ball),
            ("weights-by-position", wrong_weights), ("atomgrid-uncentred", uncentred_atom),
            ("onedgrid-drops-domain", drop_domain), ("inf-drops-last-point", inf_views)]
    return run_mutants(PROP, run, muts, tier)
