"""C06 - atom-in-molecule weights form a partition of unity; all evaluation routes agree.

Flow (DESIGN.md section 5, C06; specification spec/Becke.tla):
 1. Tables_becke.tla is generated from /repo (which atomic numbers have a Bragg radius).
 2. MC_BeckeAlg: TLC decides the lemma chain (cut-off, nu-map, switching step, fall-back total)
    and, on collinear rational geometries that fit 32-bit rationals, sum-to-one, bounds, nucleus
    values, relabelling and reflection of the weight DEFINED in the spec as a straight-line
    program of Expr trees.  It emits the programs (1-D rational and 3-D), a larger set of
    rational geometries, and the fall-back table.
 3. The chunked whole-grid route, generate_weights and compute_weights are observed for EVERY
    monotone index table (incl. empty segments) with M <= MaxM atoms and N <= MaxN points, all
    points placed on nucleus t for t = 1..M, so that the returned weight is the integer "number of
    times the point received atom t's weight".  MC_BeckeChunk: TLC checks the chunk algorithm
    against the ownership definition for all these tables and judges the observations.
    Two seeded variants of the algorithm (no clip, wrong shift sign) must be rejected by TLC.
 4. Replays (harness is the judge of float observables, oracle = the spec's program):
    a. the emitted rational geometries: program run in Fractions (exact bounds / sum / nucleus /
       relabelling re-checked there for order <= 3, M <= 4) vs. six routes of the library;
    b. random 3-D geometries with 1..9 atoms of any elements (program run vectorised in
       extended precision): bounds, sum to one, nucleus values, route agreement, agreement with
       the spec, rigid motions, permutations;
    c. elements without Bragg radius behave exactly like their fall-back element (from TLC);
    d. Hirshfeld: share identity on TLC-style index tables and sum to one.

Tolerances and calibration (pinned tree, thorough tier: 6300 rational geometries x 14 points, 10^4
random geometries x ~20 points, 6 routes; largest deviation seen -> tolerance used, see `_TOL`):
  library vs spec program (Fractions), rational geometries      2.2e-16 -> 1e-12
  route vs route                                                2.2e-16 -> 1e-12
  library vs spec program (extended precision), 3-D             6.3e-16 * (1 + r/dmin) -> 1e-11 * (1 + r/dmin)
        r = distance of the point from the nearest nucleus, dmin = shortest internuclear distance
        (far points lose digits in r_A - r_B; the scale factor is the condition number of mu)
  rigid motion (random orthogonal matrix + shift)               1.9e-15 * (1 + r/dmin) -> 1e-10 * (1 + r/dmin)
  permutation of the atoms                                      5.6e-16 -> 1e-12
  sum to one / bounds / nucleus values                          6.7e-16 -> 1e-12
  Hirshfeld share / sum to one                                  4.4e-16 -> 1e-12
  vectorised evaluator vs 50-digit evaluator (harness self-check) 5.9e-17, machinery failure above 1e-15
Seeded defects (selftest) move these quantities by 1e-2 .. 1, i.e. >= 9 orders above the tolerances.

Audit extension (X1..X5, see the block comment before ``extra_cases``): larger / differently typed index
tables, the empty grid and the Hirshfeld ownership rule in the TLC chunk model (PickExtra, ObsConformsX);
3-D programs up to 12 atoms and switching order 6; nearly touching / distant / translated / integer-lattice
geometries; argument forms, untouched inputs, instance reuse, radii leakage; radii overrides x fall-back
(Scenarios, LemmaFallbackIn); user cut-off of compute_atom_weight (ProgramC, CutFamily, LemmaCutFamily);
Hirshfeld against the tabulated pro-atom data at the tabulated radii (HirshProgram, LemmaHirsh).
New tolerances (largest value seen on the pinned tree over seeds 0..5 quick + thorough -> tolerance):
  longdouble inputs vs float64 reference (scaled like spec_3d)   1.4e-15 -> 1e-11 ("spec_3d")
  all other argument forms, instance reuse, radii leak            0 (bitwise) -> 1e-12 ("route")
  float32 inputs vs the same values as float64, near points,
        order 3 only (order 6 reaches 2.7e-06)                    6.5e-07 -> 1e-3 ("float32")
  radii-override scenarios / user cut-off vs spec (scaled)        5.3e-16 -> 1e-11 ("spec_3d")
  Hirshfeld density / share at tabulated radii (relative)         4.7e-14 -> 1e-9 ("hirsh_table"; budget: points
        hit the tabulated radius to 1e-13, |d ln rho / dr| <= 16 on the knots used -> 2e-12)
  Hirshfeld rigid motion / relabelling, near points               1.4e-15 -> 1e-9 ("hirsh_rigid")
The seeded X-mutants move these by >= 1e-2 (float32: the clause only has to notice exceptions and O(1) errors).
Harness speed: the exact / 50-digit runs of the spec programs use expr_np.run_program_scalar (same arithmetic
as run_program, cross-checked against it once per worker; MachineryError on any difference).
"""
from __future__ import annotations

import itertools
import json
import multiprocessing as mp
import warnings
from fractions import Fraction

import numpy as np

from .. import tlc
from ..evidence import Report
from ..expr_np import run_program, run_program_scalar

PROP = "C06"
_TOL = {"spec_rational": 1e-12, "route": 1e-12, "spec_3d": 1e-11, "rigid": 1e-10, "perm": 1e-12,
        "unity": 1e-12, "hirshfeld": 1e-12}
MAX_REPORT = 12  # violations reported per category (the rest is counted)
MAX_ATOMS_X, MAX_ORDER_X = 12, 6  # audit extension: 3-D programs up to 12 atoms (order 3) / order 6 (<= 6 atoms)


# ---------------------------------------------------------------------------------------------
# constants extracted from /repo

def defined_radii():
    from grid.utils import get_cov_radii
    r = get_cov_radii(np.arange(1, 87), "bragg")
    return {int(z): float(v) for z, v in zip(range(1, 87), r) if not np.isnan(v)}


def write_tables(wd, maxm, maxn, max3, defined):
    (wd / "Tables_becke.tla").write_text("\n".join([
        "---- MODULE Tables_becke ----",
        "\\* generated by vf/props/c06.py from /repo (grid.utils Bragg radii) and the tier bounds",
        "EXTENDS Integers, Sequences, TLC, Json",
        f"MaxM == {maxm}", f"MaxN == {maxn}", f"MaxAtoms3 == {max3}", "ZMax == 86",
        "Defined == " + tlc.tla(set(defined)),
        'Obs == JsonDeserialize("obs_becke.json")',
        "\\* audit extension: bounds of the extended 3-D programs, extra chunk cases and their observations",
        f"MaxAtomsX == {MAX_ATOMS_X}", f"MaxOrderX == {MAX_ORDER_X}",
        'ExtraCases == JsonDeserialize("extra_becke.json")',
        'ObsExtra == JsonDeserialize("obs_extra_becke.json")',
        'ObsZero == JsonDeserialize("obs_zero_becke.json")',
        "====", ""]))
    for f in ("extra_becke.json", "obs_extra_becke.json", "obs_zero_becke.json"):
        if not (wd / f).exists():
            (wd / f).write_text("[]")


# ---------------------------------------------------------------------------------------------
# library access (every call wrapped: an exception is an observation, not a harness failure)

def _becke(order=3, radii=None):
    from grid.becke import BeckeWeights
    return BeckeWeights(radii=radii, order=order)


def _call(f, *a, **k):
    try:
        with warnings.catch_warnings():
            warnings.simplefilter("ignore")
            with np.errstate(all="ignore"):
                return np.asarray(f(*a, **k), dtype=float), None
    except Exception as e:  # noqa: BLE001
        return None, f"{type(e).__name__}: {e}"


def routes(bw, points, atcoords, atnums):
    """Weights of every atom at the same points through every public route.
    Returns {route: array(M, N)} and {route: error text}."""
    m, n = len(atcoords), len(points)
    stacked = np.tile(points, (m, 1))
    idx = np.arange(m + 1) * n
    out, err = {}, {}

    def put(name, val, e, shape_from_stack=False):
        if e is not None:
            err[name] = e
        elif shape_from_stack:
            if val.shape != (m * n,):
                err[name] = f"result shape {val.shape}, expected {(m * n,)}"
            else:
                out[name] = val.reshape(m, n)
        else:
            out[name] = val

    put("call", *_call(bw, stacked, atcoords, atnums, idx), True)
    put("generate:pt_ind", *_call(bw.generate_weights, stacked, atcoords, atnums, pt_ind=[int(i) for i in idx]), True)
    put("compute:pt_ind", *_call(bw.compute_weights, stacked, atcoords, atnums, pt_ind=[int(i) for i in idx]), True)
    for name, f in (("generate:select", lambda b: bw.generate_weights(points, atcoords, atnums, select=b)),
                    ("compute:select", lambda b: bw.compute_weights(points, atcoords, atnums, select=b)),
                    ("atom", lambda b: bw.compute_atom_weight(points, atcoords, atnums, b))):
        rows = []
        for b in range(m):
            v, e = _call(f, b)
            if e is None and v.shape != (n,):
                e = f"result shape {v.shape}, expected {(n,)}"
            if e is not None:
                err[name] = e
                break
            rows.append(v)
        else:
            out[name] = np.array(rows)
    return out, err


# ---------------------------------------------------------------------------------------------
# 3. chunk observations

_CHUNK_Z = [1, 6, 8, 7, 16, 15, 9, 17]


def _chunk_geometry(m):
    b = np.arange(m)
    return np.stack([1.3 * b, 0.7 * (b % 2) + 0.11 * b, 0.45 * (b % 3)], axis=1).astype(float)


def _codes(m, n, fun):
    """fun(points) -> weights for the n points; all points on nucleus t, t = 0..m-1."""
    at = _chunk_geometry(m)
    code = [0] * n
    for t in range(m):
        w, e = _call(fun, np.tile(at[t], (n, 1)))
        if e is not None or w.shape != (n,):
            return [-1]
        for p in range(n):
            k = int(round(w[p])) if np.isfinite(w[p]) else -9
            if not np.isfinite(w[p]) or abs(w[p] - k) > 1e-12 or k < 0 or k > 3:
                return [-2]
            code[p] += k * 4 ** t
    return code


def _chunk_worker(job):
    m, n, tables = job
    bw = _becke()
    at = _chunk_geometry(m)
    z = np.array(_CHUNK_Z[:m])
    out = []
    for t in tables:
        idx = np.array(t)
        pt = [int(i) for i in t]
        out.append((t, [
            _codes(m, n, lambda p: bw(p, at, z, idx)),
            _codes(m, n, lambda p: bw.generate_weights(p, at, z, pt_ind=pt)),
            _codes(m, n, lambda p: bw.compute_weights(p, at, z, pt_ind=pt)),
        ]))
    return m, n, out


def index_tables(m, n):
    return [(0,) + c + (n,) for c in itertools.combinations_with_replacement(range(n + 1), m - 1)]


def observe_chunks(maxm, maxn, pool):
    jobs = []
    for m in range(1, maxm + 1):
        for n in range(1, maxn + 1):
            tabs = index_tables(m, n)
            k = max(1, len(tabs) // 400)
            for i in range(k):
                jobs.append((m, n, tabs[i::k]))
    obs = [[None] * maxn for _ in range(maxm)]
    count = 0
    for m, n, res in pool.imap_unordered(_chunk_worker, jobs):
        for t, leaf in res:
            count += 1
            path = t[1:m]
            if not path:
                obs[m - 1][n - 1] = leaf
                continue
            if obs[m - 1][n - 1] is None:
                obs[m - 1][n - 1] = []
            node = obs[m - 1][n - 1]
            for k, v in enumerate(path):
                while len(node) <= v:
                    node.append([])
                if k == len(path) - 1:
                    node[v] = leaf
                else:
                    node = node[v]
    return obs, count


# ---------------------------------------------------------------------------------------------
# 4a. rational collinear geometries

def _fr(q):
    return Fraction(int(q[0]), int(q[1]))


def _rational_worker(job):
    """Returns (n_cases, model_violations, impl_violations, maxima)."""
    geoms, points, programs, seed = job
    rng = np.random.default_rng(seed)
    model, impl = [], []
    mx = {"spec_rational": 0.0, "route": 0.0}
    nontrivial = 0
    pts = [_fr(p) for p in points]
    checked_slow = {}
    for g in geoms:
        m, order = g["M"], g["order"]
        pos = [_fr(q) for q in g["pos"]]
        rad = [_fr(q) for q in g["rad"]]
        ent = programs["dim1"][m - 1][order - 1]
        prog, io = ent["prog"], ent["io"]
        key = f"M={m}:order={order}:pos={[str(x) for x in pos]}:rad={[str(x) for x in rad]}"

        def spec(pos_, rad_, x_):
            env = {io["point"][0]: x_}
            for b in range(m):
                env[io["atoms"][b][0]] = pos_[b]
                env[io["radii"][b]] = rad_[b]
            e = run_program_scalar(prog, env, "fraction")
            if checked_slow.setdefault("todo", True):
                # harness self-check: the fast exact evaluator against the reference evaluator, once per worker
                checked_slow["todo"] = False
                e0 = run_program(prog, env, "fraction")
                if any(e0[k] != e[k] for k in e0):
                    raise tlc.MachineryError("run_program_scalar and run_program disagree in exact arithmetic")
            return [e[o] for o in io["outputs"]], [e[a] for a in io["alphas"]]

        want = []
        perm = list(rng.permutation(m))
        for x in pts:
            w, al = spec(pos, rad, x)
            want.append(w)
            # the definition itself has the stated properties, exactly (order <= 3, M <= 4)
            if sum(w) != 1:
                model.append((f"model:sum:{key}:x={x}", f"spec weights sum to {sum(w)}"))
            if any(v < 0 or v > 1 for v in w):
                model.append((f"model:bounds:{key}:x={x}", f"spec weight outside [0,1]: {w}"))
            if any(abs(a) > Fraction(9, 20) for a in al):
                model.append((f"model:alpha:{key}", f"|a| > 0.45: {al}"))
            for b in range(m):
                if x == pos[b] and any(w[c] != (1 if c == b else 0) for c in range(m)):
                    model.append((f"model:nucleus:{key}:x={x}", f"spec weights at nucleus {b}: {w}"))
            w2, _ = spec([pos[i] for i in perm], [rad[i] for i in perm], x)
            if any(w2[i] != w[perm[i]] for i in range(m)):
                model.append((f"model:relabel:{key}:x={x}", f"perm {perm}: {w2} vs {w}"))
            w3, _ = spec([-p for p in pos], rad, -x)
            if w3 != w:
                model.append((f"model:reflect:{key}:x={x}", f"{w3} vs {w}"))
            nontrivial += sum(1 for v in w if 0 < v < 1)
        want = np.array([[float(v) for v in w] for w in want]).T  # (M, N)
        atnums = np.arange(1, m + 1)
        bw = _becke(order, {int(b + 1): float(rad[b]) for b in range(m)})
        atc = np.array([[float(p), 0.0, 0.0] for p in pos])
        xs = np.array([[float(x), 0.0, 0.0] for x in pts])
        got, err = routes(bw, xs, atc, atnums)
        for r, e in err.items():
            impl.append((f"raise:{r}:{key}", f"route {r} raised {e}", g))
        for r, v in got.items():
            d = float(np.max(np.abs(v - want))) if np.all(np.isfinite(v)) else float("inf")
            mx["spec_rational"] = max(mx["spec_rational"], d if np.isfinite(d) else 0.0)
            if not d <= _TOL["spec_rational"]:
                i, j = np.unravel_index(np.argmax(np.abs(np.nan_to_num(v - want, nan=np.inf))), v.shape)
                impl.append((f"value:{r}:{key}", f"route {r}: atom {i} at x={pts[j]}: library {v[i, j]!r}, "
                             f"specification {want[i, j]!r} (exact {Fraction(want[i, j]).limit_denominator(10**6)}), max diff {d:.3e}", g))
        names = list(got)
        for r in names[1:]:
            d = float(np.max(np.abs(got[r] - got[names[0]])))
            mx["route"] = max(mx["route"], d if np.isfinite(d) else 0.0)
            if not d <= _TOL["route"]:
                impl.append((f"route-disagree:{r}:{key}", f"routes {names[0]} and {r} differ by {d:.3e}", g))
    return len(geoms), model, impl, mx, nontrivial


# ---------------------------------------------------------------------------------------------
# 4b. random 3-D geometries

def _random_geometry(rng, m, dmin=0.9):
    while True:
        c = rng.normal(size=(m, 3)) * (0.9 + 0.5 * m ** (1 / 3))
        if m == 1:
            return c
        d = np.linalg.norm(c[:, None] - c[None], axis=-1) + np.eye(m) * 1e9
        if d.min() >= dmin:
            return c


def _points_for(rng, atc):
    m = len(atc)
    near = atc[rng.integers(0, m, size=10)] + rng.normal(size=(10, 3)) * 1.2
    mids = []
    for _ in range(3 if m > 1 else 0):
        a, b = rng.choice(m, size=2, replace=False)
        t = rng.uniform(0.05, 0.95)
        mids.append(t * atc[a] + (1 - t) * atc[b])
    far_dir = rng.normal(size=(4, 3))
    far = atc.mean(axis=0) + far_dir / np.linalg.norm(far_dir, axis=1)[:, None] * rng.uniform(20, 100, size=(4, 1))
    parts = [near, far, atc.copy()] + ([np.array(mids)] if mids else [])
    return np.vstack(parts), len(near) + len(far)  # nuclei start at this offset


def _spec3(programs, radii_of, atc, z, pts, order):
    m = len(atc)
    ent = programs["dim3"][m - 1][order - 1]
    io = ent["io"]
    env = {}
    for k in range(3):
        env[io["point"][k]] = pts[:, k]
        for b in range(m):
            env[io["atoms"][b][k]] = atc[b, k]
    for b in range(m):
        env[io["radii"][b]] = radii_of[int(z[b])]
    e = run_program(ent["prog"], env, "np")
    return np.array([np.broadcast_to(e[o], (len(pts),)) for o in io["outputs"]]), ent


def _random_orthogonal(rng):
    q, r = np.linalg.qr(rng.normal(size=(3, 3)))
    return q * np.sign(np.diag(r))


def _geometry_worker(job):
    programs, radii_of, seed, count, undefined = job
    rng = np.random.default_rng(seed)
    impl = []
    mx = {k: 0.0 for k in ("route", "spec_3d", "rigid", "perm", "unity", "np_vs_mp")}
    keys = []
    for it in range(count):
        m = int(rng.integers(1, 10))
        order = int(rng.choice([1, 2, 3, 3, 3]))
        atc = _random_geometry(rng, m)
        z = rng.integers(1, 87, size=m)
        if rng.random() < 0.35:  # make sure elements without radius take part
            z[rng.integers(0, m)] = int(rng.choice(undefined))
        z = np.array(z, dtype=int)
        pts, nuc0 = _points_for(rng, atc)
        key = f"seed={seed}:case={it}:M={m}:order={order}:Z={z.tolist()}"
        case = {"atcoords": atc, "atnums": z, "order": order, "points": pts}
        keys.append((m, order, tuple(sorted(z.tolist()))))
        dmin = 1.0 if m == 1 else float(np.min(np.linalg.norm(atc[:, None] - atc[None], axis=-1) + np.eye(m) * 1e9))
        rfar = np.min(np.linalg.norm(pts[:, None] - atc[None], axis=-1), axis=1)
        scale = 1.0 + rfar / dmin
        bw = _becke(order)
        got, err = routes(bw, pts, atc, z)
        for r, e in err.items():
            impl.append((f"raise:{r}:{key}", f"route {r} raised {e}", case))
        if not got:
            continue
        names = list(got)
        ref = got[names[0]]
        for r in names[1:]:
            d = float(np.max(np.abs(got[r] - ref)))
            mx["route"] = max(mx["route"], d if np.isfinite(d) else 0.0)
            if not d <= _TOL["route"]:
                impl.append((f"route-disagree:{r}:{key}", f"routes {names[0]} and {r} differ by {d:.3e}", case))
        # partition of unity on the library's own numbers
        for r, v in got.items():
            bad = []
            if not np.all(np.isfinite(v)):
                bad.append("non-finite weight")
            else:
                s = float(np.max(np.abs(v.sum(axis=0) - 1)))
                lo, hi = float(v.min()), float(v.max())
                nuc = v[:, nuc0:nuc0 + m]
                dn = float(np.max(np.abs(nuc - np.eye(m))))
                mx["unity"] = max(mx["unity"], s, -lo, hi - 1, dn)
                if s > _TOL["unity"]:
                    bad.append(f"weights sum to 1 +- {s:.3e}")
                if lo < -_TOL["unity"] or hi > 1 + _TOL["unity"]:
                    bad.append(f"weights range [{lo!r}, {hi!r}]")
                if dn > _TOL["unity"]:
                    bad.append(f"nucleus values off by {dn:.3e}")
            for b in bad:
                impl.append((f"unity:{r}:{b.split()[0]}:{key}", f"route {r}: {b}", case))
        # against the specification
        want, ent = _spec3(programs, radii_of, atc, z, pts, order)
        want = want.astype(float)
        for r, v in got.items():
            d = np.abs(v - want) / scale
            dm = float(np.max(np.nan_to_num(d, nan=np.inf)))
            mx["spec_3d"] = max(mx["spec_3d"], dm if np.isfinite(dm) else 0.0)
            if not dm <= _TOL["spec_3d"]:
                i, j = np.unravel_index(np.argmax(np.nan_to_num(d, nan=np.inf)), d.shape)
                impl.append((f"value:{r}:{key}", f"route {r}: atom {i} point {pts[j].tolist()}: library {v[i, j]!r}, "
                             f"specification {want[i, j]!r}", case))
        if it < 2:  # the vectorised evaluator against the 50-digit one (harness self-check)
            io = ent["io"]
            for j in (0, nuc0 - 1, len(pts) - 1):
                env = {}
                for k in range(3):
                    env[io["point"][k]] = Fraction(float(pts[j, k]))
                    for b in range(m):
                        env[io["atoms"][b][k]] = Fraction(float(atc[b, k]))
                for b in range(m):
                    env[io["radii"][b]] = Fraction(radii_of[int(z[b])])
                e = run_program_scalar(ent["prog"], env, "mp")
                if it == 0 and j == 0 and seed % 8 == 0:   # the fast 50-digit evaluator against the reference one, every 8th worker
                    e0 = run_program(ent["prog"], env, "mp")
                    if any(e0[o] != e[o] for o in io["outputs"]):
                        raise tlc.MachineryError("run_program_scalar and run_program disagree at 50 digits")
                d = max(abs(float(e[o]) - want[b, j]) for b, o in enumerate(io["outputs"]))
                mx["np_vs_mp"] = max(mx["np_vs_mp"], d / scale[j])
        # rigid motion and permutation (whole-grid route)
        rot, shift = _random_orthogonal(rng), rng.normal(size=3) * 3
        v2, e = _call(lambda: routes(bw, pts @ rot.T + shift, atc @ rot.T + shift, z)[0].get("call"))
        if e is None and v2 is not None and v2.shape == ref.shape and "call" in got:
            d = float(np.max(np.abs(v2 - got["call"]) / scale))
            mx["rigid"] = max(mx["rigid"], d)
            if not d <= _TOL["rigid"]:
                impl.append((f"rigid-motion:{key}", f"weights change by {d:.3e} (scaled) under a rigid motion", case))
        perm = rng.permutation(m)
        v3, e = _call(lambda: routes(bw, pts, atc[perm], z[perm])[0].get("call"))
        if e is None and v3 is not None and v3.shape == ref.shape and "call" in got:
            d = float(np.max(np.abs(v3 - got["call"][perm])))
            mx["perm"] = max(mx["perm"], d)
            if not d <= _TOL["perm"]:
                impl.append((f"relabel:{key}", f"weights change by {d:.3e} when atoms are listed as {perm.tolist()}", case))
    return count, impl, mx, keys


# ---------------------------------------------------------------------------------------------

def _segment_semantics(rep, rng):
    """select-list semantics: segment j of pt_ind receives the weight of atom select[j]."""
    bw = _becke()
    n = 0
    for m in (3, 4, 5):
        atc = _random_geometry(rng, m)
        z = np.array(_CHUNK_Z[:m])
        for it in range(6):
            if it < 4:
                k = int(rng.integers(2, m + 1))
                sel = [int(i) for i in rng.permutation(m)[:k]]
                if sel == sorted(sel) and sel == list(range(k)):
                    sel = sel[::-1]
            else:
                # an atom may own several segments ("all segmentations of the points"): owners drawn with
                # repetition, at least one atom twice
                k = int(rng.integers(3, m + 3))
                sel = [int(i) for i in rng.integers(0, m, size=k)]
                sel[-1] = sel[0]
            cuts = sorted(int(c) for c in rng.integers(0, 13, size=k - 1))
            pt = [0] + cuts + [12]
            pts = atc[rng.integers(0, m, size=12)] + rng.normal(size=(12, 3))
            want = np.zeros(12)
            okw = True
            for j, a in enumerate(sel):
                v, e = _call(bw.compute_atom_weight, pts[pt[j]:pt[j + 1]], atc, z, a)
                if e is not None:
                    okw = False
                    break
                want[pt[j]:pt[j + 1]] = v
            if not okw:
                continue
            for name, f in (("generate_weights", bw.generate_weights), ("compute_weights", bw.compute_weights)):
                v, e = _call(f, pts, atc, z, select=list(sel), pt_ind=list(pt))
                n += 1
                rep.evaluated(1, ("select-list", name, m, tuple(sel)))
                if e is not None:
                    rep.violation(f"route-disagree:{name}:select-list",
                                  f"{name}(select={sel}, pt_ind={pt}) raised {e}; segment j must receive atom select[j]",
                                  {"select": sel, "pt_ind": pt, "atcoords": atc, "atnums": z, "points": pts})
                elif not np.max(np.abs(v - want)) <= _TOL["route"]:
                    rep.violation(f"route-disagree:{name}:select-list",
                                  f"{name}(select={sel}, pt_ind={pt}) differs from the per-atom weights of atom select[j] "
                                  f"on segment j by {np.max(np.abs(v - want)):.3e}",
                                  {"select": sel, "pt_ind": pt, "atcoords": atc, "atnums": z, "points": pts})
    return n


def _fallback(rep, rng, fallback, defined, n_partner):
    """An element without tabulated radius gives exactly the weights of its fall-back element."""
    zs_def = sorted(defined)
    for z, src in fallback:
        for _ in range(n_partner):
            m = int(rng.integers(2, 5))
            atc = _random_geometry(rng, m)
            others = [int(x) for x in rng.choice(zs_def, size=m - 1)]
            pts, _ = _points_for(rng, atc)
            k = int(rng.integers(0, m))
            za = np.array(others[:k] + [z] + others[k:])
            zb = np.array(others[:k] + [src] + others[k:])
            for order in (3,):
                bw = _becke(order)
                ga, ea = routes(bw, pts, atc, za)
                gb, eb = routes(bw, pts, atc, zb)
                rep.evaluated(1, ("fallback", z, tuple(others)))
                case = {"atcoords": atc, "atnums": za, "fallback_atnums": zb, "points": pts}
                for r, e in ea.items():
                    rep.violation(f"fallback:raise:{r}:Z={z}", f"route {r} raised {e} for atnums {za.tolist()}", case)
                for r in ga:
                    if r in gb and not np.array_equal(ga[r], gb[r]):
                        d = float(np.max(np.abs(ga[r] - gb[r])))
                        rep.violation(f"fallback:Z={z}:{r}", f"element {z} (no Bragg radius) must use the radius of element {src}; "
                                      f"weights differ by {d:.3e} from those computed with element {src}", case)


def _hirshfeld(rep, rng, ncases):
    from grid.hirshfeld import HirshfeldWeights
    mx = 0.0
    hw = HirshfeldWeights()
    for it in range(ncases):
        m = int(rng.integers(1, 6))
        atc = _random_geometry(rng, m, dmin=1.2)
        z = np.array([int(x) for x in rng.choice([1, 6, 7, 8], size=m)])
        n = int(rng.integers(1, 15))
        pts = atc[rng.integers(0, m, size=n)] + rng.normal(size=(n, 3)) * 0.8
        if it % 3 == 0:
            # far points ("all evaluation points incl. nuclei and far points"): beyond the tabulated range of
            # every pro-atom (~90-125 bohr) the densities are extrapolated but must still give a finite share
            far = rng.normal(size=(min(n, 3), 3))
            far *= (np.array([150.0, 1.0e3, 1.0e5])[:len(far), None] / np.linalg.norm(far, axis=1)[:, None])
            pts[:len(far)] = far
        idx = np.array([0] + sorted(int(c) for c in rng.integers(0, n + 1, size=m - 1)) + [n])
        case = {"atcoords": atc, "atnums": z, "points": pts, "indices": idx}
        rep.evaluated(1, ("hirshfeld", m, tuple(idx.tolist())))
        rho = []
        for b in range(m):
            v, e = _call(HirshfeldWeights.generate_proatom, pts, atc[b], int(z[b]))
            if e is not None:
                rep.violation(f"hirshfeld:proatom:Z={z[b]}", f"generate_proatom raised {e}", case)
                break
            rho.append(v)
        else:
            rho = np.array(rho)
            got, e = _call(hw, pts, atc, z, idx)
            if e is not None or got.shape != (n,):
                rep.violation(f"hirshfeld:call:M={m}:idx={idx.tolist()}", f"HirshfeldWeights() raised or mis-shaped: {e}", case)
                continue
            owner = np.array([max(a for a in range(m) if idx[a] <= p < idx[a + 1]) for p in range(n)])
            want = rho[owner, np.arange(n)] / rho.sum(axis=0)
            d = float(np.max(np.abs(got - want) / np.maximum(1.0, np.abs(want))))
            mx = max(mx, d)
            if not d <= _TOL["hirshfeld"]:
                rep.violation(f"hirshfeld:share:M={m}:idx={idx.tolist()}",
                              f"weight is not the pro-atom density share of the owning atom (diff {d:.3e})", case)
            # sum to one: every atom evaluated at the same points
            st = np.tile(pts, (m, 1))
            tot, e = _call(hw, st, atc, z, np.arange(m + 1) * n)
            if e is not None:
                rep.violation(f"hirshfeld:call:stacked:M={m}", f"HirshfeldWeights() raised {e}", case)
                continue
            s = float(np.max(np.abs(tot.reshape(m, n).sum(axis=0) - 1)))
            mx = max(mx, s)
            if not s <= _TOL["hirshfeld"]:
                rep.violation(f"hirshfeld:sum:M={m}", f"Hirshfeld weights of all atoms sum to 1 +- {s:.3e}", case)
    return mx


# ---------------------------------------------------------------------------------------------
# Audit extension (DESIGN section 12 / Appendix I list the seeded changes that motivated it).
#  X1  extra chunk cases: up to 12 atoms / 60 points, the empty grid, index tables handed over as
#      list / tuple / ndarray of several integer types, and the Hirshfeld call (same ownership
#      rule) - all judged by TLC (PickExtra, ObsConformsX in spec/Becke.tla)
#  X2  3-D replays against the extended programs: 10..12 atoms, switching orders 4..6, nearly
#      touching / widely separated / far translated / integer-lattice geometries
#  X3  argument forms (select / pt_ind / atnums / coordinates: types, layouts, read-only), inputs
#      left untouched, one instance reused for different molecules, custom radii do not leak
#  X4  radii overrides x fall-back (spec: Scenarios, RadiusSourceIn), user cut-off of
#      compute_atom_weight (spec: ProgramC, CutFamily)
#  X5  Hirshfeld: densities and shares against the tabulated pro-atom data at the tabulated radii
#      (oracle independent of generate_proatom), rigid motion and relabelling, all shipped elements
# Calibration of the new tolerances (pinned tree, seeds 0..5 quick + thorough, largest value seen -> tolerance):
#   forms / state / longdouble inputs vs reference call      8.9e-16 -> 1e-12 (existing "route")
#   float32 inputs vs the same values in float64             5.2e-07 -> 1e-3  ("float32"; eps32 = 6e-8 times
#        the slope of the order-3 cell function (<= 3.4 per partner, <= 9 partners) gives <= 2e-6)
#   Hirshfeld at tabulated radii (relative, knots with density >= 1e-6, 0.02 <= r)   see _TOL["hirsh_table"]
#   Hirshfeld rigid motion / relabelling (near points)         see _TOL["hirsh_rigid"]
_TOL.update({"float32": 1e-3, "hirsh_table": 1e-9, "hirsh_rigid": 1e-9})

ROUTES_X = ["call", "generate", "compute", "call-int32", "call-int16", "generate-ndarray", "compute-ndarray",
            "generate-tuple", "compute-int32", "hirshfeld", "hirshfeld-int32", "call-uint64", "call-uint32",
            "hirshfeld-uint64"]   # = RouteNamesX of spec/Becke.tla
_CHUNK_ZX = _CHUNK_Z + [5, 14, 3, 35]
_HIRSH_Z = [1, 6, 8, 7]
_PROG_CACHE = {}


def _load_json(path, fresh=False):
    """Parent: ``fresh=True`` after TLC wrote the file.  Workers forked afterwards find it in the cache."""
    key = str(path)
    if fresh or key not in _PROG_CACHE:
        with open(path) as f:
            _PROG_CACHE[key] = json.load(f)
    return _PROG_CACHE[key]


def extra_cases(seed, quick):
    """Index tables beyond the exhaustive bounds (generated from VERIF_SEED, handed to TLC as ExtraCases)."""
    rng = np.random.default_rng(7919 * seed + 17)
    cases = []

    def add(m, n, cuts):
        cases.append({"M": int(m), "N": int(n), "idx": [0] + sorted(int(c) for c in cuts) + [int(n)]})

    for m in (1, 2, 7, 12):
        add(m, 0, [0] * (m - 1))                     # the empty grid (M <= MaxM is part of the exhaustive tables)
    add(2, 40, [20])                                  # one chunk much longer than the exhaustive bound
    add(1, 33, [])
    add(12, 60, [5 * k for k in range(1, 12)])
    add(12, 7, [0, 0, 1, 1, 2, 3, 3, 3, 5, 6, 7])     # chunk size 1
    count = 44 if quick else 400
    while len(cases) < count + 8:
        m = int(rng.integers(1, 13))
        n = int(rng.integers(1, 61))
        style = int(rng.integers(0, 4))
        if style == 0:
            cuts = rng.integers(0, n + 1, size=m - 1)
        elif style == 1:
            cuts = [(n * k) // m for k in range(1, m)]
        elif style == 2:
            vals = rng.integers(0, n + 1, size=2)
            cuts = rng.choice(vals, size=m - 1)
        else:
            k = int(rng.integers(0, m))
            cuts = [0] * k + [n] * (m - 1 - k)
        add(m, n, cuts)
    return cases


def _hirsh_codes(m, n, idx, seed):
    """Per-point code sum_a 4^a [weight * promolecule = density of atom a] for the Hirshfeld call (generic points)."""
    from grid.hirshfeld import HirshfeldWeights
    at = _chunk_geometry(m)
    z = np.array([_HIRSH_Z[b % 4] for b in range(m)])
    rng = np.random.default_rng(seed)
    pts = at[rng.integers(0, m, size=n)] + rng.normal(size=(n, 3)) * 0.7 if n else np.zeros((0, 3))
    got, e = _call(HirshfeldWeights(), pts, at, z, idx)
    if e is not None or got.shape != (n,):
        return [-1]
    if n == 0:
        return []
    rho = np.array([HirshfeldWeights.generate_proatom(pts, at[b], int(z[b])) for b in range(m)])
    prom = rho.sum(axis=0)
    code = []
    for p in range(n):
        if not np.isfinite(got[p]):
            return [-2]
        code.append(sum(4 ** a for a in range(m) if abs(got[p] * prom[p] - rho[a, p]) <= 1e-13 * abs(rho[a, p])))
    return code


def _extra_worker(job):
    start, cases = job
    bw = _becke()
    out = []
    for k, c in enumerate(cases):
        m, n, t = c["M"], c["N"], c["idx"]
        at = _chunk_geometry(m)
        z = np.array(_CHUNK_ZX[:m])
        pt = [int(i) for i in t]
        arr = np.array(pt)
        leaf = [
            _codes(m, n, lambda p: bw(p, at, z, arr)),
            _codes(m, n, lambda p: bw.generate_weights(p, at, z, pt_ind=pt)),
            _codes(m, n, lambda p: bw.compute_weights(p, at, z, pt_ind=pt)),
            _codes(m, n, lambda p: bw(p, at, z, arr.astype(np.int32))),
            _codes(m, n, lambda p: bw(p, at, z, arr.astype(np.int16))),
            _codes(m, n, lambda p: bw.generate_weights(p, at, z, pt_ind=arr)),
            _codes(m, n, lambda p: bw.compute_weights(p, at, z, pt_ind=arr)),
            _codes(m, n, lambda p: bw.generate_weights(p, at, z, pt_ind=tuple(pt))),
            _codes(m, n, lambda p: bw.compute_weights(p, at, z, pt_ind=arr.astype(np.int32))),
            _hirsh_codes(m, n, arr, 1000 + start + k),
            _hirsh_codes(m, n, arr.astype(np.int32), 1000 + start + k),
            _codes(m, n, lambda p: bw(p, at, z, arr.astype(np.uint64))),
            _codes(m, n, lambda p: bw(p, at, z, arr.astype(np.uint32))),
            _hirsh_codes(m, n, arr.astype(np.uint64), 1000 + start + k),
        ]
        out.append(leaf)
    return start, out


def observe_extra(cases, maxm, pool):
    jobs = [(i, cases[i:i + 6]) for i in range(0, len(cases), 6)]
    obs = [None] * len(cases)
    for start, leaves in pool.imap_unordered(_extra_worker, jobs):
        for k, leaf in enumerate(leaves):
            obs[start + k] = leaf
    bw = _becke()
    zero = []
    for m in range(1, maxm + 1):
        at, z = _chunk_geometry(m), np.array(_CHUNK_ZX[:m])
        pt = [0] * (m + 1)
        zero.append([_codes(m, 0, lambda p: bw(p, at, z, np.array(pt))),
                     _codes(m, 0, lambda p: bw.generate_weights(p, at, z, pt_ind=pt)),
                     _codes(m, 0, lambda p: bw.compute_weights(p, at, z, pt_ind=pt))])
    return obs, zero


# ---- X2 / X3: extended 3-D replays, argument forms, state ------------------------------------

def _spec_run(ent, radii, atc, pts, cut=None):
    io = ent["io"]
    m = len(atc)
    env = {}
    for k in range(3):
        env[io["point"][k]] = pts[:, k]
        for b in range(m):
            env[io["atoms"][b][k]] = atc[b, k]
    for b in range(m):
        env[io["radii"][b]] = radii[b]
    if cut is not None:
        env[io["cut"]] = cut
    e = run_program(ent["prog"], env, "np")
    return np.array([np.broadcast_to(e[o], (len(pts),)) for o in io["outputs"]]).astype(float)


def _judge(impl, mx, key, case, got, err, want, scale, nuc0, m):
    """The clauses of 4b (route agreement, partition of unity, agreement with the specification) on one case."""
    for r, e in err.items():
        impl.append((f"raise:{r}:{key}", f"route {r} raised {e}", case))
    if not got:
        return
    names = list(got)
    ref = got[names[0]]
    for r in names[1:]:
        d = float(np.max(np.abs(got[r] - ref)))
        mx["route"] = max(mx["route"], d if np.isfinite(d) else 0.0)
        if not d <= _TOL["route"]:
            impl.append((f"route-disagree:{r}:{key}", f"routes {names[0]} and {r} differ by {d:.3e}", case))
    for r, v in got.items():
        bad = []
        if not np.all(np.isfinite(v)):
            bad.append("non-finite weight")
        else:
            s = float(np.max(np.abs(v.sum(axis=0) - 1)))
            lo, hi = float(v.min()), float(v.max())
            dn = float(np.max(np.abs(v[:, nuc0:nuc0 + m] - np.eye(m))))
            mx["unity"] = max(mx["unity"], s, -lo, hi - 1, dn)
            if s > _TOL["unity"]:
                bad.append(f"weights sum to 1 +- {s:.3e}")
            if lo < -_TOL["unity"] or hi > 1 + _TOL["unity"]:
                bad.append(f"weights range [{lo!r}, {hi!r}]")
            if dn > _TOL["unity"]:
                bad.append(f"nucleus values off by {dn:.3e}")
        for b in bad:
            impl.append((f"unity:{r}:{b.split()[0]}:{key}", f"route {r}: {b}", case))
    if want is not None:
        for r, v in got.items():
            d = np.abs(v - want) / scale
            dm = float(np.max(np.nan_to_num(d, nan=np.inf)))
            mx["spec_3d"] = max(mx["spec_3d"], dm if np.isfinite(dm) else 0.0)
            if not dm <= _TOL["spec_3d"]:
                i, j = np.unravel_index(np.argmax(np.nan_to_num(d, nan=np.inf)), d.shape)
                impl.append((f"value:{r}:{key}", f"route {r}: atom {i} point {case['points'][j].tolist()}: library {v[i, j]!r}, "
                             f"specification {want[i, j]!r}", case))


def _scale_of(atc, pts):
    m = len(atc)
    dmin = 1.0 if m == 1 else float(np.min(np.linalg.norm(atc[:, None] - atc[None], axis=-1) + np.eye(m) * 1e300))
    rfar = np.min(np.linalg.norm(pts[:, None] - atc[None], axis=-1), axis=1)
    return 1.0 + rfar / dmin


def _stack(f, m, n):
    """f(b) for every atom b -> (array(M, N), None) or (None, error text)."""
    rows = []
    for b in range(m):
        v, e = _call(f, b)
        if e is None and v.shape != (n,):
            e = f"result shape {v.shape}, expected {(n,)}"
        if e is not None:
            return None, e
        rows.append(v)
    return np.array(rows), None


def _forms(bw, pts, atc, z, got):
    """X3: the same request spelled differently must give the same numbers.  Returns [(form, reference route, value|None, error)]."""
    m, n = len(atc), len(pts)
    stacked = np.tile(pts, (m, 1))
    idx = np.arange(m + 1) * n
    out = []

    def per_atom(name, ref, f):
        v, e = _stack(f, m, n)
        out.append((name, ref, v, e))

    def whole(name, f):
        v, e = _call(f)
        if e is None and v.shape != (m * n,):
            v, e = None, f"result shape {v.shape}, expected {(m * n,)}"
        out.append((name, "call", None if v is None else v.reshape(m, n), e))

    per_atom("generate:select=np.int64", "generate:select", lambda b: bw.generate_weights(pts, atc, z, select=np.int64(b)))
    per_atom("generate:select=np.int32", "generate:select", lambda b: bw.generate_weights(pts, atc, z, select=np.int32(b)))
    per_atom("generate:select=[b]", "generate:select", lambda b: bw.generate_weights(pts, atc, z, select=[b]))
    per_atom("generate:select=(b,)", "generate:select", lambda b: bw.generate_weights(pts, atc, z, select=(b,)))
    per_atom("generate:select=array([b])", "generate:select", lambda b: bw.generate_weights(pts, atc, z, select=np.array([b])))
    per_atom("generate:select=[b],pt_ind=[0,N]", "generate:select",
             lambda b: bw.generate_weights(pts, atc, z, select=[b], pt_ind=[0, n]))
    per_atom("compute:select=np.int64", "compute:select", lambda b: bw.compute_weights(pts, atc, z, select=np.int64(b)))
    per_atom("compute:select=[b]", "compute:select", lambda b: bw.compute_weights(pts, atc, z, select=[b]))
    per_atom("compute:select=array([b])", "compute:select", lambda b: bw.compute_weights(pts, atc, z, select=np.array([b])))
    per_atom("compute:select=[b],pt_ind=[0,N]", "compute:select",
             lambda b: bw.compute_weights(pts, atc, z, select=[b], pt_ind=[0, n]))
    per_atom("atom:select=np.int64", "atom", lambda b: bw.compute_atom_weight(pts, atc, z, np.int64(b)))
    per_atom("atom:cutoff=0.45", "atom", lambda b: bw.compute_atom_weight(pts, atc, z, b, cutoff=0.45))
    whole("call:atnums=int32", lambda: bw(stacked, atc, z.astype(np.int32), idx))
    whole("call:fortran-order", lambda: bw(np.asfortranarray(stacked), np.asfortranarray(atc), z, idx))
    big_p, big_a = np.zeros((m * n, 6)), np.zeros((m, 5))
    big_p[:, ::2] = stacked
    big_a[:, 1:4] = atc
    whole("call:strided-views", lambda: bw(big_p[:, ::2], big_a[:, 1:4], z, idx))
    ro_p, ro_a, ro_z, ro_i = stacked.copy(), atc.copy(), z.copy(), idx.copy()
    for a in (ro_p, ro_a, ro_z, ro_i):
        a.flags.writeable = False
    whole("call:read-only", lambda: bw(ro_p, ro_a, ro_z, ro_i))
    per_atom("atom:read-only", "atom", lambda b: bw.compute_atom_weight(ro_p[:n], ro_a, ro_z, b))
    per_atom("generate:read-only", "generate:select", lambda b: bw.generate_weights(ro_p[:n], ro_a, ro_z, select=b))
    whole("call:longdouble", lambda: bw(stacked.astype(np.longdouble), atc.astype(np.longdouble), z, idx))
    return out


def _audit_worker(job):
    """X2 + X3.  Returns (count, violations, maxima, distinct keys)."""
    px_path, radii_of, seed, count, undefined = job
    programs = _load_json(px_path)
    rng = np.random.default_rng(seed)
    impl = []
    mx = {k: 0.0 for k in ("route", "spec_3d", "unity", "forms", "state", "float32")}
    keys = []
    shared = {}
    first = None
    for it in range(count):
        kind = ("many-atoms", "high-order", "close", "distant", "lattice")[(it + seed) % 5]
        order = 3
        if kind == "many-atoms":
            m = int(rng.integers(10, MAX_ATOMS_X + 1))
            atc = _random_geometry(rng, m)
        elif kind == "high-order":
            m = int(rng.integers(1, 7))
            order = int(rng.integers(4, MAX_ORDER_X + 1))
            atc = _random_geometry(rng, m)
        elif kind == "close":
            m = int(rng.integers(2, 6))
            atc = _random_geometry(rng, m) * float(rng.uniform(0.05, 0.5))     # shortest distance down to 0.045
        elif kind == "distant":
            m = int(rng.integers(2, 6))
            atc = _random_geometry(rng, m) * float(rng.uniform(10, 60)) + rng.normal(size=3) * float(10 ** rng.uniform(1, 4))
        else:
            m = int(rng.integers(2, 7))
            cells = rng.permutation(9 ** 3)[:m]
            atc = np.stack([cells // 81 - 4, (cells // 9) % 9 - 4, cells % 9 - 4], axis=1).astype(float)
        z = np.array(rng.integers(1, 87, size=m), dtype=int)
        if rng.random() < 0.35:
            z[rng.integers(0, m)] = int(rng.choice(undefined))
        if kind == "lattice":
            pts = np.vstack([rng.integers(-6, 7, size=(10, 3)).astype(float), atc])
            nuc0 = 10
        elif kind == "close":
            spread = float(np.max(np.abs(atc - atc.mean(axis=0)))) + 0.05
            pts = np.vstack([atc[rng.integers(0, m, size=10)] + rng.normal(size=(10, 3)) * spread,
                             atc.mean(axis=0) + rng.normal(size=(3, 3)) * 30, atc])
            nuc0 = 13
        elif kind == "distant":
            pts = np.vstack([atc[rng.integers(0, m, size=12)] + rng.normal(size=(12, 3)) * 2.0, atc])
            nuc0 = 12
        else:
            pts, nuc0 = _points_for(rng, atc)
        key = f"seed={seed}:case={it}:{kind}:M={m}:order={order}:Z={z.tolist()}"
        case = {"atcoords": atc, "atnums": z, "order": order, "points": pts, "kind": kind}
        keys.append((kind, m, order, tuple(sorted(z.tolist()))))
        scale = _scale_of(atc, pts)
        keep = (atc.copy(), z.copy(), pts.copy())
        bw = _becke(order)
        got, err = routes(bw, pts, atc, z)
        ent = programs["dim3"][m - 1][order - 1]
        want = _spec_run(ent, [radii_of[int(v)] for v in z], atc, pts) if ent["prog"] else None
        _judge(impl, mx, key, case, got, err, want, scale, nuc0, m)
        if not got:
            continue
        # X3 argument forms
        for name, ref, v, e in _forms(bw, pts, atc, z, got):
            if e is not None:
                impl.append((f"form:raise:{name}:{key}", f"{name} raised {e}", case))
            elif ref in got:
                # extended-precision inputs are MORE accurate than the float64 reference: judged like the
                # specification (error of the reference grows with r / dmin), everything else like route agreement
                ld = name.endswith("longdouble")
                dev = np.abs(np.nan_to_num(v - got[ref], nan=np.inf)) / (scale if ld else 1.0)
                d = float(np.max(dev))
                mx["forms"] = max(mx["forms"], d if np.isfinite(d) else 0.0)
                mx["forms:" + name] = max(mx.get("forms:" + name, 0.0), d if np.isfinite(d) else 0.0)
                if not d <= (_TOL["spec_3d"] if ld else _TOL["route"]):
                    impl.append((f"form:{name}:{key}", f"{name} differs from route {ref} by {d:.3e}" + (" (scaled)" if ld else ""), case))
        if kind == "lattice" and "call" in got:   # integer coordinates handed over as integers
            m_, n_ = m, len(pts)
            v, e = _call(bw, np.tile(pts, (m_, 1)).astype(np.int64), atc.astype(np.int64), z, np.arange(m_ + 1) * n_)
            if e is not None or v.shape != (m_ * n_,):
                impl.append((f"form:raise:call:int64-coordinates:{key}", f"integer-typed coordinates: {e or v.shape}", case))
            elif not np.max(np.abs(v.reshape(m_, n_) - got["call"])) <= _TOL["route"]:
                impl.append((f"form:call:int64-coordinates:{key}", "integer-typed coordinates give other weights than the same "
                             f"values as floats (diff {np.max(np.abs(v.reshape(m_, n_) - got['call'])):.3e})", case))
        if kind in ("many-atoms", "lattice") and "atom" in got:    # float32 inputs (order 3: slope of the cell function <= 3.4)
            p32, a32 = pts.astype(np.float32), atc.astype(np.float32)
            r64, e1 = _stack(lambda b: bw.compute_atom_weight(p32.astype(float), a32.astype(float), z, b), m, len(pts))
            r32, e2 = _stack(lambda b: bw.compute_atom_weight(p32, a32, z, b), m, len(pts))
            ok32 = np.min(np.linalg.norm(a32[:, None].astype(float) - a32[None].astype(float), axis=-1) + np.eye(m) * 9) > 0.5
            if e2 is not None:
                impl.append((f"form:raise:atom:float32:{key}", f"float32 coordinates: {e2}", case))
            elif e1 is None and ok32:
                near = scale < 8
                d = float(np.max(np.abs(r32 - r64)[:, near])) if near.any() else 0.0
                mx["float32"] = max(mx["float32"], d if np.isfinite(d) else 0.0)
                if not d <= _TOL["float32"]:
                    impl.append((f"form:atom:float32:{key}", f"float32 coordinates change the weights by {d:.3e}", case))
        if not (np.array_equal(keep[0], atc) and np.array_equal(keep[1], z) and np.array_equal(keep[2], pts)):
            impl.append((f"state:inputs-modified:{key}", "a route modified the caller's atcoords / atnums / points", case))
            atc, z, pts = keep
        # one instance reused for different molecules; custom radii must not leak into other instances
        if "call" in got:
            sh = shared.setdefault(order, _becke(order))
            z_other = np.array([int(q) for q in rng.integers(1, 87, size=m)])
            routes(sh, pts[:3], atc, z_other)              # same number of atoms, other elements, just before
            routes(sh, pts[:3], atc[::-1] * 1.25, z)       # same elements, other geometry
            v, _ = routes(sh, pts, atc, z)
            d = float(np.max(np.abs(v["call"] - got["call"]))) if "call" in v else float("inf")
            mx["state"] = max(mx["state"], d if np.isfinite(d) else 0.0)
            if not d <= _TOL["route"]:
                impl.append((f"state:reused-instance:{key}", "an instance that evaluated other molecules before gives other "
                             f"weights than a fresh one (diff {d:.3e})", case))
            # the caller's OWN atomic-number array, edited in place between two calls on one instance (other elements
            # first, then this molecule's): what is evaluated is the molecule the array describes NOW
            zz = z_other.copy()
            routes(sh, pts[:3], atc, zz)
            zz[...] = z
            v, _ = routes(sh, pts, atc, zz)
            d = float(np.max(np.abs(v["call"] - got["call"]))) if "call" in v else float("inf")
            mx["state"] = max(mx["state"], d if np.isfinite(d) else 0.0)
            if not d <= _TOL["route"]:
                impl.append((f"state:reused-instance:atnums-edited-in-place:{key}", "an instance called again after the caller edited "
                             f"its atomic-number array in place still uses the elements of the earlier call (diff {d:.3e})", case))
            if first is None:
                first = (order, atc, z, pts, got["call"], key, case)
            custom = _becke(order, {int(v_): 7.7 + 0.1 * i for i, v_ in enumerate(sorted(set(z.tolist())))})
            routes(custom, pts[:2], atc, z)
            v, _ = routes(_becke(order), pts, atc, z)
            d = float(np.max(np.abs(v["call"] - got["call"]))) if "call" in v else float("inf")
            mx["state"] = max(mx["state"], d if np.isfinite(d) else 0.0)
            if not d <= _TOL["route"]:
                impl.append((f"state:radii-leak:{key}", "after another instance was built with custom radii a default "
                             f"instance gives other weights (diff {d:.3e})", case))
    if first is not None and first[0] in shared:
        order, atc, z, pts, ref, key, case = first
        v, _ = routes(shared[order], pts, atc, z)
        d = float(np.max(np.abs(v["call"] - ref))) if "call" in v else float("inf")
        if not d <= _TOL["route"]:
            impl.append((f"state:reused-instance:again:{key}", f"the first molecule evaluated again at the end differs by {d:.3e}", case))
    return count, impl, mx, keys


# ---- X4: radii overrides x fall-back, user cut-off ------------------------------------------------

def _scenarios(rep, rng, scenarios, programs, defined, per):
    """BeckeWeights(radii={z: value | nan}): the element table of the scenario (TLC: ScenarioTable) says whose radius
    every element uses; the library must reproduce the spec program run with exactly those radii."""
    mx = 0.0
    for si, sc in enumerate(scenarios):
        table = {int(z): int(src) for z, src in sc["table"]}
        override = {int(z): 1.1 + 0.37 * k for k, z in enumerate(sorted(sc["add"]))}
        value = dict(defined)
        value.update(override)
        override.update({int(z): float("nan") for z in sc["del"]})
        base = {z: (z if z in defined else (z - 1 if z - 1 in defined else z - 2)) for z in table}
        affected = sorted(z for z in table if table[z] != base[z] or z in sc["add"])
        for rnd in range(per):
            m = int(rng.integers(2, 5))
            atc = _random_geometry(rng, m)
            z = np.array([int(v) for v in rng.integers(1, 87, size=m)])
            z[int(rng.integers(0, m))] = affected[(rnd + si) % len(affected)]
            pts, nuc0 = _points_for(rng, atc)
            order = 3
            key = f"scenario={si}:add={sorted(sc['add'])}:del={sorted(sc['del'])}:Z={z.tolist()}"
            case = {"atcoords": atc, "atnums": z, "points": pts, "radii_override": {k: repr(v) for k, v in override.items()}}
            rep.evaluated(1, ("scenario", si, tuple(z.tolist())))
            bw, e = None, None
            try:
                bw = _becke(order, dict(override))
            except Exception as ex:  # noqa: BLE001
                e = f"{type(ex).__name__}: {ex}"
            if bw is None:
                rep.violation(f"override:raise:{key}", f"BeckeWeights(radii={override}) raised {e}", case)
                continue
            got, err = routes(bw, pts, atc, z)
            want = _spec_run(programs["dim3"][m - 1][order - 1], [value[table[int(v)]] for v in z], atc, pts)
            for r, e in err.items():
                rep.violation(f"override:raise:{r}:{key}", f"route {r} raised {e}", case)
            scale = _scale_of(atc, pts)
            for r, v in got.items():
                d = float(np.max(np.nan_to_num(np.abs(v - want) / scale, nan=np.inf)))
                mx = max(mx, d if np.isfinite(d) else 0.0)
                if not d <= _TOL["spec_3d"]:
                    rep.violation(f"override:{r}:{key}", f"route {r} with radii override {override}: weights differ by {d:.3e} "
                                  f"(scaled) from the specification run with the radii of elements {[table[int(v)] for v in z]}", case)
    return mx


def _cutoff(rep, rng, programs, radii_of, ncases):
    """compute_atom_weight(..., cutoff=c), c < 1/2: a partition of unity equal to the specification run with the
    cut-off c (parameter honoured) or with 0.45 (parameter ignored; the routes without the parameter use 0.45)."""
    mx = 0.0
    verdicts = {}
    for it in range(ncases):
        m = int(rng.integers(1, 6))
        order = int(rng.choice([1, 2, 3]))
        atc = _random_geometry(rng, m)
        # radius ratios beyond 2.4 make the raw value exceed every cut-off tried
        z = np.array([int(v) for v in rng.choice([1, 3, 6, 8, 11, 19, 37, 55, 9, 17], size=m)])
        pts, nuc0 = _points_for(rng, atc)
        scale = _scale_of(atc, pts)
        bw = _becke(order)
        ent = programs["dim3c"][m - 1][order - 1]
        for c in (0.1, 0.3, 0.45, 0.49):
            key = f"cutoff={c}:case={it}:M={m}:order={order}:Z={z.tolist()}"
            case = {"atcoords": atc, "atnums": z, "points": pts, "order": order, "cutoff": c}
            rep.evaluated(1, ("cutoff", c, m, order))
            v, e = _stack(lambda b: bw.compute_atom_weight(pts, atc, z, b, cutoff=c), m, len(pts))
            if e is not None:
                rep.violation(f"cutoff:raise:{key}", f"compute_atom_weight(cutoff={c}) raised {e}", case)
                continue
            impl = []
            loc = {"route": 0.0, "unity": 0.0, "spec_3d": 0.0}
            _judge(impl, loc, key, dict(case), {"atom:cutoff": v}, {}, None, scale, nuc0, m)
            for k_, w_, c_ in impl:
                rep.violation("cutoff:" + k_, w_, c_)
            rad = [radii_of[int(q)] for q in z]
            dev = {}
            for name, cc in (("honoured", c), ("ignored", 0.45)):
                want = _spec_run(ent, rad, atc, pts, cut=cc)
                dev[name] = float(np.max(np.nan_to_num(np.abs(v - want) / scale, nan=np.inf)))
            best = min(dev, key=dev.get)
            mx = max(mx, dev[best])
            if not dev[best] <= _TOL["spec_3d"]:
                rep.violation(f"cutoff:value:{key}", f"compute_atom_weight(cutoff={c}) is neither the Becke weight with cut-off {c} "
                              f"(diff {dev['honoured']:.3e}) nor with the default 0.45 (diff {dev['ignored']:.3e})", case)
            elif c != 0.45 and abs(dev["honoured"] - dev["ignored"]) > 1e-6:
                verdicts[best] = verdicts.get(best, 0) + 1
    rep.set("compute_atom_weight_cutoff_parameter", verdicts)
    return mx


# ---- X5: Hirshfeld against the tabulated pro-atom data ---------------------------------------------

def proatom_tables():
    """{Z: (r, density)} read from the data files shipped with /repo (grid/data/proatoms/aZZZ.npz)."""
    import os
    import re
    import grid
    d = os.path.join(os.path.dirname(grid.__file__), "data", "proatoms")
    out = {}
    for f in sorted(os.listdir(d)):
        mt = re.fullmatch(r"a(\d{3})\.npz", f)
        if mt:
            with np.load(os.path.join(d, f)) as data:
                out[int(mt.group(1))] = (np.array(data["r"], dtype=float), np.array(data["dn"], dtype=float))
    return out


def _hirshfeld_table(rep, rng, programs, ncases):
    """Two atoms A, B and points on the circle where the sphere of tabulated radius r_i around A meets the sphere of
    tabulated radius r_j around B: both pro-atom densities are table entries, whatever the interpolation in between,
    so the share is known from the data alone (spec: HirshProgram).  Plus: rigid motion and relabelling."""
    from grid.hirshfeld import HirshfeldWeights
    tabs = proatom_tables()
    rep.set("proatom_elements", sorted(tabs))
    if not tabs:
        raise tlc.MachineryError("no pro-atom tables found in grid/data/proatoms")
    hw = HirshfeldWeights()
    zs = sorted(tabs)
    good = {z: np.where((tabs[z][0] >= 0.02) & (tabs[z][0] <= 6.0) & (tabs[z][1] >= 1e-6))[0] for z in zs}
    mx = {"hirsh_table": 0.0, "hirsh_rigid": 0.0}
    prog = programs["hirsh"][1]
    for it in range(ncases):
        za, zb = int(zs[it % len(zs)]), int(zs[(it // len(zs) + it) % len(zs)])
        pts, ra, rb = [], [], []
        rot = _random_orthogonal(rng)
        shift = rng.normal(size=3) * 2
        for _ in range(40):
            i, j = int(rng.choice(good[za])), int(rng.choice(good[zb]))
            r1, r2 = tabs[za][0][i], tabs[zb][0][j]
            lo, hi = abs(r1 - r2), r1 + r2
            if hi - lo < 0.2 or len(pts) >= 8:
                continue
            pts.append((i, j))
        if not pts:
            continue
        # one internuclear distance for all points of the case: choose it inside every (lo, hi) if possible
        los = [abs(tabs[za][0][i] - tabs[zb][0][j]) for i, j in pts]
        his = [tabs[za][0][i] + tabs[zb][0][j] for i, j in pts]
        d = float(rng.uniform(0.7, 3.0))
        sel = [(i, j) for (i, j), lo, hi in zip(pts, los, his) if lo + 0.05 < d < hi - 0.05]
        if not sel:
            continue
        xyz = []
        for i, j in sel:
            r1, r2 = tabs[za][0][i], tabs[zb][0][j]
            x = (d * d + r1 * r1 - r2 * r2) / (2 * d)
            h = np.sqrt(max(r1 * r1 - x * x, 0.0))
            phi = rng.uniform(0, 2 * np.pi)
            xyz.append([h * np.cos(phi), h * np.sin(phi), x])
        atc = np.array([[0.0, 0.0, 0.0], [0.0, 0.0, d]]) @ rot.T + shift
        xyz = np.array(xyz) @ rot.T + shift
        # keep the points whose distances, as the library will compute them, hit the tabulated radii to 1e-13
        # (|d ln rho / dr| <= 2 Z <= 16 on the knots used, so the density is reproduced to 2e-12 relative)
        da = np.linalg.norm(xyz - atc[0], axis=1)
        db = np.linalg.norm(xyz - atc[1], axis=1)
        ok = [k for k, (i, j) in enumerate(sel)
              if abs(da[k] - tabs[za][0][i]) <= 1e-13 and abs(db[k] - tabs[zb][0][j]) <= 1e-13]
        if not ok:
            continue
        xyz = xyz[ok]
        sel = [sel[k] for k in ok]
        rho_a = np.array([tabs[za][1][i] for i, _ in sel])
        rho_b = np.array([tabs[zb][1][j] for _, j in sel])
        n = len(sel)
        case = {"atcoords": atc, "atnums": [za, zb], "points": xyz, "knots": sel}
        rep.evaluated(1, ("hirshfeld-table", za, zb, n))
        key = f"Z={za},{zb}:case={it}"
        e = run_program(prog["prog"], {prog["io"]["rho"][0]: rho_a, prog["io"]["rho"][1]: rho_b}, "np")
        want = np.array([np.asarray(e[o], dtype=float) for o in prog["io"]["outputs"]])   # (2, n)
        for b, (zz, rr) in enumerate(((za, rho_a), (zb, rho_b))):
            v, err = _call(HirshfeldWeights.generate_proatom, xyz, atc[b], zz)
            if err is not None or v.shape != (n,):
                rep.violation(f"hirshfeld:table:proatom:raise:{key}", f"generate_proatom raised / mis-shaped: {err}", case)
                continue
            dd = float(np.max(np.abs(v - rr) / rr))
            mx["hirsh_table"] = max(mx["hirsh_table"], dd)
            if not dd <= _TOL["hirsh_table"]:
                rep.violation(f"hirshfeld:table:proatom:Z={zz}:case={it}", f"pro-atom density of element {zz} at a tabulated radius "
                              f"differs from the tabulated value by {dd:.3e} (relative)", case)
        got, err = _call(hw, np.vstack([xyz, xyz]), atc, np.array([za, zb]), np.array([0, n, 2 * n]))
        if err is not None or got.shape != (2 * n,):
            rep.violation(f"hirshfeld:table:raise:{key}", f"HirshfeldWeights() raised / mis-shaped: {err}", case)
            continue
        dd = float(np.max(np.abs(got.reshape(2, n) - want)))
        mx["hirsh_table"] = max(mx["hirsh_table"], dd)
        if not dd <= _TOL["hirsh_table"]:
            rep.violation(f"hirshfeld:table:share:{key}", f"Hirshfeld weights at tabulated radii differ by {dd:.3e} from the share "
                          "of the tabulated densities", case)
    # rigid motion and relabelling (near points only: beyond the tables the extrapolated tails are ill-conditioned)
    for it in range(ncases):
        m = int(rng.integers(1, 6))
        atc = _random_geometry(rng, m, dmin=1.2)
        z = np.array([int(v) for v in rng.choice(zs, size=m)])
        n = int(rng.integers(2, 12))
        pts = atc[rng.integers(0, m, size=n)] + rng.normal(size=(n, 3)) * 0.8
        idx = np.arange(m + 1) * n
        st = np.tile(pts, (m, 1))
        case = {"atcoords": atc, "atnums": z, "points": pts}
        ref, e = _call(hw, st, atc, z, idx)
        if e is not None:
            continue   # reported by the share clause
        rep.evaluated(1, ("hirshfeld-rigid", m, tuple(z.tolist())))
        rot, shift = _random_orthogonal(rng), rng.normal(size=3) * 3
        v, e = _call(hw, st @ rot.T + shift, atc @ rot.T + shift, z, idx)
        dd = float(np.max(np.abs(v - ref))) if e is None and v.shape == ref.shape else float("inf")
        mx["hirsh_rigid"] = max(mx["hirsh_rigid"], dd if np.isfinite(dd) else 0.0)
        if not dd <= _TOL["hirsh_rigid"]:
            rep.violation(f"hirshfeld:rigid-motion:M={m}:Z={z.tolist()}", f"Hirshfeld weights change by {dd:.3e} under a rigid motion ({e})", case)
        perm = rng.permutation(m)
        v, e = _call(hw, st, atc[perm], z[perm], idx)
        dd = float(np.max(np.abs(v.reshape(m, n) - ref.reshape(m, n)[perm]))) if e is None and v.shape == ref.shape else float("inf")
        mx["hirsh_rigid"] = max(mx["hirsh_rigid"], dd if np.isfinite(dd) else 0.0)
        if not dd <= _TOL["hirsh_rigid"]:
            rep.violation(f"hirshfeld:relabel:M={m}:Z={z.tolist()}", f"Hirshfeld weights change by {dd:.3e} when atoms are listed as {perm.tolist()} ({e})", case)
    return mx


def _report_some(rep, items, counter_name):
    seen = {}
    for it in items:
        key, what = it[0], it[1]
        case = it[2] if len(it) > 2 else None
        cat = key.split(":M=")[0].split(":seed=")[0]
        seen[cat] = seen.get(cat, 0) + 1
        if seen[cat] <= MAX_REPORT:
            rep.violation(key, what, case)
    if seen:
        rep.set(counter_name, seen)


def run(tier: str) -> int:
    rep = Report(PROP, tier, "model_checking")
    rng = np.random.default_rng(rep.seed)
    import os
    # the selftest works in its own scratch directory so that it cannot collide with a concurrent ./check C06
    wd = tlc.scratch(os.environ.get("VERIF_C06_SCRATCH") or f"{PROP}-{tier}")
    quick = tier == "quick"
    maxm, maxn = (5, 10) if quick else (6, 14)
    defined = defined_radii()
    write_tables(wd, maxm, maxn, 9, defined)
    (wd / "obs_becke.json").write_text("[]")

    import time
    t0 = time.time()
    phases = {}

    def mark(name):
        nonlocal t0
        phases[name] = round(time.time() - t0, 1)
        t0 = time.time()

    pool = mp.get_context("fork").Pool(8)
    try:
        # ---- 2. algebra: lemmas, exact identities, emission ---------------------------------
        res = tlc.run_tlc("Becke", "MC_BeckeAlg.cfg", wd, workers=8, timeout=900).require_ok("MC_BeckeAlg")
        rep.tlc(res, "MC_BeckeAlg")
        for t in tlc.tagged(res.stdout, "LAWFAIL"):
            rep.violation(f"model:law:{t[1]}", f"TLC: law {t[1]} of spec/Becke.tla is false")
        if res.status == "violation":
            st = tlc.last_state(res)
            rep.violation(f"model:{','.join(res.violated)}", f"TLC: invariant(s) {res.violated} violated; last state {st}", st)
        try:
            geoms = json.load(open(wd / "becke_geoms.json"))
            points = json.load(open(wd / "becke_points.json"))
            programs = json.load(open(wd / "becke_programs.json"))
            fallback = [tuple(x) for x in json.load(open(wd / "becke_fallback.json"))]
            programs_x = _load_json(wd / "becke_programs_x.json", fresh=True)
            scenarios = json.load(open(wd / "becke_scenarios.json"))
        except FileNotFoundError as e:
            raise tlc.MachineryError(f"TLC did not emit {e.filename}")
        geoms.sort(key=lambda g: json.dumps(g, sort_keys=True))
        fallback.sort()
        mark("tlc_algebra")

        # ---- 3. chunking ---------------------------------------------------------------------
        obs, ntab = observe_chunks(maxm, maxn, pool)
        with open(wd / "obs_becke.json", "w") as f:
            json.dump(obs, f)
        # audit extension X1: larger / differently typed cases, the empty grid, Hirshfeld ownership
        xcases = extra_cases(rep.seed, quick)
        obs_x, obs_zero = observe_extra(xcases, maxm, pool)
        for name, val in (("extra_becke.json", xcases), ("obs_extra_becke.json", obs_x), ("obs_zero_becke.json", obs_zero)):
            with open(wd / name, "w") as f:
                json.dump(val, f)
        rep.evaluated(len(xcases) * len(ROUTES_X), None)
        for c in xcases:
            rep.evaluated(0, ("chunk-extra", c["M"], c["N"]))
        rep.set("extra_chunk_cases", len(xcases))
        mark("observe_chunks")
        res = tlc.run_tlc("Becke", "MC_BeckeChunk.cfg", wd, workers=8, timeout=1500).require_ok("MC_BeckeChunk")
        rep.tlc(res, "MC_BeckeChunk")
        if res.status == "violation":
            st = tlc.last_state(res)
            rep.violation(f"model:{','.join(res.violated)}:{st.get('cs')}",
                          f"TLC: invariant(s) {res.violated} of the chunk model violated; last state {st}", st)
        mism = tlc.tagged(res.stdout, "MISMATCH")
        items = []
        for _, route, m, n, idx, want, got in mism:
            items.append((f"chunk:{route}:M={m}:N={n}:idx={idx}",
                          f"route {route}, {m} atoms, {n} points, index table {idx}: per-point codes (sum over atoms t of "
                          f"times-received * 4^(t-1)) expected {want}, observed {got} (<<-1>> raised, <<-2>> non-integer)",
                          {"route": route, "M": m, "N": n, "idx": idx, "expected": want, "observed": got}))
        _report_some(rep, items, "chunk_mismatches")
        rep.evaluated(ntab * 3, None)
        for m in range(1, maxm + 1):
            for n in range(1, maxn + 1):
                rep.evaluated(0, ("chunk", m, n))
        rep.set("index_tables_observed", ntab)
        rep.sample({"chunk_case": {"M": 4, "N": 3, "idx": [0, 1, 1, 2, 3]}, "observed_codes": obs[3][2][1][1][2]})
        mark("tlc_chunk")
        # seeded variants of the algorithm must be rejected by the same invariants
        detected = {}
        for v in (("noclip",) if quick else ("noclip", "shiftplus", "unsigned")):
            cfg = wd / f"V_{v}.cfg"
            cfg.write_text(f'CONSTANT Variant = "{v}"\nINIT InitChunk\nNEXT NextChunk\n'
                           "INVARIANT ChunkedEqualsDefinition\nINVARIANT NeverTwiceNeverForeign\nINVARIANT ChunkPrefix\n")
            rv = tlc.run_tlc("Becke", cfg, wd, workers=4, timeout=600).require_ok(v)
            detected[v] = rv.violated
        rep.set("spec_variants_rejected", detected)
        if not all(detected.values()):
            raise tlc.MachineryError(f"chunk model does not distinguish a seeded variant: {detected}")

        mark("tlc_variants")
        # ---- 4a. rational geometries -----------------------------------------------------------
        if quick:
            pick = sorted(rng.choice(len(geoms), size=320, replace=False).tolist())
            sel = [geoms[i] for i in pick]
        else:
            sel = geoms
        jobs = [(sel[i::48], points, programs, rep.seed * 1000 + i) for i in range(48)]
        model, impl = [], []
        mx = {}
        nontriv = 0
        for n, mo, im, m_, nt in pool.imap_unordered(_rational_worker, jobs):
            model += mo
            impl += im
            nontriv += nt
            for k, v in m_.items():
                mx[k] = max(mx.get(k, 0.0), v)
        for g in sel:
            rep.evaluated(1, ("rational", g["M"], g["order"], json.dumps(g["pos"]), json.dumps(g["rad"])))
        _report_some(rep, sorted(model), "model_violations")
        _report_some(rep, sorted(impl, key=lambda t: t[0]), "rational_violations")
        rep.set("rational_geometries", len(sel))
        rep.set("rational_weights_strictly_inside_0_1", nontriv)
        rep.sample({"rational_geometry": sel[len(sel) // 2], "points": points})

        mark("rational_replay")
        # ---- 4b. random 3-D geometries -----------------------------------------------------------
        radii_of = {z: defined[src] for z, src in fallback}
        radii_of.update(defined)
        undefined = [z for z, _ in fallback]
        ngeo = 400 if quick else 8000
        per = ngeo // 80
        jobs = [(programs, radii_of, rep.seed * 100000 + i, per, undefined) for i in range(80)]
        impl = []
        for n, im, m_, keys in pool.imap_unordered(_geometry_worker, jobs):
            impl += im
            for k, v in m_.items():
                mx[k] = max(mx.get(k, 0.0), v)
            for k in keys:
                rep.evaluated(1, ("3d",) + k)
        _report_some(rep, sorted(impl, key=lambda t: t[0]), "geometry_violations")
        rep.set("random_geometries", per * 80)
        if mx.get("np_vs_mp", 0.0) > 1e-15:
            raise tlc.MachineryError(f"vectorised evaluator deviates from the 50-digit evaluator by {mx['np_vs_mp']:.3e}")
        mark("geometry_replay")
        # ---- audit extension X2 / X3 ---------------------------------------------------------------
        njobs, per = (40, 2) if quick else (80, 20)
        jobs = [(str(wd / "becke_programs_x.json"), radii_of, rep.seed * 100000 + 50000 + i, per, undefined) for i in range(njobs)]
        impl = []
        # a second pool, forked now: the workers inherit the already loaded extended programs (_PROG_CACHE) instead of
        # reading the scratch directory again (the first pool is idle meanwhile)
        with mp.get_context("fork").Pool(8) as pool_x:
            for n, im, m_, keys in pool_x.imap_unordered(_audit_worker, jobs):
                impl += im
                for k, v in m_.items():
                    mx[k] = max(mx.get(k, 0.0), v)
                for k in keys:
                    rep.evaluated(1, ("3dx",) + k)
        _report_some(rep, sorted(impl, key=lambda t: t[0]), "audit_geometry_violations")
        rep.set("audit_geometries", njobs * per)
        mark("audit_replay")
    finally:
        pool.close()
        pool.join()

    # ---- segment semantics, fall-back, Hirshfeld -----------------------------------------------
    _segment_semantics(rep, rng)
    _fallback(rep, rng, fallback, defined, 2 if quick else 12)
    mx["hirshfeld"] = _hirshfeld(rep, rng, 60 if quick else 1000)

    mark("segments_fallback_hirshfeld")
    # ---- audit extension X4 / X5 -------------------------------------------------------------------
    mx["override"] = _scenarios(rep, rng, scenarios, programs_x, defined, 2 if quick else 12)
    mx["cutoff"] = _cutoff(rep, rng, programs_x, radii_of, 6 if quick else 80)
    mx.update(_hirshfeld_table(rep, rng, programs_x, 16 if quick else 300))
    rep.sample({"radii_override_scenarios_from_spec": [{"add": s_["add"], "del": s_["del"]} for s_ in scenarios]})
    mark("overrides_cutoff_hirshfeld_table")
    rep.set("phase_wall_s", phases)
    rep.set("max_deviation_measured", {k: float(f"{v:.3e}") for k, v in sorted(mx.items())})
    rep.set("tolerances", _TOL)
    rep.set("traces_validated_against_impl", rep.evaluations)
    rep.set("exhaustive", not quick)
    rep.set("rule", "one case = one index table x route (TLC-judged), one emitted rational geometry (14 points, 6 routes), "
                    "one random geometry (about 20 points, 6 routes + rigid motion + permutation), one fall-back pair, one "
                    "Hirshfeld table; distinct = distinct (kind, atoms, order/table/elements)")
    rep.sample({"fallback_from_spec": fallback})
    rep.assume("NumPy basic-slice semantics are transcribed in Becke.tla (NormIdx/Slice); the library is bound to the model by the integer observations")
    rep.assume("exact identities for order 3 / heteronuclear / 4 atoms are evaluated by Python Fractions on the TLC-emitted program (32-bit overflow in TLC)")
    return rep.finish()


def replay(path: str) -> int:
    with open(path) as f:
        v = json.load(f)
    print("replay: rerunning the quick tier with the recorded seed; recorded violation:", v.get("key"))
    import os
    os.environ["VERIF_SEED"] = str(v.get("seed", 0))
    return run(v.get("tier", "quick"))


MUTANTS = [
    ("call: clip(min=0) dropped", "grid.becke", "pt_ind=(indices - ibegin).clip(min=0),", "pt_ind=(indices - ibegin),"),
    ("call: clip also from above", "grid.becke", "pt_ind=(indices - ibegin).clip(min=0),",
     "pt_ind=(indices - ibegin).clip(min=0, max=chunk_size - 1),"),
    ("call: shift sign", "grid.becke", "pt_ind=(indices - ibegin).clip(min=0),", "pt_ind=(indices + ibegin).clip(min=0),"),
    ("call: chunk slice one too long", "grid.becke", "points[ibegin : ibegin + chunk_size],", "points[ibegin : ibegin + chunk_size + 1],"),
    ("alpha: cutoff 0.55", "grid.becke", "def _calculate_alpha(radii, cutoff=0.45):", "def _calculate_alpha(radii, cutoff=0.55):"),
    ("alpha: lower clip missing", "grid.becke", "        alpha[alpha < -cutoff] = -cutoff\n", ""),
    ("alpha: sign of u", "grid.becke", "u_ab = (radii[:, None] - radii) / (radii[:, None] + radii)",
     "u_ab = (radii - radii[:, None]) / (radii[:, None] + radii)"),
    ("switch: one iteration short", "grid.becke", "for _i in range(order):", "for _i in range(max(order - 1, 1)):"),
    ("generate: nan -> 0", "grid.becke", "s_ab[np.isnan(s_ab)] = 1", "s_ab[np.isnan(s_ab)] = 0", 0),
    ("atom route: fall-back two below -> three below", "grid.becke",
     "or np.nan_to_num(self._radii[num - 2])", "or np.nan_to_num(self._radii[num - 3])", 1),
    ("fall-back: element above", "grid.becke", "else np.nan_to_num(self._radii[num - 1]) or", "else np.nan_to_num(self._radii[num + 1]) or", 0),
    ("generate: normalise over all points", "grid.becke", "weights += s_ab[:, select[0]] / np.sum(s_ab, axis=-1)",
     "weights += s_ab[:, select[0]] / np.sum(s_ab, axis=-1).mean()"),
    ("hirshfeld: first element for every atom", "grid.hirshfeld",
     "proatom = HirshfeldWeights.generate_proatom(points, atcoords[index], atnum)",
     "proatom = HirshfeldWeights.generate_proatom(points, atcoords[index], atnums[0])"),
    ("hirshfeld: segment end off by one", "grid.hirshfeld", "start, end = indices[index], indices[index + 1]",
     "start, end = indices[index], indices[index + 1] - 1"),
    # ---- audit extension ----
    ("X1 call: table clipped from above at 12", "grid.becke", "pt_ind=(indices - ibegin).clip(min=0),",
     "pt_ind=(indices - ibegin).clip(min=0, max=12),"),
    ("X1 generate: tuple pt_ind taken for none", "grid.becke", "        if pt_ind is None:\n            pt_ind = []\n",
     "        if pt_ind is None or isinstance(pt_ind, tuple):\n            pt_ind = []\n", 0),
    ("X1 hirshfeld: int32 table ignored", "grid.hirshfeld", "start, end = indices[index], indices[index + 1]",
     "start, end = (indices[index], indices[index + 1]) if np.asarray(indices).dtype != np.int32 else (0, len(points))"),
    ("X2 switch: closed form up to order 3 only", "grid.becke", "for _i in range(order):", "for _i in range(min(order, 3)):"),
    ("X2 generate: product over the first 9 partners", "grid.becke", "        s_ab = np.prod(s_ab, axis=-1)\n",
     "        s_ab = np.prod(s_ab[..., :9], axis=-1) if s_ab.shape[-1] > 9 else np.prod(s_ab, axis=-1)\n", 0),
    ("X3 generate: np.integer select not recognised", "grid.becke", "elif isinstance(select, (np.integer, int)):",
     "elif isinstance(select, int):", 0),
    ("X3 compute: np.integer select not recognised", "grid.becke", "elif isinstance(select, (np.integer, int)):",
     "elif isinstance(select, int):", 1),
    ("X3 generate: one sector honours pt_ind start only", "grid.becke", "            weights += s_ab[:, select[0]] / np.sum(s_ab, axis=-1)\n",
     "            weights[len(pt_ind) // 2:] += (s_ab[:, select[0]] / np.sum(s_ab, axis=-1))[len(pt_ind) // 2:]\n"),
    ("X3 atom: shifts the caller's arrays in place", "grid.becke", "        weights = np.zeros(len(points))\n",
     "        weights = np.zeros(len(points))\n        points -= atcoords[0]\n        atcoords = atcoords - atcoords[0]\n", 1),
    ("X3 radii table shared by all instances", "grid.becke",
     "self._radii = dict([(i + 1, radius) for i, radius in enumerate(data)])",
     "self._radii = globals().setdefault('_SHARED_RADII', dict([(i + 1, radius) for i, radius in enumerate(data)]))"),
    ("X3 alpha cached per number of atoms", "grid.becke", "        alpha = BeckeWeights._calculate_alpha(radii)\n",
     "        alpha = self.__dict__.setdefault('_acache', {}).setdefault(len(radii), BeckeWeights._calculate_alpha(radii))\n", 0),
    ("X4 fall-back reads the built-in table", "grid.becke", "else np.nan_to_num(self._radii[num - 1]) or",
     "else np.nan_to_num(get_cov_radii(np.array([num - 1]), 'bragg')[0]) or", 0),
    ("X4 override of an element without radius ignored", "grid.becke", "            self._radii.update(radii)\n",
     "            self._radii.update({k: v for k, v in radii.items() if not np.isnan(self._radii.get(k, 1.0))})\n"),
    ("X4 atom: user cut-off applied without bound", "grid.becke", "        alpha = BeckeWeights._calculate_alpha(radii)\n",
     "        alpha = BeckeWeights._calculate_alpha(radii, cutoff=(cutoff if cutoff == 0.45 else cutoff + 0.2))\n", 1),
    ("X5 pro-atom: distance scaled", "grid.hirshfeld", "dist = np.linalg.norm(points[:, None] - coord, axis=-1)",
     "dist = np.linalg.norm(points[:, None] - coord, axis=-1) * 1.01"),
    ("X5 pro-atom: city-block distance", "grid.hirshfeld", "dist = np.linalg.norm(points[:, None] - coord, axis=-1)",
     "dist = np.abs(points[:, None] - coord).sum(axis=-1)"),
    ("X5 pro-atom: data of the next lighter tabulated element", "grid.hirshfeld",
     'data = np.load(files("grid.data.proatoms").joinpath(f"a{num:03d}.npz"))',
     'data = np.load(files("grid.data.proatoms").joinpath(f"a{(6 if num == 7 else num):03d}.npz"))'),
]


def selftest(tier: str) -> int:
    import os
    from ..mutate import run_mutants
    os.environ["VERIF_C06_SCRATCH"] = f"{PROP}-selftest-{tier}-wd"
    try:
        return run_mutants(PROP, run, tier, MUTANTS)
    finally:
        os.environ.pop("VERIF_C06_SCRATCH", None)
