"""C07 - a molecular grid is the weighted concatenation of its atomic grids.

Flow (DESIGN.md section 5, C07; specification spec/MolGrid.tla, which EXTENDS AtomGrid.tla):
 1. Tables (supported angular sizes, preset tables read from the npz files, sizes of the default
    radial grids from grid.utils, sizes of the replay pool of radial grids) are generated.
 2. MC_MolGridGen: TLC decides the static laws (templates admissible for the end-to-end clause,
    fan-out total on the whole option space, the size-free presets constructible for every
    template) and emits (a) every option combination of from_size / from_preset / from_pruned over
    three molecules together with the list of atomic constructions it stands for, (b) all observer
    histories up to MaxHist, (c) the end-to-end obligations with the spec's verdict whether the preset
    can be built with the default radial grids.
 3. MC_MolGridStore: TLC explores all observer histories on the model of the code next to the
    specification of each observer (store flag must be invisible).
 4. Replays: (a) each option combination is built through the convenience constructor AND by hand
    from the spec's list of atomic calls; points, weights, atweights, aim_weights, atcoords,
    indices are compared bit for bit, the callable's arguments are checked, the per-atom
    integral identity and get_atomic_grid are checked; the integer observables go to TLC
    (MC_MolGridFan: indices = prefix sums of the atomic sizes, size, from_size shell arithmetic).
    (b) every history is run on two fresh grids (store on/off); each observation is compared
    between the two and with the specification of the observer.
    (c) end-to-end: MolGrid.from_preset(atnums, atcoords, preset) with rgrid=None for every
    (preset, template): if the spec says constructible the total charge of 10 exponent patterns
    must be reproduced within 1 %; otherwise the documented ValueError is recorded.

Audit round (Part 1x of spec/MolGrid.tla; all of it is replayed in both tiers):
  * weights handed over as an ARRAY to every constructor, callable weights through from_pruned (AimSpec);
  * from_pruned with d_sectors AND s_sectors (s_sectors decide), with neither (documented default degree 50);
  * dictionaries with superfluous entries in decreasing Z; argument representations (int16/int32/uint8 atomic
    numbers, Fortran-ordered / strided coordinates, numpy scalars and arrays for size, radius, sectors) - the
    specification's fan-out does not depend on them (law RepInvisible), so the grid must be bitwise the same;
  * rotation seeds 1 and 2 + 7919*Seed mod 99991; the eight-atom C2H6 with interleaved elements;
  * the plain constructor on atomic grids that differ per atom (radial grid, per-shell degrees, rotation seed),
    sizes judged by TLC from the degree table (FanExpectedSizes, AtomGridDeg);
  * harness relations: arguments and the shared radial grids are left unmodified, the same call twice gives the
    same grid;
  * store histories: get_atomic_grid(-i) and get_atomic_grid(M + j) must be rejected whether or not the atomic
    grids are stored; a second subject (H2O, from_preset, callable weights, Seed-dependent rotation) with all
    histories of length <= 2;
  * end to end: 4 further exponent patterns on the lattice 0.3, 0.4, .., 30.0 chosen from Seed (law
    ExponentsInRange), and every template once more rigidly moved (axis permutation, reflections, translation from
    Seed; laws MovedRigid / MovedAdmissible) with its atoms in reverse order.
  * end to end, sums that populate ONE centre only (the single normalised Gaussian on atom k, exponent over the
    whole lattice 0.3..30.0; every tenth value on veryfine/ultrafine/insane): judged on the templates as typed.
  * templates HBr, FeO, LiF (default radial grids of later rows).
CALIBRATION of the end-to-end clause (the bound is the stated 1e-2, nothing is tuned).  gen/c07_calib2.py: for the
six worst templates, all 24 axis permutations / reflections the moved copies can take, presets coarse and medium:
mean_k max_alpha err_k - a rigorous upper bound for ANY one-Gaussian-per-atom pattern on the lattice - is at most
5.1e-3 (coarse NH3), so the Seed-dependent patterns 11..14 and the moved copies cannot trip the 1 % bound on the
unchanged tree (observed worst over seeds 0..5: 2.7e-3).  Single-centre sums on the templates as typed
(gen/c07_calib.py and the thorough tier): worst that holds 9.76e-3 (coarse NH3 atom 3, exponent 5.1), one that
does not: coarse / crowd / atom 5, 1.03e-2 for exponents 9.4..11.3 - reported (known_findings.d/C07.json).  The
values are deterministic (distance to the bound 2.4e-4 >> rounding); single-centre sums are NOT judged on the moved
copies because there the verdict depends on the orientation (single-atom maxima 3e-3..1.2e-2 over the 24 motions).
A realistic mutant (selftest "default rgrid: rmin not converted", "becke: call drops clip") moves these errors to
several percent.

Tolerances: everything structural is compared bit for bit.  Integral identity sum_A int_A w_A f
vs. mol.integrate(f): relative 1e-12 (measured 4e-16).  End-to-end clause: 1e-2 as stated in the
property (measured worst 2.9e-4, see evidence `e2e_worst`).
"""
from __future__ import annotations

import json
import multiprocessing as mp
import warnings
from fractions import Fraction

import numpy as np

from .. import extract, tlc
from ..evidence import Report
from ..expr_np import evaluate_np
from . import c05

PROP = "C07"
MAX_REPORT = 10
GRID_POOL = {"G1": ([0.5, 1.0, 2.0], [0.3, 0.5, 1.1]),
             "G2": ([0.25, 0.75, 1.5, 3.0], [0.2, 0.4, 0.9, 1.6]),
             "G3": ([0.1, 0.4, 1.0, 2.0, 4.5], [0.1, 0.3, 0.6, 1.2, 2.5])}


def _fr(q):
    return Fraction(int(q[0]), int(q[1]))


def _quiet(f, *a, **k):
    with warnings.catch_warnings():
        warnings.simplefilter("ignore")
        with np.errstate(all="ignore"):
            return f(*a, **k)


def _pool():
    from grid.basegrid import OneDGrid
    return {n: OneDGrid(np.array(p), np.array(w), (0, np.inf)) for n, (p, w) in GRID_POOL.items()}


def default_sizes():
    from grid.utils import _DEFAULT_POWER_RTRANSFORM_PARAMS as D
    return {int(z): int(v[2]) for z, v in D.items()}


def write_tables(wd, maxhist, fanobs_file=None, seed=0):
    tabs = c05.preset_tables()
    presets = [{"name": n, "entries": [
        {"z": z, "kind": t[z][0],
         "rad": [int(x) for x in (t[z][1] if t[z][0] == "counts" else range(len(t[z][1])))],
         "npt": [int(x) for x in t[z][2]], "variants": []} for z in sorted(t)]} for n, t in sorted(tabs.items())]
    with open(wd / "presets.json", "w") as f:
        json.dump(presets, f)
    extract.write_tables_angular(wd, extract.angular_tables())
    c05.write_tables(wd, 3, None, "presets.json")
    (wd / "Tables_molgrid.tla").write_text("\n".join([
        "---- MODULE Tables_molgrid ----",
        "\\* generated by vf/props/c07.py (default radial grid sizes from grid.utils, replay pool, observations)",
        "EXTENDS Integers, Sequences, TLC, Json",
        "DefaultSize == " + tlc.tla(default_sizes()),
        "GridSizes == " + tlc.tla({n: len(p) for n, (p, _) in GRID_POOL.items()}),
        f"MaxHist == {maxhist}",
        f"Seed == {int(seed) % 1000}",
        f'FanObs == JsonDeserialize("{fanobs_file}")' if fanobs_file else "FanObs == <<>>",
        "====", ""]))


class IntAim:
    """Integer-valued atom-in-molecule weights; remembers what it was called with."""

    def __init__(self):
        self.args = None

    def __call__(self, points, atcoords, atnums, indices):
        self.args = (np.array(points), np.array(atcoords), np.array(atnums), np.array(indices))
        w = np.zeros(len(points))
        for k in range(len(indices) - 1):
            w[indices[k]:indices[k + 1]] = k + 2
        return w


def _molecule(mols, k):
    m = mols[k - 1]
    return np.array([int(z) for z in m["z"]]), np.array([[float(_fr(q)) for q in p] for p in m["xyz"]])


def _opt_value(o, pool=None, conv=lambda v: v):
    """Python value of a per-atom option (one | list | dict | none)."""
    sh = o["shape"]
    if sh == "none":
        return None
    if sh == "one":
        return conv(o["v"])
    if sh == "list":
        return [conv(v) for v in o["v"]]
    return {int(p[0]): conv(p[1]) for p in o["v"]}


def aim_values(sizes):
    """The atom-in-molecule weights handed over as an ARRAY (spec: AimSpec what = IntAimValues): exactly
    representable, different on every atom and varying inside an atom."""
    return np.concatenate([k + 2.0 + 0.125 * (np.arange(int(n)) % 5) for k, n in enumerate(sizes)])


def _aim(opt, sizes=None):
    if opt["aim"] == "callable":
        return IntAim()
    if opt["aim"] == "array":
        return aim_values(sizes)
    return None


BASE_REP = {"atnums": "int64", "coords": "c", "scal": "py"}


def _represent(opt, atn, atc):
    """Atomic numbers / coordinates in the representation the option asks for (same values)."""
    r = opt.get("rep", BASE_REP)
    atn = np.asarray(atn).astype(r["atnums"])
    if r["coords"] == "f":
        atc = np.asfortranarray(atc)
    elif r["coords"] == "view":
        big = np.full((len(atc), 6), 7.25)
        big[:, ::2] = atc
        atc = big[:, ::2]
    return atn, atc, r["scal"]


def _sect_value(o, scal):
    def conv(v):
        if isinstance(v, list):
            return np.array([int(x) for x in v], dtype=np.int64) if scal == "np" else [int(x) for x in v]
        return np.int64(int(v)) if scal == "np" else int(v)
    return _opt_value(o, conv=conv)


def convenience_call(opt, mols, pool, sizes=None):
    """(callable, positional arguments, keyword arguments, aim object) of the constructor call an option
    stands for.  `sizes` (of the atomic grids) is only needed when the weights are handed over as an array."""
    from grid.atomgrid import AtomGrid
    from grid.molgrid import MolGrid
    atn, atc = _molecule(mols, opt["mol"])
    atn, atc, scal = _represent(opt, atn, atc)
    aim = _aim(opt, sizes)
    if opt["ctor"] == "direct":
        atgrids = []
        for k, a in enumerate(opt["atoms"]):
            atgrids.append(AtomGrid(pool[a["rgrid"]], degrees=[int(d) for d in a["degrees"]], center=np.array(atc[k]),
                                    rotate=int(a["rotate"])))
        from grid.becke import BeckeWeights
        return MolGrid, [atn, atgrids, BeckeWeights(order=3) if aim is None else aim], dict(store=bool(opt["store"])), aim
    rg = _opt_value(opt["rgrid"], conv=lambda n: pool[n])
    kw = dict(rgrid=rg, aim_weights=aim, rotate=int(opt["rotate"]), store=bool(opt["store"]))
    if opt["ctor"] == "from_size":
        size = np.int64(opt["size"]) if scal == "np" else int(opt["size"])
        return MolGrid.from_size, [atn, atc, size], kw, aim
    if opt["ctor"] == "from_preset":
        return MolGrid.from_preset, [atn, atc, _opt_value(opt["preset"])], kw, aim
    radius = _opt_value(opt["radius"], conv=lambda q: float(_fr(q)))
    if scal == "np":
        radius = np.array(radius) if isinstance(radius, list) else np.float64(radius)
    elif scal == "int" and not isinstance(radius, list):
        assert float(radius).is_integer()
        radius = int(radius)
    rs = [[float(_fr(q)) for q in s] for s in opt["r_sectors"]]
    if scal == "np":
        rs = [np.array(r, dtype=float) for r in rs]
    kind = opt["sect_kind"]
    if kind == "d":
        kw["d_sectors"] = _sect_value(opt["sect"], scal)
    elif kind == "s":
        kw["s_sectors"] = _sect_value(opt["sect"], scal)
    elif kind == "both":
        kw["d_sectors"] = _sect_value(opt["dsect"], scal)
        kw["s_sectors"] = _sect_value(opt["sect"], scal)
    elif kind != "default":
        raise tlc.MachineryError(f"unknown sect_kind {kind!r}")
    return MolGrid.from_pruned, [atn, atc, radius, rs], kw, aim


def build_convenience(opt, mols, pool, sizes=None):
    fn, args, kw, aim = convenience_call(opt, mols, pool, sizes)
    return fn(*args, **kw), aim


def _snapshot(x):
    """Deep copy of the plain-data part of an argument (grids / callables are kept by reference)."""
    if isinstance(x, np.ndarray):
        return np.array(x, copy=True)
    if isinstance(x, list):
        return [_snapshot(v) for v in x]
    if isinstance(x, tuple):
        return tuple(_snapshot(v) for v in x)
    if isinstance(x, dict):
        return {k: _snapshot(v) for k, v in x.items()}
    return x


def _unchanged(a, b):
    if isinstance(a, np.ndarray) or isinstance(b, np.ndarray):
        return (isinstance(a, np.ndarray) and isinstance(b, np.ndarray) and a.dtype == b.dtype and a.shape == b.shape
                and np.array_equal(a, b))
    if isinstance(a, (list, tuple)):
        return type(a) is type(b) and len(a) == len(b) and all(_unchanged(x, y) for x, y in zip(a, b))
    if isinstance(a, dict):
        return isinstance(b, dict) and list(a) == list(b) and all(_unchanged(a[k], b[k]) for k in a)
    if isinstance(a, (int, float, str, bool, np.generic)) or a is None:
        return type(a) is type(b) and a == b
    return a is b


def _pool_intact(pool):
    return all(np.array_equal(pool[n].points, np.array(p)) and np.array_equal(pool[n].weights, np.array(w))
               for n, (p, w) in GRID_POOL.items())


def _default_rgrid(z):
    """The default radial grid of an element, through the public AtomGrid route."""
    from grid.atomgrid import AtomGrid
    return AtomGrid.from_preset(int(z), "coarse", None).rgrid


def build_by_hand(opt, calls, mols, pool, aimspec=None):
    from grid.atomgrid import AtomGrid
    from grid.becke import BeckeWeights
    from grid.molgrid import MolGrid
    atn, atc = _molecule(mols, opt["mol"])
    atgrids = []
    for c in calls:
        given = c["rgrid"][0] == "given"
        cen = atc[c["centre"] - 1]
        rot = int(c["rotate"])
        if c["fn"] == "AtomGrid":
            rg = pool[c["rgrid"][1]] if given else _default_rgrid(c["rgrid"][1])
            atgrids.append(AtomGrid(rg, None, sizes=[int(s) for s in c["sizes"]], center=cen, rotate=rot))
        elif c["fn"] == "AtomGridDeg":
            atgrids.append(AtomGrid(pool[c["rgrid"][1]], degrees=[int(d) for d in c["degrees"]], center=cen, rotate=rot))
        elif c["fn"] == "from_preset":
            rg = pool[c["rgrid"][1]] if given else None
            atgrids.append(AtomGrid.from_preset(int(c["atnum"]), c["preset"], rg, center=cen, rotate=rot))
        else:
            rg = pool[c["rgrid"][1]] if given else _default_rgrid(c["rgrid"][1])
            secs = [float(_fr(q)) for q in c["r_sectors"]]
            vals = [int(v) for v in c["sect"]]
            if c["kind"] == "d":
                atgrids.append(AtomGrid.from_pruned(rg, float(_fr(c["radius"])), r_sectors=secs, d_sectors=vals, center=cen, rotate=rot))
            else:
                atgrids.append(AtomGrid.from_pruned(rg, float(_fr(c["radius"])), r_sectors=secs, d_sectors=None, s_sectors=vals,
                                                    center=cen, rotate=rot))
    if aimspec is None:     # entries emitted before AimSpec existed
        aimspec = {"kind": "callable", "what": "IntAim" if opt["aim"] == "callable" else "BeckeWeights", "order": 3}
    if aimspec["kind"] == "array":
        aim = aim_values([g.size for g in atgrids])
    elif aimspec["what"] == "IntAim":
        aim = IntAim()
    else:
        aim = BeckeWeights(order=int(aimspec["order"]))
    return MolGrid(atn, atgrids, aim, store=bool(opt["store"])), atgrids, aim


def _is_x(opt):
    return "rep" in opt


def _fan_key_x(opt):
    """Key of an option of the extended space (Part 1x of the specification)."""
    r = opt["rep"]
    if opt["ctor"] == "from_pruned" and r["scal"] == "int":
        return "fanout:from_pruned:int-radius"
    parts = [f"x:mol={opt['mol']}"]
    if opt["ctor"] == "from_pruned":
        parts.append(f"radius={opt['radius']['shape']}:sect={opt['sect_kind']}-{opt['sect']['shape']}"
                     + (f"+d-{opt['dsect']['shape']}" if opt["sect_kind"] == "both" else ""))
    if opt["ctor"] == "from_preset":
        parts.append(f"preset={opt['preset']['shape']}{len(opt['preset']['v']) if opt['preset']['shape'] == 'dict' else ''}")
    if "rgrid" in opt:
        parts.append(f"rgrid={opt['rgrid']['shape']}{len(opt['rgrid']['v']) if opt['rgrid']['shape'] == 'dict' else ''}")
    if r != BASE_REP:
        parts.append(f"rep={r['atnums']}-{r['coords']}-{r['scal']}")
    parts.append(f"rotate={opt.get('rotate', 'per-atom')}:store={opt['store']}:aim={opt['aim']}")
    return f"fanout:{opt['ctor']}:" + ":".join(parts)


def _fan_key(opt):
    if _is_x(opt):
        return _fan_key_x(opt)
    if opt["ctor"] == "from_pruned" and opt["sect"]["shape"] == "one":
        return f"fanout:from_pruned:int-{opt['sect_kind']}_sectors"
    parts = [f"mol={opt['mol']}", f"rgrid={opt['rgrid']['shape']}"]
    if opt["ctor"] == "from_preset":
        parts.append(f"preset={opt['preset']['shape']}")
    if opt["ctor"] == "from_pruned":
        parts.append(f"radius={opt['radius']['shape']}:sect={opt['sect_kind']}-{opt['sect']['shape']}")
    parts.append(f"rotate={opt['rotate']}:store={opt['store']}:aim={opt['aim']}")
    return f"fanout:{opt['ctor']}:" + ":".join(parts)


def _fan_worker(job):
    entries, mols = job
    pool = _pool()
    obs, viol = [], []
    mxi = 0.0
    for ent in entries:
        opt, calls = ent["opt"], ent["calls"]
        key = _fan_key(opt)
        try:
            hand, atgrids, aim_h = _quiet(build_by_hand, opt, calls, mols, pool, ent.get("aim"))
        except Exception as e:  # noqa: BLE001
            viol.append((key + ":by-hand", f"the atomic constructions listed by the specification cannot be built: {type(e).__name__}: {e}", ent))
            obs.append({"opt": opt, "o": {"ok": False, "err": "by-hand"}})
            continue
        sizes = [int(g.size) for g in atgrids]
        try:
            fn, args, kw, aim_c = _quiet(convenience_call, opt, mols, pool, sizes)
            before = _snapshot((args, kw))
            conv = _quiet(fn, *args, **kw)
        except Exception as e:  # noqa: BLE001
            viol.append((key, f"MolGrid.{opt['ctor']} raised {type(e).__name__}: {e} for an admissible option combination "
                         f"(the specification maps it to {len(calls)} atomic constructions)", ent))
            obs.append({"opt": opt, "o": {"ok": False, "err": type(e).__name__}})
            continue
        try:
            for name in ("points", "weights", "atweights", "aim_weights", "atcoords", "indices"):
                a, b = np.asarray(getattr(conv, name)), np.asarray(getattr(hand, name))
                if a.shape != b.shape or not np.array_equal(a, b):
                    d = float(np.max(np.abs(a - b))) if a.shape == b.shape else float("nan")
                    viol.append((key + f":{name}", f"MolGrid.{opt['ctor']}: `{name}` differs from the grid built by hand from the "
                                 f"atomic constructions {calls} (max diff {d:.3e})", ent))
            idx = [int(i) for i in np.asarray(conv.indices)]
            o = {"ok": True, "atom_sizes": sizes, "indices": idx, "size": int(conv.size)}
            # the constructor leaves its arguments (and the shared radial grids) as they were
            if not _unchanged(before, (args, kw)):
                viol.append((key + ":arguments-modified", f"MolGrid.{opt['ctor']} modified one of its arguments in place", ent))
            if not _pool_intact(pool):
                viol.append((key + ":rgrid-modified", f"MolGrid.{opt['ctor']} modified a radial grid it was given", ent))
                pool.update(_pool())
            if _is_x(opt):
                # same call once more, with freshly made arguments: the same grid
                again, _ = _quiet(build_convenience, opt, mols, pool, sizes)
                for name in ("points", "weights", "atweights", "aim_weights", "atcoords", "indices"):
                    if not np.array_equal(np.asarray(getattr(again, name)), np.asarray(getattr(conv, name))):
                        viol.append((key + f":repeat:{name}", f"MolGrid.{opt['ctor']} called twice with equal arguments: `{name}` differs", ent))
            # concatenation / weights law on the convenience-built grid
            cat_p = np.vstack([g.points for g in atgrids])
            cat_w = np.hstack([g.weights for g in atgrids])
            if not np.array_equal(conv.points, cat_p):
                viol.append((key + ":concat-points", "points are not the concatenation of the atomic grids' points", ent))
            if not np.array_equal(conv.atweights, cat_w):
                viol.append((key + ":concat-atweights", "atweights are not the concatenation of the atomic grids' weights", ent))
            if not np.array_equal(conv.weights, conv.atweights * conv.aim_weights):
                viol.append((key + ":weights-product", "weights differ from atweights * aim_weights", ent))
            if not np.array_equal(conv.atcoords, np.array([g.center for g in atgrids])):
                viol.append((key + ":atcoords", "atcoords are not the centres of the atomic grids", ent))
            if isinstance(aim_c, np.ndarray):
                # weights handed over as an array: they ARE the atom-in-molecule weights
                if not (np.asarray(conv.aim_weights).shape == aim_c.shape and np.array_equal(conv.aim_weights, aim_c)
                        and np.array_equal(aim_c, aim_values(sizes))):
                    viol.append((key + ":array-result", "aim_weights is not the array handed to the constructor", ent))
            if isinstance(aim_c, IntAim) and aim_c.args is None:
                viol.append((key + ":callable-not-called", "the aim callable handed to the constructor was never called", ent))
            elif isinstance(aim_c, IntAim):
                p, c, z, i = aim_c.args
                atn, _ = _molecule(mols, opt["mol"])
                if not (np.array_equal(p, cat_p) and np.array_equal(c, conv.atcoords) and np.array_equal(z, atn)
                        and np.array_equal(i, conv.indices)):
                    viol.append((key + ":callable-args", "the aim callable was not called with (concatenated points, centres, numbers, index table)", ent))
                want = np.concatenate([np.full(s, k + 2.0) for k, s in enumerate(sizes)])
                if not np.array_equal(conv.aim_weights, want):
                    viol.append((key + ":callable-result", "aim_weights is not what the callable returned", ent))
            # aim weights given as an array instead of a callable
            from grid.molgrid import MolGrid
            arr = MolGrid(_molecule(mols, opt["mol"])[0], atgrids, np.array(conv.aim_weights), store=bool(opt["store"]))
            if not (np.array_equal(arr.weights, conv.weights) and np.array_equal(arr.points, conv.points)
                    and np.array_equal(arr.indices, conv.indices) and np.array_equal(arr.aim_weights, conv.aim_weights)):
                viol.append((key + ":aim-array", "MolGrid built with the aim weights as an array differs from the one built with the callable", ent))
            try:
                MolGrid(_molecule(mols, opt["mol"])[0], atgrids, np.ones(conv.size + 1), store=False)
                viol.append((key + ":aim-array-size", "an aim_weights array of the wrong size is accepted", ent))
            except ValueError:
                pass
            # the atom-in-molecule weights themselves, through a route that shares no chunking with the
            # whole-grid call used by MolGrid: atom by atom, on that atom's segment only
            if opt["aim"] == "becke":
                from grid.becke import BeckeWeights
                bw = BeckeWeights(order=3)
                znum = np.asarray(_molecule(mols, opt["mol"])[0])
                for k in range(len(atgrids)):
                    seg = slice(idx[k], idx[k + 1])
                    wk = bw.generate_weights(np.asarray(conv.points)[seg], np.asarray(conv.atcoords), znum, select=k)
                    if not np.allclose(np.asarray(conv.aim_weights)[seg], wk, rtol=0, atol=1e-12):
                        bad = int(np.sum(np.abs(np.asarray(conv.aim_weights)[seg] - wk) > 1e-12))
                        viol.append((key + ":aim-per-atom-route", f"aim_weights of atom {k} differ from BeckeWeights.generate_weights(select={k}) "
                                     f"on its segment at {bad} point(s)", ent))
                        break
            # integral identity and per-atom grids
            f = np.exp(-0.7 * np.sum((conv.points - conv.atcoords[0]) ** 2, axis=1)) + 0.1
            tot = float(conv.integrate(f))
            parts = 0.0
            for k, g in enumerate(atgrids):
                seg = slice(idx[k], idx[k + 1])
                parts += float(g.integrate(conv.aim_weights[seg] * f[seg]))
                ag = conv.get_atomic_grid(k)
                if not (np.array_equal(ag.points, g.points) and np.array_equal(ag.weights, g.weights)
                        and np.array_equal(np.asarray(ag.center), np.asarray(g.center))):
                    viol.append((key + ":get_atomic_grid", f"get_atomic_grid({k}) does not carry the points/weights/centre of atomic grid {k}", ent))
            d = abs(tot - parts) / max(abs(tot), 1e-300)
            mxi = max(mxi, d)
            if not d <= 1e-12:
                viol.append((key + ":integral-identity", f"mol.integrate(f) = {tot!r} but sum_A atgrid_A.integrate(w_A f) = {parts!r}", ent))
            obs.append({"opt": opt, "o": o})
        except Exception as e:  # noqa: BLE001
            viol.append((key + ":observer", f"observer raised {type(e).__name__}: {e}", ent))
            obs.append({"opt": opt, "o": {"ok": False, "err": "observer"}})
    return obs, viol, mxi


# ---------------------------------------------------------------------------------------------
# store flag

def _store_pair(mols, pool, subject=None):
    from grid.molgrid import MolGrid
    if subject is not None:     # an option record of the specification (StoreSubject2)
        return [build_convenience(dict(subject["opt"], store=s), mols, pool)[0] for s in (True, False)]
    atn, atc = _molecule(mols, 4)  # CO
    return [MolGrid.from_size(atn, atc, 6, rgrid=pool["G1"], rotate=37, store=s) for s in (True, False)]


def _observe(g, ob, f):
    name, i = ob[0], int(ob[1]) - 1
    if name == "points":
        return {"points": np.array(g.points)}
    if name == "weights":
        return {"weights": np.array(g.weights)}
    if name == "tables":
        return {"indices": np.array(g.indices), "atweights": np.array(g.atweights), "aim_weights": np.array(g.aim_weights),
                "atcoords": np.array(g.atcoords), "size": np.array(g.size)}
    if name == "integrate":
        return {"integral": np.array(g.integrate(f))}
    if name in ("get_atomic_grid_neg", "get_atomic_grid_oob"):
        index = -int(ob[1]) if name.endswith("neg") else len(g.atcoords) + int(ob[1])
        try:
            a = g.get_atomic_grid(index)
        except Exception as e:  # noqa: BLE001
            return {"raised": np.array(1), "exception": np.array(type(e).__name__)}
        return {"raised": np.array(0), "exception": np.array(f"returned a grid of {a.size} points")}
    a = g.get_atomic_grid(i) if name == "get_atomic_grid" else g[i]
    return {"points": np.array(a.points), "weights": np.array(a.weights), "centre": np.array(a.center), "size": np.array(a.size)}


def _store_worker(job):
    behaviours, mols = job[:2]
    subject = job[2] if len(job) > 2 else None
    sub = ""    # keys do not name the subject (the known finding store:getitem:* concerns every grid); the case does
    pool = _pool()
    viol = []
    n = 0
    for beh in behaviours:
        try:
            gs = _quiet(_store_pair, mols, pool, subject)
            f = np.cos(gs[0].points[:, 0]) + 2.0
            ref = gs[1]
            idx = np.asarray(ref.indices)
            for step, ob in enumerate(beh):
                o_t, o_f = (_quiet(_observe, g, ob, f) for g in gs)
                n += 1
                for k in o_t:
                    if k == "exception":
                        continue    # which exception is raised is not specified; whether one is raised is
                    if o_t[k].shape != o_f[k].shape or not np.array_equal(o_t[k], o_f[k]):
                        viol.append((f"store:{sub}{ob[0]}:{k}", f"history {beh[:step + 1]}: `{k}` of {ob[0]}({ob[1] - 1 if ob[1] else ''}) differs between "
                                     f"store=True and store=False", {"history": beh, "subject": subject["opt"] if subject else "CO, from_size"}))
                if "raised" in o_t:     # specification of the observer: the call is rejected, stored or not
                    for tag, o in (("store=True", o_t), ("store=False", o_f)):
                        if int(o["raised"]) != 1:
                            viol.append((f"store:{sub}{ob[0]}:spec:{tag}", f"history {beh[:step + 1]}: {ob[0]}({ob[1]}) [{tag}] {o['exception']} "
                                         f"instead of being rejected", {"history": beh, "subject": subject["opt"] if subject else "CO, from_size"}))
                # against the specification of the observer
                if ob[0] in ("get_atomic_grid", "getitem"):
                    i = ob[1] - 1
                    seg = slice(idx[i], idx[i + 1])
                    want_w = ref.atweights[seg] if ob[0] == "get_atomic_grid" else ref.weights[seg]
                    for tag, o in (("store=True", o_t), ("store=False", o_f)):
                        if not np.array_equal(o["points"], ref.points[seg]):
                            viol.append((f"store:{sub}{ob[0]}:spec:points", f"{ob[0]}({i}) [{tag}] does not return the points of atom {i}", {"history": beh, "subject": subject["opt"] if subject else "CO, from_size"}))
                        if o["weights"].shape != want_w.shape or not np.array_equal(o["weights"], want_w):
                            viol.append((f"store:{sub}{ob[0]}:spec:weights:{tag}",
                                         f"{ob[0]}({i}) [{tag}] does not return the "
                                         f"{'atomic weights' if ob[0] == 'get_atomic_grid' else 'atomic weights times aim weights'} of atom {i}",
                                         {"history": beh, "subject": subject["opt"] if subject else "CO, from_size"}))
        except Exception as e:  # noqa: BLE001
            viol.append((f"store:{sub}raised:{beh[-1][0]}", f"history {beh}: {type(e).__name__}: {e}", {"history": beh, "subject": subject["opt"] if subject else "CO, from_size"}))
    return n, viol


# ---------------------------------------------------------------------------------------------
# end to end

def _e2e_worker(job):
    ob, mols, patterns, tree = job[:4]
    single = job[4] if len(job) > 4 else None
    from grid.molgrid import MolGrid
    atn, atc = _molecule(mols, ob["mol"])
    name = mols[ob["mol"] - 1]["name"]
    out = {"preset": ob["preset"], "mol": name, "constructible": ob["constructible"], "errors": [], "built": None, "size": 0}
    try:
        g = _quiet(MolGrid.from_preset, atn, atc, ob["preset"])
    except ValueError as e:
        out["built"] = False
        out["err"] = f"ValueError: {e}"
        return out
    except Exception as e:  # noqa: BLE001
        out["built"] = False
        out["err"] = f"{type(e).__name__}: {e}"
        out["unexpected"] = True
        return out
    out["built"] = True
    out["size"] = int(g.size)
    r2 = np.sum((g.points[:, None, :] - atc[None]) ** 2, axis=-1)  # (N, M)
    for j, pat in enumerate(patterns[len(atn) - 1]):
        rho = np.zeros(g.size)
        for k, q in enumerate(pat):
            rho += np.asarray(evaluate_np(tree, {"alpha": np.float64(float(_fr(q))), "r2": r2[:, k]}, np.float64), dtype=float)
        val = float(g.integrate(rho))
        out["errors"].append(abs(val - len(atn)) / len(atn))
    # sums that populate one centre only (total charge 1), exponent over the specification's lattice
    if single is not None:
        alphas = np.array([float(_fr(q)) for q in single], dtype=np.float64)
        out["single"] = []
        for k in range(len(atn)):
            errs = []
            for chunk in np.array_split(alphas, max(1, int(g.size * len(alphas) // 4_000_000))):
                vals = np.asarray(evaluate_np(tree, {"alpha": chunk[None, :], "r2": r2[:, k][:, None]}, np.float64), dtype=float)
                errs.append(np.abs(np.asarray(g.weights) @ vals - 1.0))
            errs = np.concatenate(errs)
            bad = alphas[~(errs <= 1e-2)]
            j = int(np.argmax(errs))
            out["single"].append({"atom": k + 1, "worst": float(errs[j]), "at": float(alphas[j]), "n": int(len(alphas)),
                                  "bad": [float(bad.min()), float(bad.max()), int(len(bad))] if len(bad) else None})
    return out


# ---------------------------------------------------------------------------------------------

def _report_some(rep, items, counter_name):
    seen = {}
    for key, what, case in items:
        seen[key] = seen.get(key, 0) + 1
        if seen[key] <= 1 and len(seen) <= 60:
            rep.violation(key, what, case)
    if seen:
        rep.set(counter_name, dict(sorted(seen.items())[:80]))


def run(tier: str) -> int:
    import time
    rep = Report(PROP, tier, "model_checking")
    rng = np.random.default_rng(rep.seed)
    t0, phases = time.time(), {}

    def lap(name):
        nonlocal t0
        phases[name] = round(time.time() - t0, 2)
        t0 = time.time()
    wd = tlc.scratch(f"{PROP}-{tier}")
    quick = tier == "quick"
    maxhist = 3 if quick else 4
    write_tables(wd, maxhist, seed=rep.seed)

    res = tlc.run_tlc("MolGrid", "MC_MolGridGen.cfg", wd, workers=4, timeout=900).require_ok("MC_MolGridGen")
    rep.tlc(res, "MC_MolGridGen")
    lap("tlc_gen")
    for t in tlc.tagged(res.stdout, "LAWFAIL"):
        rep.violation(f"model:law:{t[1]}", f"TLC: law {t[1]} of spec/MolGrid.tla is false")
    if res.status == "violation":
        rep.violation(f"model:{','.join(res.violated)}", f"TLC: invariant(s) {res.violated} violated; {tlc.last_state(res)}")
    try:
        fan = json.load(open(wd / "molgrid_fanout.json"))
        mols = json.load(open(wd / "molgrid_molecules.json"))
        behaviours = json.load(open(wd / "molgrid_behaviours.json"))
        beh2 = json.load(open(wd / "molgrid_behaviours2.json"))
        e2e = json.load(open(wd / "molgrid_e2e.json"))
    except FileNotFoundError as e:
        raise tlc.MachineryError(f"TLC did not emit {e.filename}")
    fan.sort(key=lambda e: json.dumps(e["opt"], sort_keys=True))
    behaviours.sort(key=json.dumps)
    beh2["behaviours"].sort(key=json.dumps)

    res = tlc.run_tlc("MolGrid", "MC_MolGridStore.cfg", wd, workers=8, timeout=900).require_ok("MC_MolGridStore")
    rep.tlc(res, "MC_MolGridStore")
    lap("tlc_store")
    if res.status == "violation":
        rep.violation(f"model:{','.join(res.violated)}", f"TLC: {res.violated} violated in the store model; {tlc.last_state(res)}")
    diffs = {}
    for _, ob, acc in tlc.tagged(res.stdout, "STOREDIFF"):
        diffs.setdefault(ob[0], acc)
    for name, acc in sorted(diffs.items()):
        rep.violation(f"store:{name}:model", f"TLC (model of the code): observer {name} returns {acc[0]} with store=True, {acc[1]} with "
                      f"store=False; its specification says {acc[2]}", {"observer": name, "observations": acc})

    fanx = [e for e in fan if _is_x(e["opt"])]      # Part 1x of the specification: always replayed completely
    fan = [e for e in fan if not _is_x(e["opt"])]
    if quick:
        pick = sorted(rng.choice(len(fan), size=240, replace=False).tolist())
        fan = [fan[i] for i in pick]
    fan = fan + fanx
    pool = mp.get_context("fork").Pool(8)
    try:
        # ---- fan-out --------------------------------------------------------------------------
        jobs = [(fan[i::32], mols) for i in range(32)]
        fanobs, viol, mxi = [], [], 0.0
        for o, v, m_ in pool.imap_unordered(_fan_worker, jobs):
            fanobs += o
            viol += v
            mxi = max(mxi, m_)
        fanobs.sort(key=lambda e: json.dumps(e["opt"], sort_keys=True))
        _report_some(rep, sorted(viol, key=lambda t: t[0]), "fanout_violations")
        lap("replay_fanout")
        for e in fanobs:
            rep.evaluated(1, ("fan", _fan_key(e["opt"]), json.dumps(e["opt"].get("preset", e["opt"].get("size", 0)))))
        # ---- store histories ----------------------------------------------------------------------
        jobs = [(behaviours[i::32], mols) for i in range(32)] + [(beh2["behaviours"][i::8], mols, beh2["subject"]) for i in range(8)]
        viol = []
        nobs = 0
        for n, v in pool.imap_unordered(_store_worker, jobs):
            nobs += n
            viol += v
        _report_some(rep, sorted(viol, key=lambda t: t[0]), "store_violations")
        lap("replay_store")
        for b in behaviours:
            rep.evaluated(1, ("history", json.dumps(b)))
        for b in beh2["behaviours"]:
            rep.evaluated(1, ("history2", json.dumps(b)))
        rep.set("store_histories", len(behaviours) + len(beh2["behaviours"]))
        rep.set("store_observations_compared", nobs)
        # ---- end to end -----------------------------------------------------------------------------
        obl = sorted(e2e["obligations"], key=lambda o: (o["preset"], o["mol"]))
        names = [m["name"] for m in mols]
        if quick:
            obl = [o for o in obl if (o["preset"] in ("coarse", "fine", "sg_1", "sg_2") and o["mol"] in (2, 5, 10, 11, 13, 14))
                   or (o["preset"] == "coarse" and names[o["mol"] - 1] == "crowd")      # the template at the 1.2 bohr edge
                   or (o["preset"] in ("coarse", "sg_1") and names[o["mol"] - 1] in ("HBr", "LiF"))
                   or (o["preset"] in ("coarse", "sg_1") and names[o["mol"] - 1] in ("H2O~", "CONHCl~", "crowd~", "ArOH~"))]
        tree = e2e["density"]
        lattices = {p["preset"]: p["exponents"] for p in e2e["single"]["lattice"]}
        jobs = [(o, mols, e2e["patterns"], tree, lattices[o["preset"]] if o["mol"] <= e2e["single"]["templates"] else None) for o in obl]
        worst1, worst1_at, n_single = 0.0, None, 0
        worst, worst_at, table = 0.0, None, {}
        for out in pool.imap_unordered(_e2e_worker, jobs, chunksize=1):
            key = f"e2e:{out['preset']}:{out['mol']}"
            rep.evaluated(1, ("e2e", out["preset"], out["mol"]))
            if not out["built"]:
                if out.get("unexpected") or out["constructible"]:
                    rep.violation(key + ":build", f"MolGrid.from_preset(..., {out['preset']!r}) with default radial grids raised {out.get('err')} "
                                  f"(specification: constructible={out['constructible']})", out)
                else:
                    table.setdefault(out["preset"], {"not_constructible_with_rgrid_None": 0, "integrated": 0})["not_constructible_with_rgrid_None"] += 1
                continue
            table.setdefault(out["preset"], {"not_constructible_with_rgrid_None": 0, "integrated": 0})["integrated"] += 1
            for j, err in enumerate(out["errors"]):
                if err > worst:
                    worst, worst_at = err, (out["preset"], out["mol"], j + 1)
                if not err <= 1e-2:
                    rep.violation(key + f":pattern={j + 1}", f"total charge of exponent pattern {j + 1} off by {err:.3%} on the {out['preset']} "
                                  f"grid of {out['mol']} ({out['size']} points)", out)
            for sg in out.get("single", []):
                n_single += sg["n"]
                rep.evaluated(1, ("e2e-single", out["preset"], out["mol"], sg["atom"]))
                if sg["bad"] is None and sg["worst"] > worst1:
                    worst1, worst1_at = sg["worst"], (out["preset"], out["mol"], sg["atom"], sg["at"])
                if sg["bad"] is not None:
                    rep.violation(f"e2e-single:{out['preset']}:{out['mol']}:atom={sg['atom']}",
                                  f"the single normalised Gaussian on atom {sg['atom']} of {out['mol']} integrates to a charge off by up to "
                                  f"{sg['worst']:.3%} (at exponent {sg['at']}) on the {out['preset']} grid ({out['size']} points); more than 1 % "
                                  f"for {sg['bad'][2]} lattice exponents between {sg['bad'][0]} and {sg['bad'][1]}",
                                  {k: v for k, v in out.items() if k != "errors"})
        lap("replay_e2e")
        rep.set("e2e", table)
        rep.set("e2e_worst", {"relative_error": worst, "at": worst_at})
        rep.set("e2e_single_worst_held", {"relative_error": worst1, "at": worst1_at, "gaussians_integrated": n_single})
    finally:
        pool.close()
        pool.join()

    with open(wd / "fanobs.json", "w") as f:
        json.dump(fanobs, f)
    write_tables(wd, maxhist, "fanobs.json", seed=rep.seed)
    res = tlc.run_tlc("MolGrid", "MC_MolGridFan.cfg", wd, workers=8, timeout=900).require_ok("MC_MolGridFan")
    rep.tlc(res, "MC_MolGridFan")
    lap("tlc_fan")
    rep.set("phase_seconds", phases)
    if res.status == "violation":
        rep.violation(f"model:{','.join(res.violated)}", f"TLC: {res.violated} violated while judging the fan-out replays; {tlc.last_state(res)}")
    seen = set()
    for _, opt, acc, exp in tlc.tagged(res.stdout, "FANMISMATCH"):
        key = _fan_key(opt)
        if key in seen:
            continue
        seen.add(key)
        if acc.get("ok") is False and acc.get("err") not in ("observer", "by-hand"):
            continue  # the exception itself was reported by the harness under the same key
        rep.violation(key + ":tables", f"MolGrid.{opt['ctor']}: index table / size {acc} is not the prefix sum of the atomic sizes "
                      f"(from_size shell arithmetic expects {exp})", {"opt": opt, "observed": acc})

    rep.set("fanout_combinations", len(fanobs))
    rep.set("integral_identity_max_rel_dev", mxi)
    rep.set("traces_validated_against_impl", rep.evaluations)
    rep.set("exhaustive", not quick)
    rep.set("rule", "one case = one option combination built twice (convenience / by hand from the spec's atomic calls) and compared bit "
                    "for bit, one observer history run on store=True/False grids, or one (preset, template) end-to-end obligation "
                    "with 10 exponent patterns")
    rep.sample(fanobs[len(fanobs) // 3])
    rep.sample({"history": behaviours[len(behaviours) // 2]})
    rep.assume("default radial grid of an element := the grid AtomGrid.from_preset(Z, preset, rgrid=None) uses (public route)")
    rep.assume("end-to-end clause is claimed at exploration level only (TLC owns obligations and constructibility, harness integrates)")
    return rep.finish()


def replay(path: str) -> int:
    with open(path) as f:
        v = json.load(f)
    import os
    os.environ["VERIF_SEED"] = str(v.get("seed", 0))
    print("replay: rerunning the recorded tier; recorded violation:", v.get("key"))
    return run(v.get("tier", "quick"))


MUTANTS = [
    ("init: aim weights applied twice", "grid.molgrid", "super().__init__(self.points, self._atweights * self._aim_weights)",
     "super().__init__(self.points, self._atweights * self._aim_weights**2)"),
    ("init: aim weights shifted by one point", "grid.molgrid", "super().__init__(self.points, self._atweights * self._aim_weights)",
     "super().__init__(self.points, self._atweights * np.roll(self._aim_weights, 1))"),
    ("init: points not moved to the centre", "grid.molgrid", "self._points[start:end] = atom_grid.points  # centers it",
     "self._points[start:end] = atom_grid._points  # centers it"),
    ("from_preset: preset dict looked up with the first element", "grid.molgrid", "gd_type = preset[atnums[i]]", "gd_type = preset[atnums[0]]"),
    ("from_preset: rgrid list always first entry", "grid.molgrid",
     "            elif isinstance(rgrid, list):\n                rad = rgrid[i]\n            elif isinstance(rgrid, dict):\n                rad = rgrid[atnums[i]]",
     "            elif isinstance(rgrid, list):\n                rad = rgrid[0]\n            elif isinstance(rgrid, dict):\n                rad = rgrid[atnums[i]]"),
    ("from_preset: default Becke order 2", "grid.molgrid", "aim_weights = BeckeWeights(order=3)", "aim_weights = BeckeWeights(order=2)", 0),
    ("from_size: default radial grid of the first element", "grid.molgrid", "rad_grid = _generate_default_rgrid(atnum)",
     "rad_grid = _generate_default_rgrid(atnums[0])"),
    ("from_size: rotate not passed on", "grid.molgrid", "AtomGrid(rad_grid, degrees=None, sizes=[size], center=atcoord, rotate=rotate)",
     "AtomGrid(rad_grid, degrees=None, sizes=[size], center=atcoord)"),
    ("from_pruned: radius of the first atom", "grid.molgrid", "                    radius_atom[i],\n", "                    radius_atom[0],\n"),
    ("from_pruned: rgrid dict by position", "grid.molgrid", "                rad = rgrid[atnum]\n", "                rad = rgrid[atnums[min(i, 1)]]\n"),
    ("default rgrid: rmin not converted to bohr", "grid.molgrid",
     '        rmin = rmin * scipy.constants.angstrom / scipy.constants.value("atomic unit of length")\n', ""),
    ("get_atomic_grid: aim weights included when not stored", "grid.molgrid",
     "wts = self._atweights[self._indices[index] : self._indices[index + 1]]", "wts = self.weights[self._indices[index] : self._indices[index + 1]]"),
    ("get_atomic_grid: centre of atom 0 when not stored", "grid.molgrid", "return LocalGrid(pts, wts, self._atcoords[index])",
     "return LocalGrid(pts, wts, self._atcoords[0])"),
    ("becke: call drops clip (end-to-end weights)", "grid.becke", "pt_ind=(indices - ibegin).clip(min=0),", "pt_ind=(indices - ibegin),"),
    # ---- audit round: dimensions of Part 1x / the extended store observers ----
    ("x: from_pruned ignores the weights handed over", "grid.molgrid",
     "        if aim_weights is None:\n            aim_weights = BeckeWeights(order=3)\n\n        at_grids = []",
     "        aim_weights = BeckeWeights(order=3)\n\n        at_grids = []"),
    ("x: from_size replaces array weights by Becke", "grid.molgrid",
     "        if aim_weights is None:\n            aim_weights = BeckeWeights(order=3)\n        atgrids = []",
     "        if aim_weights is None or isinstance(aim_weights, np.ndarray):\n            aim_weights = BeckeWeights(order=3)\n        atgrids = []"),
    ("x: from_pruned explicit d_sectors beat s_sectors", "grid.molgrid",
     "        if s_sectors is not None:\n            d_sectors = [None] * natoms",
     "        if s_sectors is not None and all(list(d) == [50] * len(d) for d in d_sectors):\n            d_sectors = [None] * natoms"),
    ("x: from_pruned default d_sectors 30", "grid.molgrid", "d_sectors: int | list[list[int]] = 50,", "d_sectors: int | list[list[int]] = 30,"),
    ("x: from_preset rgrid dict read by rank", "grid.molgrid", "                rad = rgrid[atnums[i]]\n",
     "                rad = rgrid[sorted(rgrid)[sorted({int(z) for z in atnums}).index(int(atnums[i]))]]\n"),
    ("x: from_pruned numpy integer sectors", "grid.molgrid", "        if isinstance(d_sectors, (int, np.integer)):", "        if isinstance(d_sectors, int):"),
    ("x: from_pruned consumes the sector lists", "grid.molgrid", "                    d_sectors=d_sectors[i],\n", "                    d_sectors=d_sectors.pop(0),\n"),
    ("x: from_preset rotation seed used as a flag", "grid.molgrid",
     "atnum=atnums[i], preset=gd_type, rgrid=rad, center=atcoords[i], rotate=rotate",
     "atnum=atnums[i], preset=gd_type, rgrid=rad, center=atcoords[i], rotate=37 if rotate else 0"),
    ("x: get_atomic_grid answers from the store before checking the index", "grid.molgrid",
     "        if index < 0:\n            raise ValueError(f\"index should be non-negative, got {index}\")\n        # get atomic grid if stored\n"
     "        if self._atgrids is not None:\n            return self._atgrids[index]\n",
     "        if self._atgrids is not None:\n            return self._atgrids[index]\n"
     "        if index < 0:\n            raise ValueError(f\"index should be non-negative, got {index}\")\n"),
    ("x: AtomGrid one degree for all shells misses the last shell", "grid.atomgrid",
     "            degrees = np.ones(rgrid.size, dtype=int) * degrees\n",
     "            degrees = np.ones(rgrid.size, dtype=int) * degrees\n            degrees[-1] = 3\n"),
]


def selftest(tier: str) -> int:
    from ..mutate import run_mutants
    return run_mutants(PROP, run, tier, MUTANTS)
