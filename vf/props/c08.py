"""C08 - real spherical harmonics, their angular derivatives, solid harmonics, cart -> sph.

Flow (DESIGN.md section 5, C08):
 1. TLC checks spec/Harmonics.tla: on the Pythagorean-angle lattice the addition theorem,
    parity, pole values, equality of the two routes to the m-fold Legendre derivative, exact
    orthonormality (polynomial integration), the Horton-2 row order and Cart(Sph(p)) = p are
    decided exactly (32-bit rationals, static size budget), and the DEFINITION TREES of
    Y_lm, dY/dtheta, dY/dphi (by Expr!D), the solid harmonics, the spherical parametrisation
    and its Jacobian are emitted for every (l, m), l <= LTree, together with the exact lattice
    values and the expected conversions of integer points.
 2. spec-internal cross checks by the harness (machinery, not verdicts): every emitted tree
    reproduces TLC's exact lattice value sqrt(NormSq/pi)*A to 40 digits; D-trees agree with
    50-digit central differences of the Y-trees.
 3. replay: generate_real_spherical_harmonics, ..._scipy, generate_derivative_real_spherical_
    harmonics, solid_harmonics, convert_cart_to_sph are compared with the trees evaluated in
    50-digit arithmetic at the very floats handed to the library: lattice angles shifted by
    multiples of 2 pi, random float angles, equator, near-pole angles, the poles (documented
    zero convention of the polar derivative), reflected polar angles (sin phi < 0, own keys),
    radii incl. 0, centres incl. the origin and the point itself.
 4. LTree < l <= LHigh: addition theorem on the library's output, agreement of the two
    implementations, and comparison with vf/ylm.py (calibrated against the trees in this run).

Tolerances (absolute, in units of the natural scale s_l = sqrt((2l+1)/(2 pi)) of degree l;
derivatives (l+1) s_l; solid harmonics r^l):  1e-9.
Calibration on the pinned tree (thorough tier, seeds 0, 1, 2; max over all cases, same units):
  l <= 12 against the trees and 12 < l <= 80 against ylm.py: recursion 1.1e-13, scipy 6.4e-14,
  both implementations against each other 9.3e-14, derivatives 1.6e-14 (theta 4.7e-15), solid
  harmonics 7.2e-15, addition theorem 2.8e-13 (relative to (2l+1)/4pi);
  cart->sph: integer lattice 1.7e-16, forward 8.9e-15, round trip 6.1e-15 (tolerance 1e-9).
  The 19 source-level mutants of selftest() are all reported (errors >= 1e-3 in the same units).

Audit extension (spec/HarmonicsAudit.tla EXTENDS Harmonics; one TLC run decides the identities of both modules):
 5. structured angles emitted by the specification as exact pairs (multiple of pi, rational offset): polar angles
    1e-9 .. 1e-3 away from both poles, i.e. just outside the pole cut |tan phi| < 1e-10 of the derivative routine
    (class "threshold", judged against the D-trees, not against the zero convention), and angles up to 20 pi away from
    the principal range, reflected and unreflected (class "far"); the high-degree passes get 1e-9 / 1e-7 as well.
 6. solid harmonics for every l_max < LTree, and for LTree < l <= 40 as SolidFactorTree (sqrt(4 pi/(2l+1)) r^l, degree as a
    variable, 50 digits) times the library's own surface harmonics.
 7. convert_derivative_from_spherical_to_cartesian against GradTree = J diag(1/|J_.j|^2) d built from the D-derived Jacobian
    of the parametrisation (TLC: chain rule, orthogonal frame, metric, and the two documented conventions, exactly on the
    lattice): TLC's exact lattice cases, float arguments over nine decades of r, r = 0 and phi = 0.
 8. convert_cart_to_sph: homogeneity (SphHomogeneous) replayed with 2^300 and 2^-300 times TLC's integer points / centres,
    signed zeros among the coordinates (range and Cart(Sph(p)) = p only), AtomGrid.convert_cartesian_to_spherical(points,
    center) as a second route to the same conversion.
 9. the catalogue of 820 call forms (array type f8 / f4 / extended / int64, plain / strided / read-only / Fortran-ordered /
    one array for both angles, 0 / 1 / 5 points, l_max as int / int64 / int32, centre as None / array / list / tuple / int
    array, scalar types of the gradient conversion), each with the obligations returns, shape, value, unchanged (arguments),
    repeatable (second call on the same objects); the observations are judged by TLC (FormJudged, FormsComplete, second run).
Calibration of the new clauses (quick + thorough, seeds 0..5, same scaled units, tolerance 1e-9 unless said otherwise):
  threshold / far classes: within the maxima above (recursion 2.2e-13, derivatives 1.5e-14); solid high-degree 6e-15;
  gradient conversion: lattice 1.2e-16, floats 1.5e-16, conventions 1.4e-16 (scale max|d| max(1, 1/r, 1/(r |sin phi|)));
  cart->sph scaled 1.7e-16, signed zeros 4.4e-16, AtomGrid route 1.7e-16;
  float32 arrays (tolerance 1e-3 = TolExp of the specification; budget: 2^-24 per single-precision operation times
  m |theta| <= 60): measured (l_max 5 quick / 8 thorough) ylm 2.7e-7, scipy 2.5e-7, derivative 3.0e-7, solid 3.9e-7; a wrong
  sign / row / factor is >= 1e-1.
  The 14 source-level mutants and 3 corruptions of the observation file in AUDIT_MUTANTS / JUDGE_CORRUPTIONS are all reported
  by the clause they were written for.
Known finding (known_findings.d/C08.json, proposal gen/proposals/C08-extended-precision-angles.diff): the two SciPy-based
routines raise TypeError for extended-precision angle arrays (keys form:ylm_scipy:g:returns, form:dylm:g:returns).
"""
from __future__ import annotations

import inspect
import json
import math
import multiprocessing as mp_
import textwrap
import warnings

import numpy as np

from .. import tlc, ylm
from ..evidence import Report
from ..expr_eval import evaluate

PROP = "C08"
TOL = 1e-9
WORKERS = 8
_EM = None  # emission (per process)


def _scale(l):
    return math.sqrt((2 * l + 1) / (2 * math.pi))


def _tlc(wd, tier, rep):
    """One TLC run on spec/HarmonicsAudit.tla (= Harmonics.tla, unchanged, plus the audit kinds): all
    identities are decided and both emissions (definition trees; forms / angles / gradient) are written."""
    ltree = 12 if tier == "thorough" else 8
    cfg = wd / "MC_HarmonicsAudit_run.cfg"
    base = (tlc.SPEC / "MC_HarmonicsAudit.cfg").read_text()
    base = base.replace("LTree = 12", f"LTree = {ltree}").replace("LForm = 5", f"LForm = {8 if tier == 'thorough' else 5}")
    cfg.write_text(base)
    res = tlc.run_tlc("HarmonicsAudit", cfg, wd, workers=WORKERS, timeout=900).require_ok("MC_HarmonicsAudit")
    rep.tlc(res, "MC_HarmonicsAudit")
    if res.status == "violation":
        st = tlc.last_state(res)
        rep.violation(f"model:{','.join(res.violated)}",
                      f"TLC: identity {res.violated} fails in spec/Harmonics.tla / HarmonicsAudit.tla; state {st}", st)
    f = wd / "harmonics_trees.json"
    g = wd / "harmonics_audit.json"
    if not f.exists() or not g.exists():
        raise tlc.MachineryError("HarmonicsAudit.tla did not emit its JSON files\n" + res.stdout[-2000:])
    with open(f) as fh:
        em = json.load(fh)
    with open(g) as fh:
        em["audit"] = json.load(fh)
    return em, res


def emission(wd_name="C08-emit", ltree=12, lexact=4):
    """Run TLC on Harmonics.tla (all identities, smaller lattice degree) and return the emitted
    trees - used by C02 / C09 to calibrate vf/ylm.py before it serves as their oracle."""
    wd = tlc.scratch(wd_name)
    cfg = wd / "MC_Harmonics_run.cfg"
    base = (tlc.SPEC / "MC_Harmonics.cfg").read_text().replace("LTree = 12", f"LTree = {ltree}")
    base = base.replace("LExact = 6", f"LExact = {lexact}").replace("LRow = 80", f"LRow = {max(ltree, 12)}")
    cfg.write_text(base)
    res = tlc.run_tlc("Harmonics", cfg, wd, workers=8, timeout=900).require_ok("MC_Harmonics")
    if res.status != "ok":
        raise tlc.MachineryError(f"Harmonics.tla is not consistent: {res.violated}")
    with open(wd / "harmonics_trees.json") as fh:
        return json.load(fh), res


# ---------------------------------------------------------------------------------------------
# expected values from the trees (worker processes)

def _init(path):
    global _EM
    with open(path) as f:
        _EM = json.load(f)


def _expect(job):
    """Evaluate every tree (of the first `lim` rows) at the given (theta, phi, r) floats in 50-digit arithmetic."""
    import mpmath as mp
    idx, pts = job[0], job[1]
    nrows = len(_EM["trees"]) if len(job) < 3 else int(job[2])
    out = {k: np.zeros((nrows, len(pts))) for k in ("y", "dtheta", "dphi", "solid")}
    for j, (th, ph, r) in enumerate(pts):
        env = {"theta": mp.mpf(th), "phi": mp.mpf(ph), "r": mp.mpf(r)}
        for t in _EM["trees"]:
            if int(t["row"]) >= nrows:
                continue
            for k in out:
                out[k][int(t["row"]), j] = float(evaluate(t[k], env, "mp"))
    return idx, out


def _internal_checks(em, quick):
    """Spec-internal consistency, evaluated by the harness.  Failures are machinery failures."""
    import mpmath as mp
    worst = mp.mpf(0)
    n = 0
    stride = 3 if quick else 1
    for lat in em["lattice"][::stride]:
        ct, st, cp, sp = (mp.mpf(lat[k][0]) / lat[k][1] for k in ("ct", "st", "cp", "sp"))
        env = {"theta": mp.atan2(st, ct), "phi": mp.atan2(sp, cp)}
        trees = {int(t["row"]): t for t in em["trees"]}
        for l, m, row, a, nsq in lat["vals"]:
            if a[1] == 0 or row not in trees:
                continue
            t = trees[row]
            if (t["l"], t["m"]) != (l, m):
                raise tlc.MachineryError("Harmonics.tla: row bookkeeping of the emission is inconsistent")
            exact = mp.sqrt(mp.mpf(nsq[0]) / nsq[1] / mp.pi) * mp.mpf(a[0]) / a[1]
            d = abs(evaluate(t["y"], env, "mp") - exact)
            worst = max(worst, d)
            n += 1
    if worst > mp.mpf(10) ** -40:
        raise tlc.MachineryError(f"Harmonics.tla: emitted trees and exact lattice values differ by {worst}")
    # D-trees against central differences of the Y-trees (50 digits, h = 1e-18)
    h = mp.mpf(10) ** -18
    wd = mp.mpf(0)
    for t in em["trees"][:: (7 if quick else 3)]:
        for th, ph in ((mp.mpf("0.3"), mp.mpf("0.7")), (mp.mpf("-2.1"), mp.mpf("2.9"))):
            for var, key in (("theta", "dtheta"), ("phi", "dphi")):
                e1 = {"theta": th, "phi": ph}
                e2 = dict(e1)
                e1[var] += h
                e2[var] -= h
                fd = (evaluate(t["y"], e1, "mp") - evaluate(t["y"], e2, "mp")) / (2 * h)
                wd = max(wd, abs(fd - evaluate(t[key], {"theta": th, "phi": ph}, "mp")))
    if wd > mp.mpf(10) ** -25:
        raise tlc.MachineryError(f"Expr!D trees differ from central differences by {wd}")
    return n, float(worst), float(wd)


# ---------------------------------------------------------------------------------------------
# angle sets

def _angles(em, tier, rng):
    """List of (class, theta, phi, r)."""
    out = []
    twopi = 2 * math.pi
    lat = em["lattice"]
    for i, a in enumerate(lat if tier == "thorough" else lat[::2]):
        th = math.atan2(a["st"][0] / a["st"][1], a["ct"][0] / a["ct"][1])
        ph = math.atan2(a["sp"][0] / a["sp"][1], a["cp"][0] / a["cp"][1])
        refl = a["sp"][0] < 0
        k = (-1, 0, 1, 2)[i % 4]
        j = (0, 1, -1)[i % 3]
        r = (0.0, 0.5, 1.0, 2.5, 7.0)[i % 5]
        if a["sp"][0] == 0:
            cls = "pole"
            ph = 0.0 if a["cp"][0] > 0 else math.pi
            j = 0
        else:
            cls = "reflected" if refl else "lattice"
        out.append((cls, th + twopi * k, ph + twopi * j, r))
    nrand = 20 if tier == "quick" else 110
    for i in range(nrand):
        out.append(("random", float(rng.uniform(-7, 7)),
                    float(rng.uniform(1e-2, math.pi - 1e-2)) + twopi * (0, 0, 1, -1)[i % 4],
                    float(rng.uniform(0, 4))))
    for ph in (1e-3, 0.05, math.pi - 0.02, math.pi - 1e-3, math.pi / 2):
        for _ in range(1 if tier == "quick" else 4):
            out.append(("equator" if ph == math.pi / 2 else "nearpole", float(rng.uniform(-7, 7)), ph,
                        float(rng.uniform(0, 2))))
    for ph in (0.0, math.pi):
        for th in (0.0, 1.3, -2.0):
            out.append(("pole", th, ph, 1.5))
    for i in range(3 if tier == "quick" else 16):
        base = float(rng.uniform(0.05, math.pi - 0.05))
        out.append(("reflected", float(rng.uniform(-7, 7)), -base if i % 2 else math.pi + base, 1.0))
    # structured angles of spec/HarmonicsAudit.tla: polar angles just outside the pole cut ("threshold") and angles
    # many periods away from the principal range ("far"), each pim * pi + off rounded once to a float
    extra = em["audit"]["angles"]
    if tier != "thorough":
        # quick: the threshold angles nearest to the poles (1e-9, 1e-7; 1e-3 is the existing "nearpole" class), a third
        # of the far ones
        extra = [a for i, a in enumerate(extra)
                 if (a["class"] == "threshold" and a["phi"]["off"][1] >= 10 ** 7) or (a["class"] == "far" and i % 3 == 0)
                 or a["class"] == "pole"]
    for a in extra:
        out.append((a["class"], _angle_float(a["theta"]), _angle_float(a["phi"]), a["r"][0] / a["r"][1]))
    return out


def _angle_float(a):
    """pim * pi + off (exact pair of the specification) -> nearest float."""
    import mpmath as mp
    return float(mp.mpf(int(a["pim"])) * mp.pi + mp.mpf(int(a["off"][0])) / mp.mpf(int(a["off"][1])))


# ---------------------------------------------------------------------------------------------

class _Judge:
    """Collects per (function, class) the worst deviation and the first failing cases."""

    def __init__(self, rep):
        self.rep = rep
        self.bad = {}
        self.worst = {}

    def cmp(self, func, cls, obs, exp, scale, cases, tol=TOL):
        """obs, exp: arrays (rows, n); scale: per row (rows,) or scalar or (rows, n); cases(j)
        returns the replay record of column j."""
        obs = np.asarray(obs, dtype=float)
        dev = np.abs(obs - exp) / scale
        dev = np.where(np.isfinite(obs), dev, np.inf)
        w = float(dev.max()) if dev.size else 0.0
        self.worst[func] = max(self.worst.get(func, 0.0), w if math.isfinite(w) and w <= tol else 0.0)
        if w > tol:
            r, j = np.unravel_index(int(np.argmax(dev)), dev.shape)
            nbad = int((dev > tol).sum())
            rec = self.bad.setdefault((func, cls), {"n": 0, "worst": 0.0, "case": None})
            rec["n"] += nbad
            if w > rec["worst"]:
                rec["worst"] = w
                c = dict(cases(int(j)))
                c.update({"func": func, "cls": cls, "row": int(r), "observed": float(obs[r, j]),
                          "expected": float(np.broadcast_to(exp, obs.shape)[r, j]), "deviation_scaled": w})
                rec["case"] = c
        return w

    def flush(self):
        for (func, cls), rec in sorted(self.bad.items()):
            c = rec["case"]
            self.rep.violation(f"{func}:{cls}",
                               f"{func} deviates from the definition (spec/Harmonics.tla) for {cls} input: "
                               f"{rec['n']} entries beyond {TOL:g}, worst {rec['worst']:.3e} (scaled) at row "
                               f"{c['row']} = (l,m) {c.get('lm')}, theta={c.get('theta')}, phi={c.get('phi')}: "
                               f"observed {c['observed']!r}, expected {c['expected']!r}", c)


def _call(f, *a):
    with warnings.catch_warnings():
        warnings.simplefilter("ignore")
        with np.errstate(all="ignore"):
            return np.asarray(f(*a), dtype=float)


def _lm_of_row(r):
    l = int(math.isqrt(r))
    k = r - l * l
    return (l, 0) if k == 0 else (l, (k + 1) // 2) if k % 2 else (l, -(k // 2))


def run(tier: str) -> int:
    import grid.utils as gu
    rep = Report(PROP, tier, "model_checking")
    rng = np.random.default_rng(rep.seed)
    wd = tlc.scratch(f"{PROP}-{tier}")
    em, res = _tlc(wd, tier, rep)
    lt = int(em["ltree"])
    nrows = (lt + 1) ** 2
    if len(em["trees"]) != nrows:
        raise tlc.MachineryError("emission incomplete")
    rowlm = {int(t["row"]): (int(t["l"]), int(t["m"])) for t in em["trees"]}
    n_int, w_int, w_fd = _internal_checks(em, tier == "quick")
    rep.set("spec_internal", {"lattice_values_checked": n_int, "max_abs_diff_tree_vs_exact": w_int,
                              "max_abs_diff_Dtree_vs_central_difference": w_fd})
    cal = ylm.calibrate(em, seed=rep.seed, n_random=6 if tier == "quick" else 12)
    rep.set("ylm_calibration", cal)

    # ---- expected values from the trees -------------------------------------------------------
    angs = _angles(em, tier, rng)
    pts = [(a[1], a[2], a[3]) for a in angs]
    jobs = [(i, pts[i::32]) for i in range(32) if pts[i::32]]
    exp = {k: np.zeros((nrows, len(pts))) for k in ("y", "dtheta", "dphi", "solid")}
    with mp_.get_context("fork").Pool(WORKERS, initializer=_init, initargs=(str(wd / "harmonics_trees.json"),)) as pool:
        for i, out in pool.imap_unordered(_expect, jobs):
            for k in exp:
                exp[k][:, i::32] = out[k]
    ls = np.array([rowlm[r][0] for r in range(nrows)])
    sc = np.array([_scale(l) for l in ls])[:, None]
    J = _Judge(rep)
    classes = sorted({a[0] for a in angs})
    for cls in classes:
        sel = [i for i, a in enumerate(angs) if a[0] == cls]
        th = np.array([angs[i][1] for i in sel])
        ph = np.array([angs[i][2] for i in sel])
        rr = np.array([angs[i][3] for i in sel])

        def case(j, lmax=lt, th=th, ph=ph, rr=rr):
            return {"l_max": lmax, "theta": float(th[j]), "phi": float(ph[j]), "r": float(rr[j])}

        for func in ("generate_real_spherical_harmonics", "generate_real_spherical_harmonics_scipy"):
            try:
                got = _call(getattr(gu, func), lt, th.copy(), ph.copy())
                if got.shape != (nrows, len(sel)):
                    rep.violation(f"{func}:shape", f"{func}({lt}, ...) returned shape {got.shape}, the "
                                  f"specification has {nrows} rows (l,m), l <= {lt}", {"l_max": lt})
                else:
                    J.cmp(func, cls, got, exp["y"][:, sel], sc, case)
                    rep.evaluated(got.size, (func, cls))
            except Exception as e:  # a failing call is a violation, not a harness error
                rep.violation(f"{func}:{cls}:exception", f"{func} raised {type(e).__name__}: {e}", case(0))
        # derivatives
        func = "generate_derivative_real_spherical_harmonics"
        try:
            got = _call(getattr(gu, func), lt, th.copy(), ph.copy())
            if got.shape != (2, nrows, len(sel)):
                rep.violation(f"{func}:shape", f"returned shape {got.shape}", {"l_max": lt})
            else:
                dsc = sc * (ls[:, None] + 1)
                J.cmp(func + "[theta]", cls, got[0], exp["dtheta"][:, sel], dsc, case)
                if cls == "pole":   # documented convention: polar derivative reported as zero
                    J.cmp(func + "[phi]", cls, got[1], np.zeros_like(got[1]), dsc, case)
                else:
                    J.cmp(func + "[phi]", cls, got[1], exp["dphi"][:, sel], dsc, case)
                rep.evaluated(got.size, (func, cls))
        except Exception as e:
            rep.violation(f"{func}:{cls}:exception", f"{func} raised {type(e).__name__}: {e}", case(0))
        # solid harmonics
        func = "solid_harmonics"
        try:
            got = _call(gu.solid_harmonics, lt, np.stack([rr, th, ph], axis=1))
            if got.shape != (nrows, len(sel)):
                rep.violation(f"{func}:shape", f"returned shape {got.shape}", {"l_max": lt})
            else:
                ssc = np.maximum(rr[None, :], 1e-300) ** ls[:, None]
                ssc = np.where(ls[:, None] == 0, 1.0, ssc)
                ssc = np.where(rr[None, :] == 0, 1.0, ssc)
                J.cmp(func, cls, got, exp["solid"][:, sel], ssc, case)
                rep.evaluated(got.size, (func, cls))
                # "for all points": the same spherical points handed over in the other floating types a caller may hold
                # (extended precision is the type the library itself computes its harmonics in), evaluated twice on the
                # same array: same values, and the second evaluation sees the same points as the first
                for dt in (np.longdouble, np.float32):
                    sp = np.stack([rr, th, ph], axis=1).astype(dt)
                    keep = sp.copy()
                    g1 = _call(gu.solid_harmonics, lt, sp)
                    g2 = _call(gu.solid_harmonics, lt, sp)
                    name = f"{func}[{np.dtype(dt).name} points]"
                    if g1.shape != got.shape or not np.array_equal(sp, keep) or not np.array_equal(g1, g2, equal_nan=True):
                        rep.violation(f"{name}:{cls}:second-evaluation-differs",
                                      f"{func}(l_max={lt}, points of dtype {np.dtype(dt).name}) evaluated twice on the same array: "
                                      f"points changed: {not np.array_equal(sp, keep)}, results differ: "
                                      f"{g1.shape != got.shape or not np.array_equal(g1, g2, equal_nan=True)}", case(0))
                    elif dt is np.longdouble:
                        J.cmp(name, cls, g1, exp["solid"][:, sel], ssc, case)
                    rep.evaluated(g1.size, (name, cls))
        except Exception as e:
            rep.violation(f"{func}:{cls}:exception", f"{func} raised {type(e).__name__}: {e}", case(0))
    # annotate (l,m) of the failing rows
    for rec in J.bad.values():
        if rec["case"] is not None:
            rec["case"]["lm"] = list(rowlm.get(rec["case"]["row"], _lm_of_row(rec["case"]["row"])))

    # ---- l_max dependence: a smaller l_max returns the leading rows ------------------------------
    th = np.array([a[1] for a in angs if a[0] in ("random", "lattice")][:10])
    ph = np.array([a[2] for a in angs if a[0] in ("random", "lattice")][:10])
    sel = [i for i, a in enumerate(angs) if a[0] in ("random", "lattice")][:10]
    for lm in range(0, lt):
        n = (lm + 1) ** 2
        for func in ("generate_real_spherical_harmonics", "generate_real_spherical_harmonics_scipy"):
            try:
                got = _call(getattr(gu, func), lm, th.copy(), ph.copy())
                if got.shape != (n, len(sel)):
                    rep.violation(f"{func}:shape", f"{func}({lm}, ...) returned shape {got.shape}, expected ({n}, {len(sel)})",
                                  {"l_max": lm})
                else:
                    J.cmp(func, f"l_max={lm}", got, exp["y"][:n][:, sel], sc[:n],
                          lambda j, lm=lm: {"l_max": lm, "theta": float(th[j]), "phi": float(ph[j]), "r": 1.0})
                    rep.evaluated(got.size, (func, "lmax", lm))
            except Exception as e:
                rep.violation(f"{func}:l_max={lm}:exception", f"{func} raised {type(e).__name__}: {e}", {"l_max": lm})
        func = "generate_derivative_real_spherical_harmonics"
        try:
            got = _call(getattr(gu, func), lm, th.copy(), ph.copy())
            if got.shape != (2, n, len(sel)):
                rep.violation(f"{func}:shape", f"{func}({lm}, ...) returned shape {got.shape}", {"l_max": lm})
            else:
                dsc = (sc * (ls[:, None] + 1))[:n]
                cs = lambda j, lm=lm: {"l_max": lm, "theta": float(th[j]), "phi": float(ph[j]), "r": 1.0}  # noqa: E731
                J.cmp(func + "[theta]", f"l_max={lm}", got[0], exp["dtheta"][:n][:, sel], dsc, cs)
                J.cmp(func + "[phi]", f"l_max={lm}", got[1], exp["dphi"][:n][:, sel], dsc, cs)
                rep.evaluated(got.size, (func, "lmax", lm))
        except Exception as e:
            rep.violation(f"{func}:l_max={lm}:exception", f"{func} raised {type(e).__name__}: {e}", {"l_max": lm})
        func = "solid_harmonics"
        try:
            rr = np.array([angs[i][3] for i in sel])
            got = _call(gu.solid_harmonics, lm, np.stack([rr, th, ph], axis=1))
            if got.shape != (n, len(sel)):
                rep.violation(f"{func}:shape", f"{func}({lm}, ...) returned shape {got.shape}", {"l_max": lm})
            else:
                ssc = np.where((ls[:n, None] == 0) | (rr[None, :] == 0), 1.0, np.maximum(rr[None, :], 1e-300) ** ls[:n, None])
                J.cmp(func, f"l_max={lm}", got, exp["solid"][:n][:, sel], ssc,
                      lambda j, lm=lm, rr=rr: {"l_max": lm, "theta": float(th[j]), "phi": float(ph[j]), "r": float(rr[j])})
                rep.evaluated(got.size, (func, "lmax", lm))
        except Exception as e:
            rep.violation(f"{func}:l_max={lm}:exception", f"{func} raised {type(e).__name__}: {e}", {"l_max": lm})
    for rec in J.bad.values():
        if rec["case"] is not None and "lm" not in rec["case"]:
            rec["case"]["lm"] = list(_lm_of_row(rec["case"]["row"]))

    # ---- high degrees: relational checks + calibrated evaluator ----------------------------------
    lhigh = 80 if tier == "thorough" else 40
    nh = 2000 if tier == "thorough" else 160
    _high(rep, J, gu, lt, lhigh, nh, rng, em["audit"]["solidfactor"])
    # "for every maximum degree": one pass far beyond the degrees the test-suite reaches (its maximum is
    # l_max = 100), few angles incl. the structured ones (equator, near-pole, poles); a float64
    # accumulator in the recursion overflows near l = 150 and would go unnoticed below that
    lvery = 260 if tier == "thorough" else 200
    _high(rep, J, gu, lt, lvery, 24 if tier == "thorough" else 10, rng)
    rep.set("l_very_high", lvery)

    # ---- cart -> sph ----------------------------------------------------------------------------
    _cart(rep, gu, em, tier, rng)
    _cart_extra(rep, gu, em, tier, rng)

    # ---- conversion of derivatives, call forms (spec/HarmonicsAudit.tla) --------------------------
    _grad(rep, gu, em, tier, rng)
    _forms(rep, gu, em, wd, tier)

    J.flush()
    rep.set("max_scaled_deviation", {k: v for k, v in sorted(J.worst.items())})
    rep.set("tolerance_scaled", TOL)
    rep.set("traces_validated_against_impl", rep.evaluations)
    rep.set("exhaustive", False)
    rep.set("l_tree", lt)
    rep.set("l_high", lhigh)
    rep.set("angles", {c: sum(1 for a in angs if a[0] == c) for c in classes})
    rep.set("rule", "one case = one entry (function, l, m, angle) compared with the tree of spec/Harmonics.tla "
                    "evaluated in 50-digit arithmetic at the floats handed to the library; distinct = (function, angle class)")
    for a in angs[:4]:
        rep.sample({"class": a[0], "theta": a[1], "phi": a[2], "r": a[3], "l_max": lt})
    rep.assume("vf/expr_eval.py evaluates the trees correctly (cross-checked against TLC's exact lattice values in this run)")
    rep.assume("polar angles with sin(phi) < 0 are interpreted by the analytic continuation of the defining formula "
               "(the harmonic at the point (sin phi cos theta, sin phi sin theta, cos phi))")
    return rep.finish()


def _high(rep, J, gu, lt, lhigh, nh, rng, solidfactor=None):
    """lt < l <= lhigh: addition theorem, agreement of both implementations, calibrated evaluator."""
    chunk = 200
    done = 0
    ls = np.array([_lm_of_row(r)[0] for r in range((lhigh + 1) ** 2)])
    sc = np.sqrt((2 * ls + 1) / (2 * math.pi))[:, None]
    while done < nh:
        n = min(chunk, nh - done)
        th = rng.uniform(-7, 7, n)
        ph = rng.uniform(1e-2, math.pi - 1e-2, n) + 2 * math.pi * rng.integers(-1, 2, n)
        if done == 0:  # structured angles
            ph[:6] = (math.pi / 2, 1e-3, 0.05, math.pi - 1e-3, 0.0, math.pi)
            if n >= 10:   # just outside the pole cut of the derivative routine (Eps of spec/HarmonicsAudit.tla)
                ph[6:10] = (1e-9, math.pi - 1e-7, 2 * math.pi + 1e-7, -1e-9)
        done += n

        def case(j, th=th, ph=ph):
            return {"l_max": lhigh, "theta": float(th[j]), "phi": float(ph[j]), "r": 1.0}

        mine = ylm.ylm_angles(lhigh, th, ph)
        try:
            a = _call(gu.generate_real_spherical_harmonics, lhigh, th.copy(), ph.copy())
            b = _call(gu.generate_real_spherical_harmonics_scipy, lhigh, th.copy(), ph.copy())
        except Exception as e:
            rep.violation("high-degree:exception", f"harmonics raised {type(e).__name__}: {e}", case(0))
            return
        J.cmp("generate_real_spherical_harmonics", "high-degree", a, mine, sc, case)
        J.cmp("generate_real_spherical_harmonics_scipy", "high-degree", b, mine, sc, case)
        J.cmp("both-implementations-agree", "high-degree", a, b, sc, case)
        rep.evaluated(2 * a.size, ("high", "values"))
        # addition theorem on the library's own output (pairs i, i+1)
        u = np.stack([np.sin(ph) * np.cos(th), np.sin(ph) * np.sin(th), np.cos(ph)], axis=1)
        cosg = np.einsum("ij,ij->i", u, np.roll(u, -1, axis=0))
        pl = ylm.legendre(lhigh, cosg)
        for name, arr in (("generate_real_spherical_harmonics", a), ("generate_real_spherical_harmonics_scipy", b)):
            lhs = np.zeros((lhigh + 1, n))
            prod = arr * np.roll(arr, -1, axis=1)
            for l in range(lhigh + 1):
                lhs[l] = prod[l * l: (l + 1) ** 2].sum(axis=0)
            rhs = (2 * np.arange(lhigh + 1)[:, None] + 1) / (4 * math.pi) * pl
            J.cmp(name + "[addition-theorem]", "high-degree", lhs, rhs, (2 * np.arange(lhigh + 1)[:, None] + 1) / (4 * math.pi),
                  lambda j: {**case(j), "theta2": float(np.roll(th, -1)[j]), "phi2": float(np.roll(ph, -1)[j])})
            rep.evaluated(lhs.size, ("high", "addition"))
        # derivative against the calibrated evaluator (skip the two exact poles: zero convention)
        if lhigh <= 40 or done <= chunk:
            ld = min(lhigh, 40)
            keep = np.abs(np.tan(ph)) >= 1e-10
            dth, dph = ylm.dylm_angles(ld, th, ph)
            try:
                d = _call(gu.generate_derivative_real_spherical_harmonics, ld, th.copy(), ph.copy())
                nr = (ld + 1) ** 2
                dsc = (sc[:nr] * (ls[:nr, None] + 1))
                J.cmp("generate_derivative_real_spherical_harmonics[theta]", "high-degree", d[0], dth, dsc, case)
                J.cmp("generate_derivative_real_spherical_harmonics[phi]", "high-degree", d[1][:, keep], dph[:, keep], dsc,
                      lambda j: case(int(np.flatnonzero(keep)[j])))
                J.cmp("generate_derivative_real_spherical_harmonics[phi]", "pole", d[1][:, ~keep], 0.0 * dph[:, ~keep], dsc,
                      lambda j: case(int(np.flatnonzero(~keep)[j])))
                rep.evaluated(d.size, ("high", "derivative"))
            except Exception as e:
                rep.violation("derivative:high-degree:exception", f"raised {type(e).__name__}: {e}", case(0))
        # solid harmonics beyond the degrees of the trees: sqrt(4 pi/(2l+1)) r^l (SolidFactorTree of the specification,
        # evaluated in 50 digits per degree and radius) times the library's own surface harmonics judged above
        if solidfactor is not None and (lhigh <= 40 or done <= chunk):
            import mpmath as mp
            ld = min(lhigh, 40)
            ns = min(n, 24)
            nr = (ld + 1) ** 2
            rr = np.concatenate([[1.0, 0.5, 2.0, 1e-3], rng.uniform(0.2, 3.0, ns - 4)])
            fac = np.array([[float(evaluate(solidfactor, {"l": mp.mpf(l), "r": mp.mpf(float(r))}, "mp")) for r in rr]
                            for l in range(ld + 1)])
            try:
                so = _call(gu.solid_harmonics, ld, np.stack([rr, th[:ns], ph[:ns]], axis=1))
                if so.shape != (nr, ns):
                    rep.violation("solid_harmonics:shape", f"solid_harmonics({ld}, ...) returned shape {so.shape}", {"l_max": ld})
                else:
                    want = fac[ls[:nr]] * a[:nr, :ns]
                    J.cmp("solid_harmonics", "high-degree", so, want, sc[:nr] * fac[ls[:nr]],
                          lambda j: {**case(j), "r": float(rr[j]), "l_max": ld})
                    rep.evaluated(so.size, ("high", "solid"))
            except Exception as e:
                rep.violation("solid_harmonics:high-degree:exception", f"raised {type(e).__name__}: {e}", case(0))
    for rec in J.bad.values():
        if rec["case"] is not None and "lm" not in rec["case"]:
            rec["case"]["lm"] = list(_lm_of_row(rec["case"]["row"]))


def _cart(rep, gu, em, tier, rng):
    """convert_cart_to_sph inverts the spherical parametrisation (tree `cart`) for any centre."""
    import mpmath as mp
    worst = {"lattice": 0.0, "forward": 0.0, "roundtrip": 0.0}

    def conv(p, c):
        with warnings.catch_warnings():
            warnings.simplefilter("ignore")
            with np.errstate(all="ignore"):
                return np.asarray(gu.convert_cart_to_sph(np.asarray(p, dtype=float), c), dtype=float)

    # (a) integer points / centres with the conversions expected by TLC (exact rationals)
    by_c = {}
    for s in em["sph"]:
        by_c.setdefault(tuple(s["c"]), []).append(s)
    for c, items in by_c.items():
        P = np.array([s["p"] for s in items], dtype=float)
        for cen, tag in ((np.array(c, dtype=float), "array"), (list(map(float, c)), "list")) + (((None, "none"),) if c == (0, 0, 0) else ()):
            try:
                got = conv(P, cen)
            except Exception as e:
                rep.violation(f"convert_cart_to_sph:centre={list(c)}:exception", f"raised {type(e).__name__}: {e}", {"c": c})
                continue
            if got.shape != (len(items), 3):
                rep.violation("convert_cart_to_sph:shape", f"shape {got.shape}", {"c": c})
                continue
            for s, (r, th, ph) in zip(items, got):
                e = [abs(r - s["r"]),
                     abs(math.cos(th) - s["ct"][0] / s["ct"][1]), abs(math.sin(th) - s["st"][0] / s["st"][1]),
                     abs(math.cos(ph) - s["cp"][0] / s["cp"][1]), abs(math.sin(ph) - s["sp"][0] / s["sp"][1])]
                dev = max(e)
                inrange = (r >= 0) and (-math.pi <= th <= math.pi) and (0 <= ph <= math.pi)
                rep.evaluated(1, ("cart", "lattice", tuple(s["p"]), c))
                if not (dev <= 1e-9 and inrange):
                    kind = "origin" if s["r"] == 0 else "z-axis" if s["sp"][0] == 0 else "generic"
                    rep.violation(f"convert_cart_to_sph:{kind}-point",
                                  f"convert_cart_to_sph({s['p']}, center={list(c)} as {tag}) = (r,theta,phi) {(r, th, ph)}; "
                                  f"specification: r={s['r']}, cos/sin theta={s['ct']},{s['st']}, cos/sin phi={s['cp']},{s['sp']}",
                                  {"func": "convert_cart_to_sph", "p": s["p"], "c": list(c), "expected": s})
                else:
                    worst["lattice"] = max(worst["lattice"], dev)
    # (b) forward: float (r, theta, phi) in the principal range -> Cart (tree, 50 digits) -> library
    n = 60 if tier == "quick" else 600
    cart = em["cart"]
    for i in range(n):
        r = float(rng.uniform(0.1, 5))
        th = float(rng.uniform(-math.pi, math.pi))
        ph = float(rng.uniform(1e-2, math.pi - 1e-2)) if i % 7 else (0.0 if i % 2 else math.pi)
        c = [0.0, 0.0, 0.0] if i % 3 == 0 else [float(x) for x in rng.integers(-6, 7, 3)] if i % 3 == 1 else [float(x) for x in rng.uniform(-3, 3, 3)]
        env = {"r": mp.mpf(r), "theta": mp.mpf(th), "phi": mp.mpf(ph), "cx": mp.mpf(c[0]), "cy": mp.mpf(c[1]), "cz": mp.mpf(c[2])}
        p = [float(evaluate(t, env, "mp")) for t in cart]
        try:
            got = conv([p], None if (i % 3 == 0 and i % 2) else np.array(c))[0]
        except Exception as e:
            rep.violation("convert_cart_to_sph:forward:exception", f"raised {type(e).__name__}: {e}", {"p": p, "c": c})
            continue
        rep.evaluated(1, ("cart", "forward", i))
        if ph in (0.0, math.pi):   # on the axis the azimuth is 0 by convention (x = y = 0 up to rounding of p)
            exp_ = (r, None, ph)
            dev = max(abs(got[0] - r), abs(got[2] - ph) if ph == 0.0 else abs(got[2] - ph))
            tol = 1e-6  # p is rounded to floats: the polar angle near a pole is sqrt-conditioned (acos)
        else:
            dth = abs((got[1] - th + math.pi) % (2 * math.pi) - math.pi)
            dev = max(abs(got[0] - r), dth, abs(got[2] - ph))
            tol = 1e-9
        if not dev <= tol:
            rep.violation("convert_cart_to_sph:forward",
                          f"Sph(Cart(r={r}, theta={th}, phi={ph}; c={c})) = {got.tolist()}", {"func": "convert_cart_to_sph", "p": p, "c": c,
                                                                                             "expected": [r, th, ph]})
        elif tol == 1e-9:
            worst["forward"] = max(worst["forward"], dev)
    # (c) round trip: float points / centres -> library -> Cart tree (50 digits) = p; ranges
    n = 100 if tier == "quick" else 1000
    for i in range(n):
        p = rng.uniform(-5, 5, 3)
        c = np.zeros(3) if i % 4 == 0 else rng.uniform(-5, 5, 3)
        if i % 10 == 3:
            p = c.copy()                      # the centre itself: r = 0, theta = phi = 0
        if i % 10 == 5:
            p = c + np.array([0.0, 0.0, float(rng.choice([-2.5, 1.25]))])   # on the z axis
        if i % 10 == 7:
            p = c + np.array([float(rng.choice([-1.5, 2.0])), 0.0, 0.0])    # on the x axis (theta = 0 or pi)
        try:
            got = conv([p], c)[0]
        except Exception as e:
            rep.violation("convert_cart_to_sph:roundtrip:exception", f"raised {type(e).__name__}: {e}", {"p": p.tolist(), "c": c.tolist()})
            continue
        rep.evaluated(1, ("cart", "roundtrip", i))
        env = {"r": mp.mpf(got[0]), "theta": mp.mpf(got[1]), "phi": mp.mpf(got[2]),
               "cx": mp.mpf(c[0]), "cy": mp.mpf(c[1]), "cz": mp.mpf(c[2])}
        if not np.all(np.isfinite(got)):
            dev = float("inf")
        else:
            back = [float(evaluate(t, env, "mp")) for t in cart]
            dev = float(np.abs(np.array(back) - p).max())
        inrange = (got[0] >= 0) and (-math.pi <= got[1] <= math.pi) and (0 <= got[2] <= math.pi)
        conv_ok = True
        if i % 10 == 3:
            conv_ok = got[0] == 0 and got[1] == 0 and got[2] == 0
        if i % 10 == 5:
            conv_ok = got[1] == 0 and (got[2] == 0 or abs(got[2] - math.pi) < 1e-15)
        if not (dev <= 1e-9 and inrange and conv_ok):
            kind = "origin" if i % 10 == 3 else "z-axis" if i % 10 == 5 else "generic"
            rep.violation(f"convert_cart_to_sph:{kind}-point",
                          f"Cart(convert_cart_to_sph(p, c)) differs from p by {dev:.3e} or leaves the principal range / "
                          f"zero conventions: p={p.tolist()}, c={c.tolist()}, (r,theta,phi)={got.tolist()}",
                          {"func": "convert_cart_to_sph", "p": p.tolist(), "c": c.tolist()})
        else:
            worst["roundtrip"] = max(worst["roundtrip"], dev)
    # input validation documented in the code: shape (N, 3) and centre of length 3
    for bad, cen in ((np.zeros(3), None), (np.zeros((2, 2)), None), (np.zeros((2, 3)), [0.0, 0.0])):
        try:
            gu.convert_cart_to_sph(bad, cen)
            rep.violation("convert_cart_to_sph:accepts-malformed", f"accepted points of shape {bad.shape} / centre {cen}",
                          {"shape": list(bad.shape)})
        except ValueError:
            pass
        except Exception as e:
            rep.violation("convert_cart_to_sph:malformed:exception", f"raised {type(e).__name__} instead of ValueError: {e}",
                          {"shape": list(bad.shape)})
        rep.evaluated(1, ("cart", "malformed", bad.shape))
    rep.set("cart_to_sph_max_dev", worst)


# ---------------------------------------------------------------------------------------------
# call forms (spec/HarmonicsAudit.tla section 4): replay, observations, judged by TLC

_NP = {"f8": np.float64, "f4": np.float32, "g": np.longdouble, "i8": np.int64}
_LF = {"int": int, "int64": np.int64, "int32": np.int32}
_FUNC = {"ylm": "generate_real_spherical_harmonics", "ylm_scipy": "generate_real_spherical_harmonics_scipy",
         "dylm": "generate_derivative_real_spherical_harmonics", "solid": "solid_harmonics",
         "cart": "convert_cart_to_sph", "grad": "convert_derivative_from_spherical_to_cartesian"}
_OBL = ("returns", "shape", "value", "unchanged", "repeatable")
_CORRUPT = None   # selftest hook: function(list of observation records) -> list written for the judge


def _form_pointsets(audit):
    """name -> float64 array (n, 3) of (theta, phi, r): the VALUES the library sees for each array type."""
    out = {}
    for dt in ("f8", "f4", "i8"):
        src = audit["formpoints"]["int" if dt == "i8" else "real"]
        a = np.array([[q[0] / q[1] for q in pt] for pt in src], dtype=float)
        a = a.astype(_NP[dt]).astype(float)
        out[dt] = a
        b = a.copy()
        b[:, 0] = b[:, 1]
        out[dt + ":aliased"] = b
    out["g"], out["g:aliased"] = out["f8"], out["f8:aliased"]      # every double is an extended-precision number
    return out


def _layout(base, layout):
    """base: (n, k) array of the target dtype -> the array object handed to the library."""
    n, k = base.shape
    if layout == "strided":
        big = np.zeros((2 * n, k + 2), dtype=base.dtype)
        big[::2, 1:k + 1] = base
        return big[::2, 1:k + 1]
    if layout == "fortran":
        return np.asfortranarray(base)
    a = np.ascontiguousarray(base).copy()
    if layout == "readonly":
        a.setflags(write=False)
    return a


def _count(a, count):
    return a[:0] if count == "none" else a[:1] if count == "one" else a


def _same(a, b):
    a, b = np.asarray(a), np.asarray(b)
    return a.shape == b.shape and a.dtype == b.dtype and bool(np.array_equal(a, b, equal_nan=True))


def _observe(call, held, shape, value):
    """call(): the library call on the held objects; value(result) -> (ok, worst deviation)."""
    o = {k: True for k in _OBL}
    o["detail"] = ""
    o["nvals"] = 0
    o["dev"] = 0.0
    before = [np.array(h, copy=True) for h in held]
    try:
        with warnings.catch_warnings():
            warnings.simplefilter("ignore")
            with np.errstate(all="ignore"):
                g1 = np.asarray(call())
    except Exception as e:
        o["returns"] = False
        o["detail"] = f"raised {type(e).__name__}: {str(e)[:160]}"
        return o
    if not all(_same(h, b) for h, b in zip(held, before)):
        o["unchanged"] = False
        o["detail"] = "an argument array was modified by the call"
    try:
        with warnings.catch_warnings():
            warnings.simplefilter("ignore")
            with np.errstate(all="ignore"):
                g2 = np.asarray(call())
        if not _same(g1, g2):
            o["repeatable"] = False
            o["detail"] = o["detail"] or "the second call with the same objects returned something else"
    except Exception as e:
        o["repeatable"] = False
        o["detail"] = o["detail"] or f"second call raised {type(e).__name__}: {str(e)[:160]}"
    if g1.shape != tuple(shape):
        o["shape"] = False
        o["detail"] = o["detail"] or f"shape {g1.shape}, expected {tuple(shape)}"
        return o
    o["nvals"] = int(g1.size)
    ok, dev = value(np.asarray(g1, dtype=float))
    o["dev"] = float(dev)
    if not ok:
        o["value"] = False
        o["detail"] = o["detail"] or f"deviates from the definition by {dev:.3e} (scaled)"
    return o


def _sph_dev(got, items):
    """convert_cart_to_sph output rows against TLC's exact conversions (cos / sin of the angles, range)."""
    worst = 0.0
    for s, (r, th, ph) in zip(items, got):
        e = [abs(r - s["r"]), abs(math.cos(th) - s["ct"][0] / s["ct"][1]), abs(math.sin(th) - s["st"][0] / s["st"][1]),
             abs(math.cos(ph) - s["cp"][0] / s["cp"][1]), abs(math.sin(ph) - s["sp"][0] / s["sp"][1])]
        d = max(e)
        if not ((r >= 0) and (-math.pi <= th <= math.pi) and (0 <= ph <= math.pi)) or not math.isfinite(d):
            d = float("inf")
        worst = max(worst, d)
    return worst


def _cart_items(em, c):
    """A few of TLC's integer points about centre c: the centre itself, both half axes, generic points."""
    items = sorted((s for s in em["sph"] if tuple(s["c"]) == tuple(c)), key=lambda s: s["p"])
    origin = [s for s in items if s["r"] == 0][:1]
    zneg = [s for s in items if s["r"] > 0 and s["sp"][0] == 0 and s["cp"][0] < 0][:1]
    zpos = [s for s in items if s["r"] > 0 and s["sp"][0] == 0 and s["cp"][0] > 0][:1]
    gen = [s for s in items if s["sp"][0] != 0]
    gen = gen[:: max(1, len(gen) // 4)][:4]
    return gen[:1] + origin + zneg + gen[1:] + zpos


def _forms(rep, gu, em, wd, tier):
    import mpmath as mp
    audit = em["audit"]
    lf = int(audit["lform"])
    nrows = (lf + 1) ** 2
    psets = _form_pointsets(audit)
    names = sorted(psets)
    # expected values of the trees at the values of every point set
    jobs = [(i, [tuple(map(float, row)) for row in psets[nm]], nrows) for i, nm in enumerate(names)]
    exp = {}
    with mp_.get_context("fork").Pool(min(WORKERS, len(jobs)), initializer=_init,
                                      initargs=(str(wd / "harmonics_trees.json"),)) as pool:
        for i, out in pool.imap_unordered(_expect, jobs):
            exp[names[i]] = out
    ls = np.array([_lm_of_row(r)[0] for r in range(nrows)])
    sc = np.array([_scale(l) for l in ls])[:, None]
    dsc = sc * (ls[:, None] + 1)
    gtrees = audit["grad"]["general"]
    obs = []
    f4dev = {}
    for rec in audit["forms"]:
        f = rec["form"]
        tol = 10.0 ** (-int(rec["tolexp"]))
        func, dt, lay, cnt, extra = f["func"], f["dtype"], f["layout"], f["count"], f["extra"]
        fn = getattr(gu, _FUNC[func])
        if func in ("ylm", "ylm_scipy", "dylm"):
            key = dt + (":aliased" if lay == "aliased" else "")
            vals = psets[key]
            n = {"none": 0, "one": 1, "many": len(vals)}[cnt]
            base = vals[:, :2].astype(_NP[dt])
            if lay == "aliased":
                a = _count(_layout(base[:, 1:2], "plain")[:, 0], cnt)
                th = ph = a
                held = [a]
            elif lay == "strided":
                v = _layout(base, "strided")
                th, ph = _count(v[:, 0], cnt), _count(v[:, 1], cnt)
                held = [th, ph]
            else:
                th = _count(_layout(base[:, 0:1], lay)[:, 0], cnt)
                ph = _count(_layout(base[:, 1:2], lay)[:, 0], cnt)
                held = [th, ph]
            lmax = _LF[extra](lf)
            e = exp[key]
            if func == "dylm":
                want = np.stack([e["dtheta"][:, :n], e["dphi"][:, :n]])
                scale = dsc[None]
                shape = (2, nrows, n)
            else:
                want, scale, shape = e["y"][:, :n], sc, (nrows, n)

            def value(g, want=want, scale=scale, tol=tol):
                if g.size == 0:
                    return True, 0.0
                dev = np.abs(g - want) / scale
                dev = np.where(np.isfinite(g), dev, np.inf)
                return bool(dev.max() <= tol), float(dev.max())
            o = _observe(lambda: fn(lmax, th, ph), held, shape, value)
        elif func == "solid":
            vals = psets[dt]
            n = {"none": 0, "one": 1, "many": len(vals)}[cnt]
            base = vals[:, [2, 0, 1]].astype(_NP[dt])          # (r, theta, phi)
            pts = _count(_layout(base, lay), cnt)
            lmax = _LF[extra](lf)
            rr = vals[:n, 2]
            ssc = np.where((ls[:, None] == 0) | (rr[None, :] == 0), 1.0, np.maximum(rr[None, :], 1e-300) ** ls[:, None])
            want = exp[dt]["solid"][:, :n]

            def value(g, want=want, ssc=ssc, tol=tol):
                if g.size == 0:
                    return True, 0.0
                dev = np.abs(g - want) / ssc
                dev = np.where(np.isfinite(g), dev, np.inf)
                return bool(dev.max() <= tol), float(dev.max())
            o = _observe(lambda: fn(lmax, pts), [pts], (nrows, n), value)
        elif func == "cart":
            c = (0, 0, 0) if extra == "none" else (1, -2, 3)
            items = _cart_items(em, c)
            n = {"none": 0, "one": 1, "many": len(items)}[cnt]
            base = np.array([s["p"] for s in items], dtype=float).astype(_NP[dt])
            pts = _count(_layout(base, lay), cnt)
            cen = {"none": None, "array": np.array(c, dtype=float), "list": [float(x) for x in c],
                   "tuple": tuple(int(x) for x in c), "intarray": np.array(c, dtype=np.int64)}[extra]
            held = [pts] + ([cen] if isinstance(cen, np.ndarray) else [])

            def value(g, items=items[:n], tol=tol):
                if g.size == 0:
                    return True, 0.0
                d = _sph_dev(g, items)
                return d <= tol, d
            o = _observe(lambda: fn(pts, cen), held, (n, 3), value)
        else:   # grad: scalar arguments
            q = audit["gradscalar"]["int" if extra == "int" else "real"]
            fl = [x[0] / x[1] for x in q]
            args = {"float": [float(x) for x in fl], "npfloat": [np.float64(x) for x in fl],
                    "int": [int(x) for x in fl], "zerod": [np.array(x) for x in fl]}[extra]
            env = dict(zip(("dr", "dtheta", "dphi", "r", "theta", "phi"), (mp.mpf(x) for x in fl)))
            env.update({"cx": 0, "cy": 0, "cz": 0})
            want = np.array([float(evaluate(t, env, "mp")) for t in gtrees])
            gs = max(abs(x) for x in fl[:3]) * max(1.0, 1.0 / fl[3], 1.0 / abs(fl[3] * math.sin(fl[5])))

            def value(g, want=want, gs=gs, tol=tol):
                dev = np.abs(g - want) / gs
                dev = np.where(np.isfinite(g), dev, np.inf)
                return bool(dev.max() <= tol), float(dev.max())
            o = _observe(lambda: fn(*args), [a for a in args if isinstance(a, np.ndarray)], (3,), value)
        if dt == "f4" and o["returns"] and o["shape"]:
            f4dev[func] = max(f4dev.get(func, 0.0), o["dev"] if math.isfinite(o["dev"]) else 0.0)
        o["form"] = f
        obs.append(o)
        rep.evaluated(max(1, o["nvals"]), ("form", func, dt, lay, cnt, extra))
    written = [{k: o[k] for k in _OBL + ("form", "nvals")} for o in obs]
    if _CORRUPT is not None:      # selftest of the judge: tamper with the observation file only
        written = _CORRUPT(written)
    with open(wd / "harmonics_obs.json", "w") as fh:
        json.dump({"obs": written}, fh)
    res = tlc.run_tlc("HarmonicsAudit", "Judge_HarmonicsAudit.cfg", wd, workers=1, timeout=600).require_ok("Judge_HarmonicsAudit")
    rep.tlc(res, "Judge_HarmonicsAudit")
    if res.status == "violation":
        rep.violation(f"forms:{','.join(res.violated)}", f"TLC: {res.violated} - the replay did not cover the catalogue of call forms "
                      f"of spec/HarmonicsAudit.tla ({len(obs)} observations)", {"observations": len(obs)})
    fails = tlc.tagged(res.stdout, "FORMFAIL")
    flagged = {}
    for item in fails:
        idx = int(item[1]) - 1
        for ob in sorted(item[3]):
            flagged.setdefault(idx, []).append(ob)
    mine = {i: sorted(k for k in _OBL if not o[k]) for i, o in enumerate(obs) if not all(o[k] for k in _OBL)}
    if _CORRUPT is None and {i: sorted(v) for i, v in flagged.items() if i < len(obs)} != mine:
        raise tlc.MachineryError(f"FormJudged and the harness disagree about the failing forms: {flagged} vs {mine}")
    flagged = {i: v for i, v in flagged.items() if i < len(obs)}
    groups = {}
    for i, obl in flagged.items():
        f = obs[i]["form"]
        for ob in obl:
            groups.setdefault((f["func"], f["dtype"], ob), []).append(i)
    for (func, dt, ob), idxs in sorted(groups.items()):
        first = obs[idxs[0]]
        lst = ", ".join(f"{obs[i]['form']['layout']}/{obs[i]['form']['count']}/{obs[i]['form']['extra']}" for i in idxs[:6])
        rep.violation(f"form:{func}:{dt}:{ob}",
                      f"{_FUNC[func]} with {np.dtype(_NP[dt]).name} arrays: obligation '{ob}' of spec/HarmonicsAudit.tla fails for "
                      f"{len(idxs)} call form(s) (layout/count/{'centre' if func == 'cart' else 'l_max type'}: {lst}"
                      f"{', ...' if len(idxs) > 6 else ''}); first: {first['detail']}",
                      {"func": "form", "form": first["form"], "obligation": ob, "detail": first["detail"]})
    rep.set("call_forms", {"judged": len(obs), "failing": len(flagged), "l_max": lf,
                           "max_scaled_deviation_float32": {k: v for k, v in sorted(f4dev.items())}})


# ---------------------------------------------------------------------------------------------
# conversion of derivatives (spec/HarmonicsAudit.tla section 1)

def _grad(rep, gu, em, tier, rng):
    import mpmath as mp
    audit = em["audit"]
    f = gu.convert_derivative_from_spherical_to_cartesian
    name = "convert_derivative_from_spherical_to_cartesian"
    worst = {"lattice": 0.0, "float": 0.0, "conventions": 0.0}
    bad = {}

    def call(d, r, th, ph):
        with warnings.catch_warnings():
            warnings.simplefilter("ignore")
            with np.errstate(all="ignore"):
                return np.asarray(f(d[0], d[1], d[2], r, th, ph), dtype=float)

    def judge(cls, kind, got, want, gs, case):
        dev = np.abs(got - want) / gs if got.shape == (3,) else np.array([np.inf])
        dev = float(np.where(np.isfinite(got), dev, np.inf).max()) if got.shape == (3,) else float("inf")
        rep.evaluated(3, (name, cls, kind))
        if dev <= TOL:
            worst[cls] = max(worst[cls], dev)
            return
        rec = bad.setdefault((cls, kind), {"n": 0, "worst": 0.0, "case": None})
        rec["n"] += 1
        if dev > rec["worst"]:
            rec["worst"] = dev
            rec["case"] = dict(case, func=name, kind=kind, observed=got.tolist(), expected=[float(x) for x in want],
                               deviation_scaled=dev)

    # (a) TLC's exact cases on the lattice (rational r, integer derivative vectors, exact rational gradient)
    cases = audit["gradcases"] if tier == "thorough" else audit["gradcases"][:: 2]
    for c in cases:
        ph = 0.0 if c["kind"] == "phi0" else math.atan2(c["sp"][0] / c["sp"][1], c["cp"][0] / c["cp"][1])
        th = math.atan2(c["st"][0] / c["st"][1], c["ct"][0] / c["ct"][1])
        r = c["r"][0] / c["r"][1]
        d = [float(x) for x in c["d"]]
        want = np.array([g[0] / g[1] for g in c["g"]])
        md = max(abs(x) for x in d)
        gs = md if c["kind"] == "r0" else md * max(1.0, 1.0 / r) if c["kind"] == "phi0" else \
            md * max(1.0, 1.0 / r, 1.0 / abs(r * math.sin(ph)))
        try:
            got = call(d, r, th, ph)
        except Exception as e:
            rep.violation(f"{name}:{c['kind']}:exception", f"raised {type(e).__name__}: {e}", {"d": d, "r": r, "theta": th, "phi": ph})
            continue
        judge("lattice", c["kind"], got, want, gs, {"d": d, "r": r, "theta": th, "phi": ph})
    # (b) float arguments against the trees (50 digits): regular points, radii over nine decades
    trees = audit["grad"]
    n = 40 if tier == "quick" else 400
    for i in range(n):
        r = float(10.0 ** rng.uniform(-6, 3))
        th = float(rng.uniform(-7, 7))
        ph = float(rng.uniform(1e-3, math.pi - 1e-3)) * (1 if i % 4 else -1) + 2 * math.pi * (0, 1, -1)[i % 3]
        d = [float(x) for x in rng.normal(size=3)]
        kind = "general"
        if i % 10 == 7:
            r, kind = 0.0, "r0"
        elif i % 10 == 9:
            ph, kind = 0.0, "phi0"
        env = {"dr": mp.mpf(d[0]), "dtheta": mp.mpf(d[1]), "dphi": mp.mpf(d[2]), "r": mp.mpf(r), "theta": mp.mpf(th),
               "phi": mp.mpf(ph), "cx": 0, "cy": 0, "cz": 0}
        want = np.array([float(evaluate(t, env, "mp")) for t in trees[kind]])
        md = max(abs(x) for x in d)
        gs = md if kind == "r0" else md * max(1.0, 1.0 / r) if kind == "phi0" else md * max(1.0, 1.0 / r, 1.0 / abs(r * math.sin(ph)))
        try:
            got = call(d, r, th, ph)
        except Exception as e:
            rep.violation(f"{name}:{kind}:exception", f"raised {type(e).__name__}: {e}", {"d": d, "r": r, "theta": th, "phi": ph})
            continue
        judge("float" if kind == "general" else "conventions", kind, got, want, gs, {"d": d, "r": r, "theta": th, "phi": ph})
    for (cls, kind), rec in sorted(bad.items()):
        c = rec["case"]
        rep.violation(f"{name}:{kind}:{cls}",
                      f"{name}(d={c['d']}, r={c['r']}, theta={c['theta']}, phi={c['phi']}) = {c['observed']}; the chain rule "
                      f"through the Jacobian of the parametrisation (GradTree, spec/HarmonicsAudit.tla; kind '{kind}') gives "
                      f"{c['expected']}: {rec['n']} case(s) beyond {TOL:g}, worst {rec['worst']:.3e} (scaled)", c)
    rep.set("gradient_conversion_max_dev", worst)


# ---------------------------------------------------------------------------------------------
# convert_cart_to_sph: homogeneity (very large / very small coordinates), signed zeros, AtomGrid route

def _cart_extra(rep, gu, em, tier, rng):
    import mpmath as mp
    worst = {"scaled": 0.0, "signed-zero": 0.0, "atomgrid-route": 0.0}
    items = em["sph"] if tier == "thorough" else em["sph"][::4]
    by_c = {}
    for s in items:
        by_c.setdefault(tuple(s["c"]), []).append(s)
    # Sph(t p; t c) = (t r, theta, phi) (SphHomogeneous); t a power of two, so t p, t c and t r are exact
    for k in (300, -300):
        t = 2.0 ** k
        for c, its in by_c.items():
            P = np.array([s["p"] for s in its], dtype=float) * t
            cen = np.array(c, dtype=float) * t
            try:
                with warnings.catch_warnings():
                    warnings.simplefilter("ignore")
                    with np.errstate(all="ignore"):
                        got = np.asarray(gu.convert_cart_to_sph(P, cen), dtype=float)
            except Exception as e:
                rep.violation(f"convert_cart_to_sph:scaled-2^{k}:exception", f"raised {type(e).__name__}: {e}", {"c": list(c), "k": k})
                continue
            if got.shape != (len(its), 3):
                rep.violation("convert_cart_to_sph:shape", f"shape {got.shape}", {"c": list(c), "k": k})
                continue
            got[:, 0] /= t
            for s, row in zip(its, got):
                d = _sph_dev([row], [s])
                rep.evaluated(1, ("cart", "scaled", k, tuple(s["p"]), c))
                if not d <= 1e-9:
                    kind = "origin" if s["r"] == 0 else "z-axis" if s["sp"][0] == 0 else "generic"
                    rep.violation(f"convert_cart_to_sph:scaled-2^{k}:{kind}-point",
                                  f"convert_cart_to_sph(2^{k} * {s['p']}, center = 2^{k} * {list(c)}) = (2^{k} * {row[0]}, {row[1]}, {row[2]}); "
                                  f"specification (homogeneity): r = 2^{k} * {s['r']}, cos/sin theta={s['ct']},{s['st']}, "
                                  f"cos/sin phi={s['cp']},{s['sp']}", {"func": "convert_cart_to_sph[scaled]", "p": s["p"], "c": list(c), "k": k})
                else:
                    worst["scaled"] = max(worst["scaled"], d)
    # signed zeros among the coordinates: still a point of space - range and Cart(Sph(p)) = p (no convention on theta)
    cart = em["cart"]
    zs = (0.0, -0.0)
    pts = [(x, y, z) for x in zs for y in zs for z in (1.5, -2.0, 0.0, -0.0)] + [(-0.0, 2.0, 1.0), (3.0, -0.0, -1.0), (-0.0, -0.0, -0.0)]
    for p in pts:
        for c in ((0.0, 0.0, 0.0), (1.0, -2.0, 3.0)):
            P = np.array([[p[0] + c[0], p[1] + c[1], p[2] + c[2]]]) if c != (0.0, 0.0, 0.0) else np.array([p])
            try:
                with np.errstate(all="ignore"):
                    got = np.asarray(gu.convert_cart_to_sph(P, np.array(c)), dtype=float)[0]
            except Exception as e:
                rep.violation("convert_cart_to_sph:signed-zero:exception", f"raised {type(e).__name__}: {e}", {"p": P.tolist(), "c": list(c)})
                continue
            rep.evaluated(1, ("cart", "signed-zero", str(p), c))
            if np.all(np.isfinite(got)):
                env = {"r": mp.mpf(got[0]), "theta": mp.mpf(got[1]), "phi": mp.mpf(got[2]),
                       "cx": mp.mpf(c[0]), "cy": mp.mpf(c[1]), "cz": mp.mpf(c[2])}
                back = np.array([float(evaluate(t, env, "mp")) for t in cart])
                dev = float(np.abs(back - P[0]).max())
            else:
                dev = float("inf")
            inrange = (got[0] >= 0) and (-math.pi <= got[1] <= math.pi) and (0 <= got[2] <= math.pi)
            if not (dev <= 1e-9 and inrange):
                rep.violation("convert_cart_to_sph:signed-zero",
                              f"convert_cart_to_sph({P.tolist()}, center={list(c)}) = {got.tolist()}: Cart of it differs from the point by "
                              f"{dev:.3e} or it leaves r >= 0, theta in [-pi, pi], phi in [0, pi]",
                              {"func": "convert_cart_to_sph[signed-zero]", "p": P[0].tolist(), "c": list(c)})
            else:
                worst["signed-zero"] = max(worst["signed-zero"], dev)
    # the same conversion reached through AtomGrid.convert_cartesian_to_spherical(points, center) (explicit points:
    # the method documents the same result), also for one point given as a flat array of three numbers
    try:
        from grid.atomgrid import AtomGrid
        from grid.onedgrid import GaussLegendre
        from grid.rtransform import BeckeRTransform
        ag = AtomGrid(BeckeRTransform(0.0, 1.5).transform_1d_grid(GaussLegendre(4)), degrees=[3], center=np.array([0.3, -0.2, 0.1]))
    except Exception as e:  # cannot build the carrier grid: not this property's business
        ag = None
        rep.set("atomgrid_route", f"skipped: {type(e).__name__}: {e}")
    if ag is not None:
        for c, its in by_c.items():
            its = its[:12]
            P = np.array([s["p"] for s in its], dtype=float)
            try:
                got = np.asarray(ag.convert_cartesian_to_spherical(P, np.array(c, dtype=float)), dtype=float)
                one = np.asarray(ag.convert_cartesian_to_spherical(P[0].copy(), np.array(c, dtype=float)), dtype=float)
            except Exception as e:
                rep.violation("convert_cart_to_sph:atomgrid-route:exception", f"AtomGrid.convert_cartesian_to_spherical raised "
                              f"{type(e).__name__}: {e}", {"c": list(c)})
                continue
            d = _sph_dev(got, its) if got.shape == (len(its), 3) else float("inf")
            d1 = _sph_dev(one, its[:1]) if one.shape == (1, 3) else float("inf")
            rep.evaluated(len(its) + 1, ("cart", "atomgrid-route", c))
            if not max(d, d1) <= 1e-9:
                rep.violation("convert_cart_to_sph:atomgrid-route",
                              f"AtomGrid.convert_cartesian_to_spherical(points, center={list(c)}) differs from the specification's "
                              f"conversion of the same points by {max(d, d1):.3e} (shapes {got.shape}, {one.shape})",
                              {"func": "convert_cart_to_sph[atomgrid-route]", "c": list(c), "p": its[0]["p"]})
            else:
                worst["atomgrid-route"] = max(worst["atomgrid-route"], d, d1)
    rep.set("cart_to_sph_extra_max_dev", worst)


# ---------------------------------------------------------------------------------------------

def replay(path: str) -> int:
    import grid.utils as gu
    with open(path) as f:
        v = json.load(f)
    c = v.get("case") or {}
    func = c.get("func", "")
    if func.startswith("convert_cart_to_sph") and "expected" in c and isinstance(c["expected"], list):
        got = np.asarray(gu.convert_cart_to_sph(np.array([c["p"]], dtype=float), np.array(c["c"], dtype=float)))[0]
        print("replay:", c, "->", got.tolist())
        return 0 if np.abs(got - np.array(c["expected"])).max() <= 1e-9 else 1
    if "theta" in c and "row" in c:
        base = func.split("[")[0]
        th, ph = np.array([c["theta"]]), np.array([c["phi"]])
        if base == "solid_harmonics":
            got = _call(gu.solid_harmonics, c["l_max"], np.array([[c["r"], c["theta"], c["phi"]]]))[c["row"], 0]
        elif base.startswith("generate_derivative"):
            got = _call(getattr(gu, base), c["l_max"], th, ph)[0 if "theta" in func else 1, c["row"], 0]
        elif hasattr(gu, base):
            got = _call(getattr(gu, base), c["l_max"], th, ph)[c["row"], 0]
        else:
            print("replay: relational case; rerunning the quick tier")
            return run("quick")
        print(f"replay: {func} row {c['row']} at theta={c['theta']}, phi={c['phi']}: now {got!r}, expected {c['expected']!r}")
        l = _lm_of_row(c["row"])[0]
        return 0 if abs(got - c["expected"]) <= TOL * _scale(l) * (l + 1) * max(1.0, c.get("r", 1.0) ** l) else 1
    print("replay: model-level or structural violation; rerunning the quick tier")
    return run("quick")


# ---------------------------------------------------------------------------------------------
# sensitivity: source-level mutants of grid.utils, applied in-process

def _mutant(name, old, new, count=1):
    """Return restore(): re-executes the source of grid.utils.<name> (or of the method AtomGrid.<name> when name
    starts with "AtomGrid.") with one textual edit."""
    import grid.utils as gu
    import grid.atomgrid as ag
    if name.startswith("AtomGrid."):
        meth = name.split(".", 1)[1]
        src = textwrap.dedent(inspect.getsource(getattr(ag.AtomGrid, meth)))
        if src.count(old) < 1:
            raise tlc.MachineryError(f"mutant pattern not found in {name}: {old!r}")
        ns = dict(ag.__dict__)
        exec(compile(src.replace(old, new, count), f"<mutant {name}>", "exec"), ns)
        saved_m = ag.AtomGrid.__dict__[meth]
        setattr(ag.AtomGrid, meth, ns[meth])
        return lambda: setattr(ag.AtomGrid, meth, saved_m)
    src = textwrap.dedent(inspect.getsource(getattr(gu, name)))
    if src.count(old) < 1:
        raise tlc.MachineryError(f"mutant pattern not found in {name}: {old!r}")
    src = src.replace(old, new, count)
    ns = gu.__dict__
    saved = ns[name]
    exec(compile(src, f"<mutant {name}>", "exec"), ns)
    saved_ag = getattr(ag, name, None)
    if saved_ag is not None:
        setattr(ag, name, ns[name])

    def restore():
        ns[name] = saved
        if saved_ag is not None:
            setattr(ag, name, saved_ag)
    return restore


MUTANTS = [
    ("condon-shortley-phase", "generate_real_spherical_harmonics",
     "p_leg[m_ord, 0] = p_leg[m_ord - 1, 1] * (2 * (l_deg - 1.0) + 1) * sin_phi",
     "p_leg[m_ord, 0] = -p_leg[m_ord - 1, 1] * (2 * (l_deg - 1.0) + 1) * sin_phi"),
    ("cos-sin-rows-swapped", "generate_real_spherical_harmonics",
     "spherical_harm[i_sph, :] = common_fact * np.cos(float(m_ord) * theta)\n                i_sph += 1\n                spherical_harm[i_sph, :] = common_fact * np.sin(float(m_ord) * theta)",
     "spherical_harm[i_sph, :] = common_fact * np.sin(float(m_ord) * theta)\n                i_sph += 1\n                spherical_harm[i_sph, :] = common_fact * np.cos(float(m_ord) * theta)"),
    ("recursion-coefficient-b_k", "generate_real_spherical_harmonics",
     "return (float(deg) - 1.0 + float(ord)) / (float(deg) - float(ord))",
     "return (float(deg) - 1.0 + float(ord)) / (float(deg) - float(ord) + 1.0)"),
    ("recursion-boundary-m<=l-2", "generate_real_spherical_harmonics",
     "if m_ord <= l_deg - 2 else 0.0", "if m_ord < l_deg - 2 else 0.0"),
    ("factorial-update", "generate_real_spherical_harmonics",
     "(float(l_deg) + float(m_ord) + 1.0) * (float(l_deg) - float(m_ord))",
     "(float(l_deg) + float(m_ord) + 1.0) * (float(l_deg) - float(m_ord) + 1.0)"),
    ("normalisation-4pi", "generate_real_spherical_harmonics",
     "return np.sqrt((2.0 * float(deg) + 1) / (4.0 * np.pi))", "return np.sqrt((2.0 * float(deg) + 1) / (2.0 * np.pi))"),
    ("scipy-phase-dropped", "generate_real_spherical_harmonics_scipy",
     "np.sqrt(2) * (-1.0) ** np.arange(1, l_max + 1)", "np.sqrt(2) * (1.0) ** np.arange(1, l_max + 1)"),
    ("scipy-negative-m-sign", "generate_real_spherical_harmonics_scipy",
     "total_sph[row_start + 2 : row_end : 2] = sph_degree_pos[1:].imag",
     "total_sph[row_start + 2 : row_end : 2] = -sph_degree_pos[1:].imag"),
    ("derivative-theta-sign", "generate_derivative_real_spherical_harmonics",
     "output[0, i_output, :] = -float(m) * sph_harm_degree[index_m(-m), :]",
     "output[0, i_output, :] = float(m) * sph_harm_degree[index_m(-m), :]"),
    ("derivative-cot-threshold", "generate_derivative_real_spherical_harmonics",
     "cot_tangent[np.abs(np.tan(phi)) < 1e-10] = 0.0", "cot_tangent[np.abs(np.tan(phi)) < 1e-1] = 0.0"),
    ("derivative-raising-boundary", "generate_derivative_real_spherical_harmonics",
     "if m < l_val:  # When m == l_val, then fac = 0", "if m < l_val - 1:"),
    ("derivative-raising-coefficient", "generate_derivative_real_spherical_harmonics",
     "fac = np.sqrt((l_val - np.abs(float(m))) * (l_val + np.abs(m) + 1))",
     "fac = np.sqrt((l_val - np.abs(float(m)) + 1) * (l_val + np.abs(m)))"),
    ("derivative-m0-factor", "generate_derivative_real_spherical_harmonics",
     "output[1, i_output, :] /= np.sqrt(2.0)", "output[1, i_output, :] /= 2.0"),
    ("derivative-negative-m-projection", "generate_derivative_real_spherical_harmonics",
     "output[1, i_output, :] += np.imag(complex_expon * sph_harm_m)", "output[1, i_output, :] -= np.imag(complex_expon * sph_harm_m)"),
    ("solid-normalisation", "solid_harmonics",
     "np.sqrt(4.0 * np.pi / (2 * degrees[:, None] + 1))", "np.sqrt(4.0 * np.pi / (2 * degrees[:, None] + 2))"),
    ("cart-arctan2-argument-order", "convert_cart_to_sph",
     "theta = np.arctan2(relat_pts[:, 1], relat_pts[:, 0])", "theta = np.arctan2(relat_pts[:, 0], relat_pts[:, 1])"),
    ("cart-centre-ignored-for-radius", "convert_cart_to_sph",
     "r = np.linalg.norm(relat_pts, axis=-1)", "r = np.linalg.norm(points, axis=-1)"),
    ("cart-origin-convention", "convert_cart_to_sph", "phi[r == 0.0] = 0.0", "phi[r == 0.0] = np.pi / 2"),
    ("cart-polar-from-y", "convert_cart_to_sph", "phi = np.arccos(relat_pts[:, 2] / r)", "phi = np.arcsin(relat_pts[:, 2] / r)"),
]


# mutants for the clauses of spec/HarmonicsAudit.tla; the third element of `expect` names a key prefix that must be among
# the reported violations (the clause the mutant was written for)
AUDIT_MUTANTS = [
    ("derivative-pole-cut-1e-6", "generate_derivative_real_spherical_harmonics",
     "cot_tangent[np.abs(np.tan(phi)) < 1e-10] = 0.0", "cot_tangent[np.abs(np.tan(phi)) < 1e-6] = 0.0",
     "generate_derivative_real_spherical_harmonics[phi]:threshold"),
    ("scipy-sign-correct-within-seven-periods", "generate_real_spherical_harmonics_scipy",
     "sign_sin_phi = np.where(np.sin(phi) < 0.0, -1.0, 1.0)",
     "sign_sin_phi = np.where(np.sin(np.clip(phi, -6 * np.pi, 8 * np.pi)) < 0.0, -1.0, 1.0)",
     "generate_real_spherical_harmonics_scipy:far"),
    ("recursion-wraps-polar-angle-in-place", "generate_real_spherical_harmonics",
     "sin_phi = np.sin(phi, dtype=np.longdouble)", "phi %= 2 * np.pi\n    sin_phi = np.sin(phi, dtype=np.longdouble)",
     "form:ylm:f8:unchanged"),
    ("recursion-result-allocated-like-input", "generate_real_spherical_harmonics",
     "spherical_harm = np.zeros(((l_max + 1) ** 2, numb_pts), dtype=np.longdouble)",
     "spherical_harm = np.zeros_like(theta, shape=((l_max + 1) ** 2, numb_pts))", "form:ylm:i8:value"),
    ("scipy-lmax-must-be-python-int", "generate_real_spherical_harmonics_scipy",
     "if l_max < 0:", "if not isinstance(l_max, int) or l_max < 0:", "form:ylm_scipy:f8:returns"),
    ("scipy-no-points-one-column", "generate_real_spherical_harmonics_scipy",
     "n_pts = len(theta)", "n_pts = max(len(theta), 1)", "form:ylm_scipy:f8:"),
    ("cart-subtracts-centre-in-place", "convert_cart_to_sph",
     "relat_pts = points - center", "points -= center\n    relat_pts = points", "form:cart:f8:unchanged"),
    ("cart-origin-test-with-tolerance", "convert_cart_to_sph",
     "phi[r == 0.0] = 0.0", "phi[r < 1e-12] = 0.0", "convert_cart_to_sph:scaled-2^-300"),
    ("gradient-theta-column-sign", "convert_derivative_from_spherical_to_cartesian",
     "-np.sin(theta) / (r * np.sin(phi)),", "np.sin(theta) / (r * np.sin(phi)),",
     "convert_derivative_from_spherical_to_cartesian:general"),
    ("gradient-phi-column-without-1/r", "convert_derivative_from_spherical_to_cartesian",
     "np.cos(theta) * np.cos(phi) / r,", "np.cos(theta) * np.cos(phi),", "convert_derivative_from_spherical_to_cartesian:"),
    ("gradient-origin-cut-1e-4", "convert_derivative_from_spherical_to_cartesian",
     "if np.abs(r) < 1e-10:", "if np.abs(r) < 1e-4:", "convert_derivative_from_spherical_to_cartesian:general:float"),
    ("gradient-pole-convention-dropped", "convert_derivative_from_spherical_to_cartesian",
     "if np.abs(phi) < 1e-10:", "if np.abs(phi) < -1.0:", "convert_derivative_from_spherical_to_cartesian:phi0"),
    ("solid-power-capped-at-20", "solid_harmonics",
     "r ** degrees[:, None]", "r ** np.minimum(degrees[:, None], 20.0)", "solid_harmonics:high-degree"),
    ("atomgrid-route-ignores-centre", "AtomGrid.convert_cartesian_to_spherical",
     "center = self.center if center is None else np.asarray(center)", "center = self.center",
     "convert_cart_to_sph:atomgrid-route"),
]


def _drop_last(w):
    return w[:-1]


def _flip_value(w):
    w = [dict(o) for o in w]
    k = next(i for i, o in enumerate(w) if o["form"]["func"] == "solid" and o["form"]["dtype"] == "f8")
    w[k]["value"] = False
    return w


def _swap_two(w):
    w = list(w)
    w[3], w[4] = w[4], w[3]
    return w


JUDGE_CORRUPTIONS = [("judge:observation-dropped", _drop_last, "forms:"),
                     ("judge:value-flag-cleared", _flip_value, "form:solid:f8:value"),
                     ("judge:observations-misaligned", _swap_two, "form:")]


def selftest(tier: str) -> int:
    """Every mutant must be reported as a violation by run('quick'); the mutants of the audit clauses must be reported by
    the clause they were written for.  VERIF_C08_MUTANTS=name,name restricts the run (development aid)."""
    import contextlib
    import io
    import os
    global _CORRUPT
    only = [x for x in os.environ.get("VERIF_C08_MUTANTS", "").split(",") if x]
    killed, missed = [], []
    todo = [(n, fn, old, new, None) for n, fn, old, new in MUTANTS] + list(AUDIT_MUTANTS)
    todo += [(n, None, None, f, key) for n, f, key in JUDGE_CORRUPTIONS]
    for name, fn, old, new, key in todo:
        if only and name not in only:
            continue
        if fn is None:
            _CORRUPT = new
            restore = lambda: None  # noqa: E731
        else:
            restore = _mutant(fn, old, new)
        buf = io.StringIO()
        try:
            with contextlib.redirect_stdout(buf):
                rc = run("quick")
        finally:
            restore()
            _CORRUPT = None
        lines = [l for l in buf.getvalue().splitlines() if l.startswith("VIOLATION")]
        keys = [l.split("#")[1].strip() for l in lines if "#" in l]
        hit = [k for k in keys if key is None or k.startswith(key)]
        ok = rc == 1 and bool(lines) and bool(hit)
        (killed if ok else missed).append(name)
        print(f"mutant {name:42s} -> {'KILLED' if ok else 'MISSED'}  ({len(lines)} violation keys"
              + (f", e.g. {(hit or keys)[0][:110]}" if keys else "") + ")")
    print(f"selftest: {len(killed)}/{len(killed) + len(missed)} mutants killed; missed: {missed}")
    run("quick")  # leave a clean evidence file behind
    return 0 if not missed else 1
