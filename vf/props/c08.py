"""C08 - real spherical harmonics, their angular derivatives, solid harmonics, cart -> sph.

Flow (DESIGN.md section 5, C08):
 1. TLC checks spec/Harmonics.tla: on the Pythagorean-angle lattice the addition theorem,
    parity, pole values, equality of the two routes to the m-fold Legendre derivative, exact
    orthonormality (polynomial integration), the Horton-2 row order and Cart(Sph(p)) = p are
    decided exactly (32-bit rationals, static size budget), and the DEFINITION TREES of
    Y_lm, dY/dtheta, dY/dphi (by Expr!D), the solid harmonics, the spherical parametrisation
    and its Jacobian are emitted for every (l, m), l <= LTree, together with the exact lattice
    values and the expected conversions of integer points.
 2. spec-internal cross checks by the harness (machinery, not verdicts): every emitted tree
    reproduces TLC's exact lattice value sqrt(NormSq/pi)*A to 40 digits; D-trees agree with
    50-digit central differences of the Y-trees.
 3. replay: generate_real_spherical_harmonics, ..._scipy, generate_derivative_real_spherical_
    harmonics, solid_harmonics, convert_cart_to_sph are compared with the trees evaluated in
    50-digit arithmetic at the very floats handed to the library: lattice angles shifted by
    multiples of 2 pi, random float angles, equator, near-pole angles, the poles (documented
    zero convention of the polar derivative), reflected polar angles (sin phi < 0, own keys),
    radii incl. 0, centres incl. the origin and the point itself.
 4. LTree < l <= LHigh: addition theorem on the library's output, agreement of the two
    implementations, and comparison with vf/ylm.py (calibrated against the trees in this run).

Tolerances (absolute, in units of the natural scale s_l = sqrt((2l+1)/(2 pi)) of degree l;
derivatives (l+1) s_l; solid harmonics r^l):  1e-9.
Calibration on the pinned tree (thorough tier, seeds 0, 1, 2; max over all cases, same units):
  l <= 12 against the trees and 12 < l <= 80 against ylm.py: recursion 1.1e-13, scipy 6.4e-14,
  both implementations against each other 9.3e-14, derivatives 1.6e-14 (theta 4.7e-15), solid
  harmonics 7.2e-15, addition theorem 2.8e-13 (relative to (2l+1)/4pi);
  cart->sph: integer lattice 1.7e-16, forward 8.9e-15, round trip 6.1e-15 (tolerance 1e-9).
  The 19 source-level mutants of selftest() are all reported (errors >= 1e-3 in the same units).
"""
from __future__ import annotations

import inspect
import json
import math
import multiprocessing as mp_
import textwrap
import warnings

import numpy as np

from .. import tlc, ylm
from ..evidence import Report
from ..expr_eval import evaluate

PROP = "C08"
TOL = 1e-9
_EM = None  # emission (per process)


def _scale(l):
    return math.sqrt((2 * l + 1) / (2 * math.pi))


def _tlc(wd, tier, rep):
    ltree = 12 if tier == "thorough" else 8
    cfg = wd / "MC_Harmonics_run.cfg"
    base = (tlc.SPEC / "MC_Harmonics.cfg").read_text()
    base = base.replace("LTree = 12", f"LTree = {ltree}")
    cfg.write_text(base)
    res = tlc.run_tlc("Harmonics", cfg, wd, workers=16, timeout=900).require_ok("MC_Harmonics")
    rep.tlc(res, "MC_Harmonics")
    if res.status == "violation":
        st = tlc.last_state(res)
        rep.violation(f"model:{','.join(res.violated)}",
                      f"TLC: identity {res.violated} fails in spec/Harmonics.tla; state {st}", st)
    f = wd / "harmonics_trees.json"
    if not f.exists():
        raise tlc.MachineryError("Harmonics.tla did not emit harmonics_trees.json\n" + res.stdout[-2000:])
    with open(f) as fh:
        return json.load(fh), res


def emission(wd_name="C08-emit", ltree=12, lexact=4):
    """Run TLC on Harmonics.tla (all identities, smaller lattice degree) and return the emitted
    trees - used by C02 / C09 to calibrate vf/ylm.py before it serves as their oracle."""
    wd = tlc.scratch(wd_name)
    cfg = wd / "MC_Harmonics_run.cfg"
    base = (tlc.SPEC / "MC_Harmonics.cfg").read_text().replace("LTree = 12", f"LTree = {ltree}")
    base = base.replace("LExact = 6", f"LExact = {lexact}").replace("LRow = 80", f"LRow = {max(ltree, 12)}")
    cfg.write_text(base)
    res = tlc.run_tlc("Harmonics", cfg, wd, workers=8, timeout=900).require_ok("MC_Harmonics")
    if res.status != "ok":
        raise tlc.MachineryError(f"Harmonics.tla is not consistent: {res.violated}")
    with open(wd / "harmonics_trees.json") as fh:
        return json.load(fh), res


# ---------------------------------------------------------------------------------------------
# expected values from the trees (worker processes)

def _init(path):
    global _EM
    with open(path) as f:
        _EM = json.load(f)


def _expect(job):
    """Evaluate every tree at the given (theta, phi, r) floats in 50-digit arithmetic."""
    import mpmath as mp
    idx, pts = job
    nrows = len(_EM["trees"])
    out = {k: np.zeros((nrows, len(pts))) for k in ("y", "dtheta", "dphi", "solid")}
    for j, (th, ph, r) in enumerate(pts):
        env = {"theta": mp.mpf(th), "phi": mp.mpf(ph), "r": mp.mpf(r)}
        for t in _EM["trees"]:
            for k in out:
                out[k][int(t["row"]), j] = float(evaluate(t[k], env, "mp"))
    return idx, out


def _internal_checks(em, quick):
    """Spec-internal consistency, evaluated by the harness.  Failures are machinery failures."""
    import mpmath as mp
    worst = mp.mpf(0)
    n = 0
    stride = 3 if quick else 1
    for lat in em["lattice"][::stride]:
        ct, st, cp, sp = (mp.mpf(lat[k][0]) / lat[k][1] for k in ("ct", "st", "cp", "sp"))
        env = {"theta": mp.atan2(st, ct), "phi": mp.atan2(sp, cp)}
        trees = {int(t["row"]): t for t in em["trees"]}
        for l, m, row, a, nsq in lat["vals"]:
            if a[1] == 0 or row not in trees:
                continue
            t = trees[row]
            if (t["l"], t["m"]) != (l, m):
                raise tlc.MachineryError("Harmonics.tla: row bookkeeping of the emission is inconsistent")
            exact = mp.sqrt(mp.mpf(nsq[0]) / nsq[1] / mp.pi) * mp.mpf(a[0]) / a[1]
            d = abs(evaluate(t["y"], env, "mp") - exact)
            worst = max(worst, d)
            n += 1
    if worst > mp.mpf(10) ** -40:
        raise tlc.MachineryError(f"Harmonics.tla: emitted trees and exact lattice values differ by {worst}")
    # D-trees against central differences of the Y-trees (50 digits, h = 1e-18)
    h = mp.mpf(10) ** -18
    wd = mp.mpf(0)
    for t in em["trees"][:: (7 if quick else 3)]:
        for th, ph in ((mp.mpf("0.3"), mp.mpf("0.7")), (mp.mpf("-2.1"), mp.mpf("2.9"))):
            for var, key in (("theta", "dtheta"), ("phi", "dphi")):
                e1 = {"theta": th, "phi": ph}
                e2 = dict(e1)
                e1[var] += h
                e2[var] -= h
                fd = (evaluate(t["y"], e1, "mp") - evaluate(t["y"], e2, "mp")) / (2 * h)
                wd = max(wd, abs(fd - evaluate(t[key], {"theta": th, "phi": ph}, "mp")))
    if wd > mp.mpf(10) ** -25:
        raise tlc.MachineryError(f"Expr!D trees differ from central differences by {wd}")
    return n, float(worst), float(wd)


# ---------------------------------------------------------------------------------------------
# angle sets

def _angles(em, tier, rng):
    """List of (class, theta, phi, r)."""
    out = []
    twopi = 2 * math.pi
    lat = em["lattice"]
    for i, a in enumerate(lat if tier == "thorough" else lat[::2]):
        th = math.atan2(a["st"][0] / a["st"][1], a["ct"][0] / a["ct"][1])
        ph = math.atan2(a["sp"][0] / a["sp"][1], a["cp"][0] / a["cp"][1])
        refl = a["sp"][0] < 0
        k = (-1, 0, 1, 2)[i % 4]
        j = (0, 1, -1)[i % 3]
        r = (0.0, 0.5, 1.0, 2.5, 7.0)[i % 5]
        if a["sp"][0] == 0:
            cls = "pole"
            ph = 0.0 if a["cp"][0] > 0 else math.pi
            j = 0
        else:
            cls = "reflected" if refl else "lattice"
        out.append((cls, th + twopi * k, ph + twopi * j, r))
    nrand = 20 if tier == "quick" else 110
    for i in range(nrand):
        out.append(("random", float(rng.uniform(-7, 7)),
                    float(rng.uniform(1e-2, math.pi - 1e-2)) + twopi * (0, 0, 1, -1)[i % 4],
                    float(rng.uniform(0, 4))))
    for ph in (1e-3, 0.05, math.pi - 0.02, math.pi - 1e-3, math.pi / 2):
        for _ in range(1 if tier == "quick" else 4):
            out.append(("equator" if ph == math.pi / 2 else "nearpole", float(rng.uniform(-7, 7)), ph,
                        float(rng.uniform(0, 2))))
    for ph in (0.0, math.pi):
        for th in (0.0, 1.3, -2.0):
            out.append(("pole", th, ph, 1.5))
    for i in range(3 if tier == "quick" else 16):
        base = float(rng.uniform(0.05, math.pi - 0.05))
        out.append(("reflected", float(rng.uniform(-7, 7)), -base if i % 2 else math.pi + base, 1.0))
    return out


# ---------------------------------------------------------------------------------------------

class _Judge:
    """Collects per (function, class) the worst deviation and the first failing cases."""

    def __init__(self, rep):
        self.rep = rep
        self.bad = {}
        self.worst = {}

    def cmp(self, func, cls, obs, exp, scale, cases, tol=TOL):
        """obs, exp: arrays (rows, n); scale: per row (rows,) or scalar or (rows, n); cases(j)
        returns the replay record of column j."""
        obs = np.asarray(obs, dtype=float)
        dev = np.abs(obs - exp) / scale
        dev = np.where(np.isfinite(obs), dev, np.inf)
        w = float(dev.max()) if dev.size else 0.0
        self.worst[func] = max(self.worst.get(func, 0.0), w if math.isfinite(w) and w <= tol else 0.0)
        if w > tol:
            r, j = np.unravel_index(int(np.argmax(dev)), dev.shape)
            nbad = int((dev > tol).sum())
            rec = self.bad.setdefault((func, cls), {"n": 0, "worst": 0.0, "case": None})
            rec["n"] += nbad
            if w > rec["worst"]:
                rec["worst"] = w
                c = dict(cases(int(j)))
                c.update({"func": func, "cls": cls, "row": int(r), "observed": float(obs[r, j]),
                          "expected": float(np.broadcast_to(exp, obs.shape)[r, j]), "deviation_scaled": w})
                rec["case"] = c
        return w

    def flush(self):
        for (func, cls), rec in sorted(self.bad.items()):
            c = rec["case"]
            self.rep.violation(f"{func}:{cls}",
                               f"{func} deviates from the definition (spec/Harmonics.tla) for {cls} input: "
                               f"{rec['n']} entries beyond {TOL:g}, worst {rec['worst']:.3e} (scaled) at row "
                               f"{c['row']} = (l,m) {c.get('lm')}, theta={c.get('theta')}, phi={c.get('phi')}: "
                               f"observed {c['observed']!r}, expected {c['expected']!r}", c)


def _call(f, *a):
    with warnings.catch_warnings():
        warnings.simplefilter("ignore")
        with np.errstate(all="ignore"):
            return np.asarray(f(*a), dtype=float)


def _lm_of_row(r):
    l = int(math.isqrt(r))
    k = r - l * l
    return (l, 0) if k == 0 else (l, (k + 1) // 2) if k % 2 else (l, -(k // 2))


def run(tier: str) -> int:
    import grid.utils as gu
    rep = Report(PROP, tier, "model_checking")
    rng = np.random.default_rng(rep.seed)
    wd = tlc.scratch(f"{PROP}-{tier}")
    em, res = _tlc(wd, tier, rep)
    lt = int(em["ltree"])
    nrows = (lt + 1) ** 2
    if len(em["trees"]) != nrows:
        raise tlc.MachineryError("emission incomplete")
    rowlm = {int(t["row"]): (int(t["l"]), int(t["m"])) for t in em["trees"]}
    n_int, w_int, w_fd = _internal_checks(em, tier == "quick")
    rep.set("spec_internal", {"lattice_values_checked": n_int, "max_abs_diff_tree_vs_exact": w_int,
                              "max_abs_diff_Dtree_vs_central_difference": w_fd})
    cal = ylm.calibrate(em, seed=rep.seed, n_random=6 if tier == "quick" else 12)
    rep.set("ylm_calibration", cal)

    # ---- expected values from the trees -------------------------------------------------------
    angs = _angles(em, tier, rng)
    pts = [(a[1], a[2], a[3]) for a in angs]
    jobs = [(i, pts[i::32]) for i in range(32) if pts[i::32]]
    exp = {k: np.zeros((nrows, len(pts))) for k in ("y", "dtheta", "dphi", "solid")}
    with mp_.get_context("fork").Pool(16, initializer=_init, initargs=(str(wd / "harmonics_trees.json"),)) as pool:
        for i, out in pool.imap_unordered(_expect, jobs):
            for k in exp:
                exp[k][:, i::32] = out[k]
    ls = np.array([rowlm[r][0] for r in range(nrows)])
    sc = np.array([_scale(l) for l in ls])[:, None]
    J = _Judge(rep)
    classes = sorted({a[0] for a in angs})
    for cls in classes:
        sel = [i for i, a in enumerate(angs) if a[0] == cls]
        th = np.array([angs[i][1] for i in sel])
        ph = np.array([angs[i][2] for i in sel])
        rr = np.array([angs[i][3] for i in sel])

        def case(j, lmax=lt, th=th, ph=ph, rr=rr):
            return {"l_max": lmax, "theta": float(th[j]), "phi": float(ph[j]), "r": float(rr[j])}

        for func in ("generate_real_spherical_harmonics", "generate_real_spherical_harmonics_scipy"):
            try:
                got = _call(getattr(gu, func), lt, th.copy(), ph.copy())
                if got.shape != (nrows, len(sel)):
                    rep.violation(f"{func}:shape", f"{func}({lt}, ...) returned shape {got.shape}, the "
                                  f"specification has {nrows} rows (l,m), l <= {lt}", {"l_max": lt})
                else:
                    J.cmp(func, cls, got, exp["y"][:, sel], sc, case)
                    rep.evaluated(got.size, (func, cls))
            except Exception as e:  # a failing call is a violation, not a harness error
                rep.violation(f"{func}:{cls}:exception", f"{func} raised {type(e).__name__}: {e}", case(0))
        # derivatives
        func = "generate_derivative_real_spherical_harmonics"
        try:
            got = _call(getattr(gu, func), lt, th.copy(), ph.copy())
            if got.shape != (2, nrows, len(sel)):
                rep.violation(f"{func}:shape", f"returned shape {got.shape}", {"l_max": lt})
            else:
                dsc = sc * (ls[:, None] + 1)
                J.cmp(func + "[theta]", cls, got[0], exp["dtheta"][:, sel], dsc, case)
                if cls == "pole":   # documented convention: polar derivative reported as zero
                    J.cmp(func + "[phi]", cls, got[1], np.zeros_like(got[1]), dsc, case)
                else:
                    J.cmp(func + "[phi]", cls, got[1], exp["dphi"][:, sel], dsc, case)
                rep.evaluated(got.size, (func, cls))
        except Exception as e:
            rep.violation(f"{func}:{cls}:exception", f"{func} raised {type(e).__name__}: {e}", case(0))
        # solid harmonics
        func = "solid_harmonics"
        try:
            got = _call(gu.solid_harmonics, lt, np.stack([rr, th, ph], axis=1))
            if got.shape != (nrows, len(sel)):
                rep.violation(f"{func}:shape", f"returned shape {got.shape}", {"l_max": lt})
            else:
                ssc = np.maximum(rr[None, :], 1e-300) ** ls[:, None]
                ssc = np.where(ls[:, None] == 0, 1.0, ssc)
                ssc = np.where(rr[None, :] == 0, 1.0, ssc)
                J.cmp(func, cls, got, exp["solid"][:, sel], ssc, case)
                rep.evaluated(got.size, (func, cls))
                # "for all points": the same spherical points handed over in the other floating types a caller may hold
                # (extended precision is the type the library itself computes its harmonics in), evaluated twice on the
                # same array: same values, and the second evaluation sees the same points as the first
                for dt in (np.longdouble, np.float32):
                    sp = np.stack([rr, th, ph], axis=1).astype(dt)
                    keep = sp.copy()
                    g1 = _call(gu.solid_harmonics, lt, sp)
                    g2 = _call(gu.solid_harmonics, lt, sp)
                    name = f"{func}[{np.dtype(dt).name} points]"
                    if g1.shape != got.shape or not np.array_equal(sp, keep) or not np.array_equal(g1, g2, equal_nan=True):
                        rep.violation(f"{name}:{cls}:second-evaluation-differs",
                                      f"{func}(l_max={lt}, points of dtype {np.dtype(dt).name}) evaluated twice on the same array: "
                                      f"points changed: {not np.array_equal(sp, keep)}, results differ: "
                                      f"{g1.shape != got.shape or not np.array_equal(g1, g2, equal_nan=True)}", case(0))
                    elif dt is np.longdouble:
                        J.cmp(name, cls, g1, exp["solid"][:, sel], ssc, case)
                    rep.evaluated(g1.size, (name, cls))
        except Exception as e:
            rep.violation(f"{func}:{cls}:exception", f"{func} raised {type(e).__name__}: {e}", case(0))
    # annotate (l,m) of the failing rows
    for rec in J.bad.values():
        if rec["case"] is not None:
            rec["case"]["lm"] = list(rowlm.get(rec["case"]["row"], _lm_of_row(rec["case"]["row"])))

    # ---- l_max dependence: a smaller l_max returns the leading rows ------------------------------
    th = np.array([a[1] for a in angs if a[0] in ("random", "lattice")][:10])
    ph = np.array([a[2] for a in angs if a[0] in ("random", "lattice")][:10])
    sel = [i for i, a in enumerate(angs) if a[0] in ("random", "lattice")][:10]
    for lm in range(0, lt):
        n = (lm + 1) ** 2
        for func in ("generate_real_spherical_harmonics", "generate_real_spherical_harmonics_scipy"):
            try:
                got = _call(getattr(gu, func), lm, th.copy(), ph.copy())
                if got.shape != (n, len(sel)):
                    rep.violation(f"{func}:shape", f"{func}({lm}, ...) returned shape {got.shape}, expected ({n}, {len(sel)})",
                                  {"l_max": lm})
                else:
                    J.cmp(func, f"l_max={lm}", got, exp["y"][:n][:, sel], sc[:n],
                          lambda j, lm=lm: {"l_max": lm, "theta": float(th[j]), "phi": float(ph[j]), "r": 1.0})
                    rep.evaluated(got.size, (func, "lmax", lm))
            except Exception as e:
                rep.violation(f"{func}:l_max={lm}:exception", f"{func} raised {type(e).__name__}: {e}", {"l_max": lm})
        func = "generate_derivative_real_spherical_harmonics"
        try:
            got = _call(getattr(gu, func), lm, th.copy(), ph.copy())
            if got.shape != (2, n, len(sel)):
                rep.violation(f"{func}:shape", f"{func}({lm}, ...) returned shape {got.shape}", {"l_max": lm})
            else:
                dsc = (sc * (ls[:, None] + 1))[:n]
                cs = lambda j, lm=lm: {"l_max": lm, "theta": float(th[j]), "phi": float(ph[j]), "r": 1.0}  # noqa: E731
                J.cmp(func + "[theta]", f"l_max={lm}", got[0], exp["dtheta"][:n][:, sel], dsc, cs)
                J.cmp(func + "[phi]", f"l_max={lm}", got[1], exp["dphi"][:n][:, sel], dsc, cs)
                rep.evaluated(got.size, (func, "lmax", lm))
        except Exception as e:
            rep.violation(f"{func}:l_max={lm}:exception", f"{func} raised {type(e).__name__}: {e}", {"l_max": lm})
    for rec in J.bad.values():
        if rec["case"] is not None and "lm" not in rec["case"]:
            rec["case"]["lm"] = list(_lm_of_row(rec["case"]["row"]))

    # ---- high degrees: relational checks + calibrated evaluator ----------------------------------
    lhigh = 80 if tier == "thorough" else 40
    nh = 2000 if tier == "thorough" else 160
    _high(rep, J, gu, lt, lhigh, nh, rng)
    # "for every maximum degree": one pass far beyond the degrees the test-suite reaches (its maximum is
    # l_max = 100), few angles incl. the structured ones (equator, near-pole, poles); a float64
    # accumulator in the recursion overflows near l = 150 and would go unnoticed below that
    lvery = 260 if tier == "thorough" else 200
    _high(rep, J, gu, lt, lvery, 24 if tier == "thorough" else 10, rng)
    rep.set("l_very_high", lvery)

    # ---- cart -> sph ----------------------------------------------------------------------------
    _cart(rep, gu, em, tier, rng)

    J.flush()
    rep.set("max_scaled_deviation", {k: v for k, v in sorted(J.worst.items())})
    rep.set("tolerance_scaled", TOL)
    rep.set("traces_validated_against_impl", rep.evaluations)
    rep.set("exhaustive", False)
    rep.set("l_tree", lt)
    rep.set("l_high", lhigh)
    rep.set("angles", {c: sum(1 for a in angs if a[0] == c) for c in classes})
    rep.set("rule", "one case = one entry (function, l, m, angle) compared with the tree of spec/Harmonics.tla "
                    "evaluated in 50-digit arithmetic at the floats handed to the library; distinct = (function, angle class)")
    for a in angs[:4]:
        rep.sample({"class": a[0], "theta": a[1], "phi": a[2], "r": a[3], "l_max": lt})
    rep.assume("vf/expr_eval.py evaluates the trees correctly (cross-checked against TLC's exact lattice values in this run)")
    rep.assume("polar angles with sin(phi) < 0 are interpreted by the analytic continuation of the defining formula "
               "(the harmonic at the point (sin phi cos theta, sin phi sin theta, cos phi))")
    return rep.finish()


def _high(rep, J, gu, lt, lhigh, nh, rng):
    """lt < l <= lhigh: addition theorem, agreement of both implementations, calibrated evaluator."""
    chunk = 200
    done = 0
    ls = np.array([_lm_of_row(r)[0] for r in range((lhigh + 1) ** 2)])
    sc = np.sqrt((2 * ls + 1) / (2 * math.pi))[:, None]
    while done < nh:
        n = min(chunk, nh - done)
        th = rng.uniform(-7, 7, n)
        ph = rng.uniform(1e-2, math.pi - 1e-2, n) + 2 * math.pi * rng.integers(-1, 2, n)
        if done == 0:  # structured angles
            ph[:6] = (math.pi / 2, 1e-3, 0.05, math.pi - 1e-3, 0.0, math.pi)
        done += n

        def case(j, th=th, ph=ph):
            return {"l_max": lhigh, "theta": float(th[j]), "phi": float(ph[j]), "r": 1.0}

        mine = ylm.ylm_angles(lhigh, th, ph)
        try:
            a = _call(gu.generate_real_spherical_harmonics, lhigh, th.copy(), ph.copy())
            b = _call(gu.generate_real_spherical_harmonics_scipy, lhigh, th.copy(), ph.copy())
        except Exception as e:
            rep.violation("high-degree:exception", f"harmonics raised {type(e).__name__}: {e}", case(0))
            return
        J.cmp("generate_real_spherical_harmonics", "high-degree", a, mine, sc, case)
        J.cmp("generate_real_spherical_harmonics_scipy", "high-degree", b, mine, sc, case)
        J.cmp("both-implementations-agree", "high-degree", a, b, sc, case)
        rep.evaluated(2 * a.size, ("high", "values"))
        # addition theorem on the library's own output (pairs i, i+1)
        u = np.stack([np.sin(ph) * np.cos(th), np.sin(ph) * np.sin(th), np.cos(ph)], axis=1)
        cosg = np.einsum("ij,ij->i", u, np.roll(u, -1, axis=0))
        pl = ylm.legendre(lhigh, cosg)
        for name, arr in (("generate_real_spherical_harmonics", a), ("generate_real_spherical_harmonics_scipy", b)):
            lhs = np.zeros((lhigh + 1, n))
            prod = arr * np.roll(arr, -1, axis=1)
            for l in range(lhigh + 1):
                lhs[l] = prod[l * l: (l + 1) ** 2].sum(axis=0)
            rhs = (2 * np.arange(lhigh + 1)[:, None] + 1) / (4 * math.pi) * pl
            J.cmp(name + "[addition-theorem]", "high-degree", lhs, rhs, (2 * np.arange(lhigh + 1)[:, None] + 1) / (4 * math.pi),
                  lambda j: {**case(j), "theta2": float(np.roll(th, -1)[j]), "phi2": float(np.roll(ph, -1)[j])})
            rep.evaluated(lhs.size, ("high", "addition"))
        # derivative against the calibrated evaluator (skip the two exact poles: zero convention)
        if lhigh <= 40 or done <= chunk:
            ld = min(lhigh, 40)
            keep = np.abs(np.tan(ph)) >= 1e-10
            dth, dph = ylm.dylm_angles(ld, th, ph)
            try:
                d = _call(gu.generate_derivative_real_spherical_harmonics, ld, th.copy(), ph.copy())
                nr = (ld + 1) ** 2
                dsc = (sc[:nr] * (ls[:nr, None] + 1))
                J.cmp("generate_derivative_real_spherical_harmonics[theta]", "high-degree", d[0], dth, dsc, case)
                J.cmp("generate_derivative_real_spherical_harmonics[phi]", "high-degree", d[1][:, keep], dph[:, keep], dsc,
                      lambda j: case(int(np.flatnonzero(keep)[j])))
                J.cmp("generate_derivative_real_spherical_harmonics[phi]", "pole", d[1][:, ~keep], 0.0 * dph[:, ~keep], dsc,
                      lambda j: case(int(np.flatnonzero(~keep)[j])))
                rep.evaluated(d.size, ("high", "derivative"))
            except Exception as e:
                rep.violation("derivative:high-degree:exception", f"raised {type(e).__name__}: {e}", case(0))
    for rec in J.bad.values():
        if rec["case"] is not None and "lm" not in rec["case"]:
            rec["case"]["lm"] = list(_lm_of_row(rec["case"]["row"]))


def _cart(rep, gu, em, tier, rng):
    """convert_cart_to_sph inverts the spherical parametrisation (tree `cart`) for any centre."""
    import mpmath as mp
    worst = {"lattice": 0.0, "forward": 0.0, "roundtrip": 0.0}

    def conv(p, c):
        with warnings.catch_warnings():
            warnings.simplefilter("ignore")
            with np.errstate(all="ignore"):
                return np.asarray(gu.convert_cart_to_sph(np.asarray(p, dtype=float), c), dtype=float)

    # (a) integer points / centres with the conversions expected by TLC (exact rationals)
    by_c = {}
    for s in em["sph"]:
        by_c.setdefault(tuple(s["c"]), []).append(s)
    for c, items in by_c.items():
        P = np.array([s["p"] for s in items], dtype=float)
        for cen, tag in ((np.array(c, dtype=float), "array"), (list(map(float, c)), "list")) + (((None, "none"),) if c == (0, 0, 0) else ()):
            try:
                got = conv(P, cen)
            except Exception as e:
                rep.violation(f"convert_cart_to_sph:centre={list(c)}:exception", f"raised {type(e).__name__}: {e}", {"c": c})
                continue
            if got.shape != (len(items), 3):
                rep.violation("convert_cart_to_sph:shape", f"shape {got.shape}", {"c": c})
                continue
            for s, (r, th, ph) in zip(items, got):
                e = [abs(r - s["r"]),
                     abs(math.cos(th) - s["ct"][0] / s["ct"][1]), abs(math.sin(th) - s["st"][0] / s["st"][1]),
                     abs(math.cos(ph) - s["cp"][0] / s["cp"][1]), abs(math.sin(ph) - s["sp"][0] / s["sp"][1])]
                dev = max(e)
                inrange = (r >= 0) and (-math.pi <= th <= math.pi) and (0 <= ph <= math.pi)
                rep.evaluated(1, ("cart", "lattice", tuple(s["p"]), c))
                if not (dev <= 1e-9 and inrange):
                    kind = "origin" if s["r"] == 0 else "z-axis" if s["sp"][0] == 0 else "generic"
                    rep.violation(f"convert_cart_to_sph:{kind}-point",
                                  f"convert_cart_to_sph({s['p']}, center={list(c)} as {tag}) = (r,theta,phi) {(r, th, ph)}; "
                                  f"specification: r={s['r']}, cos/sin theta={s['ct']},{s['st']}, cos/sin phi={s['cp']},{s['sp']}",
                                  {"func": "convert_cart_to_sph", "p": s["p"], "c": list(c), "expected": s})
                else:
                    worst["lattice"] = max(worst["lattice"], dev)
    # (b) forward: float (r, theta, phi) in the principal range -> Cart (tree, 50 digits) -> library
    n = 60 if tier == "quick" else 600
    cart = em["cart"]
    for i in range(n):
        r = float(rng.uniform(0.1, 5))
        th = float(rng.uniform(-math.pi, math.pi))
        ph = float(rng.uniform(1e-2, math.pi - 1e-2)) if i % 7 else (0.0 if i % 2 else math.pi)
        c = [0.0, 0.0, 0.0] if i % 3 == 0 else [float(x) for x in rng.integers(-6, 7, 3)] if i % 3 == 1 else [float(x) for x in rng.uniform(-3, 3, 3)]
        env = {"r": mp.mpf(r), "theta": mp.mpf(th), "phi": mp.mpf(ph), "cx": mp.mpf(c[0]), "cy": mp.mpf(c[1]), "cz": mp.mpf(c[2])}
        p = [float(evaluate(t, env, "mp")) for t in cart]
        try:
            got = conv([p], None if (i % 3 == 0 and i % 2) else np.array(c))[0]
        except Exception as e:
            rep.violation("convert_cart_to_sph:forward:exception", f"raised {type(e).__name__}: {e}", {"p": p, "c": c})
            continue
        rep.evaluated(1, ("cart", "forward", i))
        if ph in (0.0, math.pi):   # on the axis the azimuth is 0 by convention (x = y = 0 up to rounding of p)
            exp_ = (r, None, ph)
            dev = max(abs(got[0] - r), abs(got[2] - ph) if ph == 0.0 else abs(got[2] - ph))
            tol = 1e-6  # p is rounded to floats: the polar angle near a pole is sqrt-conditioned (acos)
        else:
            dth = abs((got[1] - th + math.pi) % (2 * math.pi) - math.pi)
            dev = max(abs(got[0] - r), dth, abs(got[2] - ph))
            tol = 1e-9
        if not dev <= tol:
            rep.violation("convert_cart_to_sph:forward",
                          f"Sph(Cart(r={r}, theta={th}, phi={ph}; c={c})) = {got.tolist()}", {"func": "convert_cart_to_sph", "p": p, "c": c,
                                                                                             "expected": [r, th, ph]})
        elif tol == 1e-9:
            worst["forward"] = max(worst["forward"], dev)
    # (c) round trip: float points / centres -> library -> Cart tree (50 digits) = p; ranges
    n = 100 if tier == "quick" else 1000
    for i in range(n):
        p = rng.uniform(-5, 5, 3)
        c = np.zeros(3) if i % 4 == 0 else rng.uniform(-5, 5, 3)
        if i % 10 == 3:
            p = c.copy()                      # the centre itself: r = 0, theta = phi = 0
        if i % 10 == 5:
            p = c + np.array([0.0, 0.0, float(rng.choice([-2.5, 1.25]))])   # on the z axis
        if i % 10 == 7:
            p = c + np.array([float(rng.choice([-1.5, 2.0])), 0.0, 0.0])    # on the x axis (theta = 0 or pi)
        try:
            got = conv([p], c)[0]
        except Exception as e:
            rep.violation("convert_cart_to_sph:roundtrip:exception", f"raised {type(e).__name__}: {e}", {"p": p.tolist(), "c": c.tolist()})
            continue
        rep.evaluated(1, ("cart", "roundtrip", i))
        env = {"r": mp.mpf(got[0]), "theta": mp.mpf(got[1]), "phi": mp.mpf(got[2]),
               "cx": mp.mpf(c[0]), "cy": mp.mpf(c[1]), "cz": mp.mpf(c[2])}
        if not np.all(np.isfinite(got)):
            dev = float("inf")
        else:
            back = [float(evaluate(t, env, "mp")) for t in cart]
            dev = float(np.abs(np.array(back) - p).max())
        inrange = (got[0] >= 0) and (-math.pi <= got[1] <= math.pi) and (0 <= got[2] <= math.pi)
        conv_ok = True
        if i % 10 == 3:
            conv_ok = got[0] == 0 and got[1] == 0 and got[2] == 0
        if i % 10 == 5:
            conv_ok = got[1] == 0 and (got[2] == 0 or abs(got[2] - math.pi) < 1e-15)
        if not (dev <= 1e-9 and inrange and conv_ok):
            kind = "origin" if i % 10 == 3 else "z-axis" if i % 10 == 5 else "generic"
            rep.violation(f"convert_cart_to_sph:{kind}-point",
                          f"Cart(convert_cart_to_sph(p, c)) differs from p by {dev:.3e} or leaves the principal range / "
                          f"zero conventions: p={p.tolist()}, c={c.tolist()}, (r,theta,phi)={got.tolist()}",
                          {"func": "convert_cart_to_sph", "p": p.tolist(), "c": c.tolist()})
        else:
            worst["roundtrip"] = max(worst["roundtrip"], dev)
    # input validation documented in the code: shape (N, 3) and centre of length 3
    for bad, cen in ((np.zeros(3), None), (np.zeros((2, 2)), None), (np.zeros((2, 3)), [0.0, 0.0])):
        try:
            gu.convert_cart_to_sph(bad, cen)
            rep.violation("convert_cart_to_sph:accepts-malformed", f"accepted points of shape {bad.shape} / centre {cen}",
                          {"shape": list(bad.shape)})
        except ValueError:
            pass
        except Exception as e:
            rep.violation("convert_cart_to_sph:malformed:exception", f"raised {type(e).__name__} instead of ValueError: {e}",
                          {"shape": list(bad.shape)})
        rep.evaluated(1, ("cart", "malformed", bad.shape))
    rep.set("cart_to_sph_max_dev", worst)


# ---------------------------------------------------------------------------------------------

def replay(path: str) -> int:
    import grid.utils as gu
    with open(path) as f:
        v = json.load(f)
    c = v.get("case") or {}
    func = c.get("func", "")
    if func.startswith("convert_cart_to_sph") and "expected" in c and isinstance(c["expected"], list):
        got = np.asarray(gu.convert_cart_to_sph(np.array([c["p"]], dtype=float), np.array(c["c"], dtype=float)))[0]
        print("replay:", c, "->", got.tolist())
        return 0 if np.abs(got - np.array(c["expected"])).max() <= 1e-9 else 1
    if "theta" in c and "row" in c:
        base = func.split("[")[0]
        th, ph = np.array([c["theta"]]), np.array([c["phi"]])
        if base == "solid_harmonics":
            got = _call(gu.solid_harmonics, c["l_max"], np.array([[c["r"], c["theta"], c["phi"]]]))[c["row"], 0]
        elif base.startswith("generate_derivative"):
            got = _call(getattr(gu, base), c["l_max"], th, ph)[0 if "theta" in func else 1, c["row"], 0]
        elif hasattr(gu, base):
            got = _call(getattr(gu, base), c["l_max"], th, ph)[c["row"], 0]
        else:
            print("replay: relational case; rerunning the quick tier")
            return run("quick")
        print(f"replay: {func} row {c['row']} at theta={c['theta']}, phi={c['phi']}: now {got!r}, expected {c['expected']!r}")
        l = _lm_of_row(c["row"])[0]
        return 0 if abs(got - c["expected"]) <= TOL * _scale(l) * (l + 1) * max(1.0, c.get("r", 1.0) ** l) else 1
    print("replay: model-level or structural violation; rerunning the quick tier")
    return run("quick")


# ---------------------------------------------------------------------------------------------
# sensitivity: source-level mutants of grid.utils, applied in-process

def _mutant(name, old, new, count=1):
    """Return (restore, ok): re-executes the source of grid.utils.<name> with one textual edit."""
    import grid.utils as gu
    import grid.atomgrid as ag
    src = textwrap.dedent(inspect.getsource(getattr(gu, name)))
    if src.count(old) < 1:
        raise tlc.MachineryError(f"mutant pattern not found in {name}: {old!r}")
    src = src.replace(old, new, count)
    ns = gu.__dict__
    saved = ns[name]
    exec(compile(src, f"<mutant {name}>", "exec"), ns)
    saved_ag = getattr(ag, name, None)
    if saved_ag is not None:
        setattr(ag, name, ns[name])

    def restore():
        ns[name] = saved
        if saved_ag is not None:
            setattr(ag, name, saved_ag)
    return restore


MUTANTS = [
    ("condon-shortley-phase", "generate_real_spherical_harmonics",
     "p_leg[m_ord, 0] = p_leg[m_ord - 1, 1] * (2 * (l_deg - 1.0) + 1) * sin_phi",
     "p_leg[m_ord, 0] = -p_leg[m_ord - 1, 1] * (2 * (l_deg - 1.0) + 1) * sin_phi"),
    ("cos-sin-rows-swapped", "generate_real_spherical_harmonics",
     "spherical_harm[i_sph, :] = common_fact * np.cos(float(m_ord) * theta)\n                i_sph += 1\n                spherical_harm[i_sph, :] = common_fact * np.sin(float(m_ord) * theta)",
     "spherical_harm[i_sph, :] = common_fact * np.sin(float(m_ord) * theta)\n                i_sph += 1\n                spherical_harm[i_sph, :] = common_fact * np.cos(float(m_ord) * theta)"),
    ("recursion-coefficient-b_k", "generate_real_spherical_harmonics",
     "return (float(deg) - 1.0 + float(ord)) / (float(deg) - float(ord))",
     "return (float(deg) - 1.0 + float(ord)) / (float(deg) - float(ord) + 1.0)"),
    ("recursion-boundary-m<=l-2", "generate_real_spherical_harmonics",
     "if m_ord <= l_deg - 2 else 0.0", "if m_ord < l_deg - 2 else 0.0"),
    ("factorial-update", "generate_real_spherical_harmonics",
     "(float(l_deg) + float(m_ord) + 1.0) * (float(l_deg) - float(m_ord))",
     "(float(l_deg) + float(m_ord) + 1.0) * (float(l_deg) - float(m_ord) + 1.0)"),
    ("normalisation-4pi", "generate_real_spherical_harmonics",
     "return np.sqrt((2.0 * float(deg) + 1) / (4.0 * np.pi))", "return np.sqrt((2.0 * float(deg) + 1) / (2.0 * np.pi))"),
    ("scipy-phase-dropped", "generate_real_spherical_harmonics_scipy",
     "np.sqrt(2) * (-1.0) ** np.arange(1, l_max + 1)", "np.sqrt(2) * (1.0) ** np.arange(1, l_max + 1)"),
    ("scipy-negative-m-sign", "generate_real_spherical_harmonics_scipy",
     "total_sph[row_start + 2 : row_end : 2] = sph_degree_pos[1:].imag",
     "total_sph[row_start + 2 : row_end : 2] = -sph_degree_pos[1:].imag"),
    ("derivative-theta-sign", "generate_derivative_real_spherical_harmonics",
     "output[0, i_output, :] = -float(m) * sph_harm_degree[index_m(-m), :]",
     "output[0, i_output, :] = float(m) * sph_harm_degree[index_m(-m), :]"),
    ("derivative-cot-threshold", "generate_derivative_real_spherical_harmonics",
     "cot_tangent[np.abs(np.tan(phi)) < 1e-10] = 0.0", "cot_tangent[np.abs(np.tan(phi)) < 1e-1] = 0.0"),
    ("derivative-raising-boundary", "generate_derivative_real_spherical_harmonics",
     "if m < l_val:  # When m == l_val, then fac = 0", "if m < l_val - 1:"),
    ("derivative-raising-coefficient", "generate_derivative_real_spherical_harmonics",
     "fac = np.sqrt((l_val - np.abs(float(m))) * (l_val + np.abs(m) + 1))",
     "fac = np.sqrt((l_val - np.abs(float(m)) + 1) * (l_val + np.abs(m)))"),
    ("derivative-m0-factor", "generate_derivative_real_spherical_harmonics",
     "output[1, i_output, :] /= np.sqrt(2.0)", "output[1, i_output, :] /= 2.0"),
    ("derivative-negative-m-projection", "generate_derivative_real_spherical_harmonics",
     "output[1, i_output, :] += np.imag(complex_expon * sph_harm_m)", "output[1, i_output, :] -= np.imag(complex_expon * sph_harm_m)"),
    ("solid-normalisation", "solid_harmonics",
     "np.sqrt(4.0 * np.pi / (2 * degrees[:, None] + 1))", "np.sqrt(4.0 * np.pi / (2 * degrees[:, None] + 2))"),
    ("cart-arctan2-argument-order", "convert_cart_to_sph",
     "theta = np.arctan2(relat_pts[:, 1], relat_pts[:, 0])", "theta = np.arctan2(relat_pts[:, 0], relat_pts[:, 1])"),
    ("cart-centre-ignored-for-radius", "convert_cart_to_sph",
     "r = np.linalg.norm(relat_pts, axis=-1)", "r = np.linalg.norm(points, axis=-1)"),
    ("cart-origin-convention", "convert_cart_to_sph", "phi[r == 0.0] = 0.0", "phi[r == 0.0] = np.pi / 2"),
    ("cart-polar-from-y", "convert_cart_to_sph", "phi = np.arccos(relat_pts[:, 2] / r)", "phi = np.arcsin(relat_pts[:, 2] / r)"),
]


def selftest(tier: str) -> int:
    """Every mutant must be reported as a violation by run('quick')."""
    import contextlib
    import io
    killed, missed = [], []
    for name, fn, old, new in MUTANTS:
        restore = _mutant(fn, old, new)
        buf = io.StringIO()
        try:
            with contextlib.redirect_stdout(buf):
                rc = run("quick")
        finally:
            restore()
        lines = [l for l in buf.getvalue().splitlines() if l.startswith("VIOLATION")]
        (killed if rc == 1 and lines else missed).append(name)
        print(f"mutant {name:36s} -> {'KILLED' if rc == 1 and lines else 'MISSED'}  ({len(lines)} violation keys"
              + (f", e.g. {lines[0].split('#')[1].strip()[:110]}" if lines else "") + ")")
    print(f"selftest: {len(killed)}/{len(MUTANTS)} mutants killed; missed: {missed}")
    run("quick")  # leave a clean evidence file behind
    return 0 if not missed else 1
