"""Shared harness code of C03 / C04 (radial transforms): run RTransform.tla, load what TLC
emitted, evaluate spec trees, build the library objects, judge float observations.

Nothing in here knows a closed form of the library: every expected value is the value of a
tree derived by TLC from the forward / inverse map written in spec/RTransform.tla (or an
exact value printed by TLC), evaluated by the generic evaluator vf/expr_eval.py.

Tolerance policy (DESIGN.md section 4, "tolerances from conditioning"): an observation ``obs``
of a quantity whose spec value is f is accepted iff

    |obs - f| <= max( RTOL * |f| ,  KCOND * B ),

B = first-order running error bound (eps per operation and per input) of evaluating the SPEC
tree of f in double precision (``running_error``), plus, for the methods the library computes
THROUGH the other side of the map (derivatives of the inverse via x = inverse(r); everything on
InverseRTransform), the error of that intermediate value pushed through df (``error_budget``).
B is what a straightforward double-precision implementation of the same mathematical
definition loses; it matters only near zeros of f and at ill-conditioned points (inverse of a
map with a flat start, 1 - exp(-u) for tiny u), where a purely relative test would be a false
alarm.  B is computed only when the error exceeds 1e-3 * RTOL * |f|.  Calibration figures are in
the docstrings of props/c03.py and props/c04.py.
"""
from __future__ import annotations

import json
import math
import re
import warnings
from fractions import Fraction
from pathlib import Path

import numpy as np

from . import expr_eval, tlc

mp = expr_eval.mp
EPS = 2.220446049250313e-16
RTOL = 1e-9
KCOND = 1e3

# specification class name -> (library class, constructor keyword order)
LIB = {
    "Becke": "BeckeRTransform", "LinearFinite": "LinearFiniteRTransform", "Identity": "IdentityRTransform",
    "LinearInfinite": "LinearInfiniteRTransform", "Exp": "ExpRTransform", "Power": "PowerRTransform",
    "Hyperbolic": "HyperbolicRTransform", "MultiExp": "MultiExpRTransform", "Knowles": "KnowlesRTransform",
    "Handy": "HandyRTransform", "HandyMod": "HandyModRTransform",
}
FWD = (("transform", "F"), ("deriv", "d1"), ("deriv2", "d2"), ("deriv3", "d3"))
INV = (("inverse", "G"), ("deriv_inverse", "g1"), ("deriv2_inverse", "g2"), ("deriv3_inverse", "g3"))


# ---------------------------------------------------------------------------------------------
# TLC output

def tagged(stdout: str, tag: str) -> list:
    """tlc.tagged, tolerant of TLC's pretty printer (``<< "TAG",`` spread over lines)."""
    return tlc.tagged(re.sub(r'<<\s+"', '<<"', stdout), tag)


def dec(v):
    """Decode RTransform!Enc: Fraction | mp.inf | -mp.inf | mp value of a + b ln c | None."""
    if v == []:
        return None
    if v[0] == "pinf":
        return mp.inf
    if v[0] == "ninf":
        return -mp.inf
    if v[0] == "log":
        a, b, c = (Fraction(q[0], q[1]) for q in v[1:4])
        return _mpf(a) + _mpf(b) * mp.log(_mpf(c))
    return Fraction(v[0], v[1])


def _mpf(v):
    if isinstance(v, Fraction):
        return mp.mpf(v.numerator) / mp.mpf(v.denominator)
    return mp.mpf(v)


# ---------------------------------------------------------------------------------------------
# emission

class Inst:
    def __init__(self, idx, d):
        self.idx = idx
        self.cls = d["cls"]
        self.ip = d["ip"]
        self.trees = d["trees"]
        self.decl = d["decl"]
        self.inv_trees = d["inv_trees"]
        self.inv_decl = d["inv_decl"]
        self.wtree = d.get("wtree")
        self.inv_wtree = d.get("inv_wtree")
        self.params = [_env(e) for e in d["params"]]
        self.points = [[Fraction(q[0], q[1]) for q in pts] for pts in d["points"]]
        self.params4 = [_env(e) for e in d.get("params4", [])]
        self.pnames = list(self.decl["pnames"])
        self.ename = self.decl["ename"]
        self.trims = bool(self.decl["trims"])
        self.binfer = bool(self.decl["binfer"])

    @property
    def label(self):
        return LIB[self.cls] + (f":{self.ename}={self.ip}" if self.ip else "")


def _env(e):
    if isinstance(e, list):  # the empty function is serialised as []
        return {}
    return {k: Fraction(v[0], v[1]) for k, v in e.items()}


class Emission:
    def __init__(self, path: Path):
        with open(path) as f:
            d = json.load(f)
        self.instances = [Inst(i + 1, x) for i, x in enumerate(d["instances"])]
        self.rules = d.get("rules", [])
        self.gl = d.get("gl", [])
        self.trim = float(d["trim"]["mant"]) * 10.0 ** int(d["trim"]["exp10"])

    def by(self, cls, ip):
        for i in self.instances:
            if i.cls == cls and i.ip == ip:
                return i
        raise KeyError((cls, ip))


# ---------------------------------------------------------------------------------------------
# tree evaluation

def ev(tree, env):
    """50-digit value of a spec tree; the leaf ``pinf`` is +infinity; None where the tree is
    singular (division by zero, log 0)."""
    if tree.get("op") == "pinf":
        return mp.inf
    try:
        v = expr_eval.evaluate(tree, env, "mp")
    except (ZeroDivisionError, ValueError, OverflowError):
        return None
    if isinstance(v, mp.mpc) or (isinstance(v, mp.mpf) and mp.isnan(v)):
        return None      # outside the real domain of the tree (e.g. a point beyond a domain end)
    return v


def is_rational_tree(t) -> bool:
    if isinstance(t, dict):
        if t.get("op") in ("pow", "sqrt", "exp", "log", "pi", "pinf"):
            return False
        return all(is_rational_tree(v) for v in t.values())
    if isinstance(t, list):
        return all(is_rational_tree(v) for v in t)
    return True


def ev_exact(tree, env):
    """Fraction value of a rational tree (unbounded integers)."""
    return expr_eval.evaluate(tree, env, "fraction")


def running_error(tree, env):
    """(value, bound): 50-digit value of the tree and a first-order running error bound for
    evaluating THIS tree in double precision when every leaf carries a relative error eps
    (standard model fl(a op b) = (a op b)(1 + d), |d| <= eps).  The bound contains both the
    conditioning with respect to the inputs and the cancellation inside the formula (e.g.
    1 - exp(-u) for small u), which is what a straightforward implementation of the same
    mathematical definition loses as well.  None where the tree is singular."""
    E = mp.mpf(EPS)

    def go(t):
        op = t["op"]
        if op == "c":
            v = mp.mpf(int(t["n"])) / mp.mpf(int(t["d"]))
            d = int(t["d"])
            return v, (mp.mpf(0) if d & (d - 1) == 0 else E * abs(v))
        if op == "v":
            v = _mpf(env[t["name"]])
            return v, E * abs(v)
        if op == "pi":
            return +mp.pi, E * mp.pi
        if op in ("neg", "abs"):
            a, ea = go(t["a"])
            return (-a if op == "neg" else abs(a)), ea
        if op in ("add", "sub"):
            a, ea = go(t["a"])
            b, eb = go(t["b"])
            v = a + b if op == "add" else a - b
            return v, ea + eb + E * abs(v)
        if op == "mul":
            a, ea = go(t["a"])
            b, eb = go(t["b"])
            v = a * b
            return v, abs(a) * eb + abs(b) * ea + E * abs(v)
        if op == "div":
            a, ea = go(t["a"])
            b, eb = go(t["b"])
            v = a / b
            return v, ea / abs(b) + abs(a) * eb / (b * b) + E * abs(v)
        if op == "powi":
            a, ea = go(t["a"])
            k = int(t["k"])
            v = a ** k
            return v, (abs(k) * abs(v / a) * ea if a != 0 else mp.mpf(0)) + abs(k) * E * abs(v)
        if op == "pow":
            a, ea = go(t["a"])
            b, eb = go(t["b"])
            v = a ** b
            return v, abs(v) * (abs(b) * ea / abs(a) + abs(mp.log(a)) * eb) + 2 * E * abs(v)
        if op == "sqrt":
            a, ea = go(t["a"])
            v = mp.sqrt(a)
            return v, ea / (2 * v) + E * v
        if op == "exp":
            a, ea = go(t["a"])
            v = mp.exp(a)
            return v, v * ea + E * v
        if op == "log":
            a, ea = go(t["a"])
            v = mp.log(a)
            return v, ea / abs(a) + E * abs(v)
        raise ValueError(f"running_error: node {op!r}")

    try:
        v = go(tree)
    except (ZeroDivisionError, ValueError, OverflowError, TypeError):
        return None
    if isinstance(v[0], mp.mpc) or isinstance(v[1], mp.mpc):
        return None
    return v


def dtree(tree, env, var):
    """d tree / d var by a one-sided difference with relative step 1e-25 (50-digit arithmetic)."""
    h = mp.mpf(10) ** -25
    x = _mpf(env[var])
    dx = x * h if x != 0 else h
    f0 = ev(tree, env)
    f1 = ev(tree, dict(env, **{var: x + dx}))
    if f0 is None or f1 is None:
        return None
    return (f1 - f0) / dx


def error_budget(tree, env, var, route=None):
    """Absolute error a straightforward double-precision implementation may make for the
    quantity ``tree``(var): the running error of the spec tree itself, plus - for the methods the
    library computes through the other side of the map - the running error of the equivalent
    inverse-function-theorem expression (spec trees a_n / b_n, proved equal by TLC) taken at the
    intermediate value, and the error of that intermediate value pushed through the derivative.

    route = None                            direct formula in var
          = ("via", I, alt, avar)           first i = I(var) (e.g. x = G(r)), then alt(avar = i)
          = ("roundtrip", G, F, alt, avar)  first G(var), then F of that (~ var again), then a formula
    alt may be None.
    """
    re0 = running_error(tree, env)
    if re0 is None:
        return None
    total = re0[1]
    if route is None:
        return total
    df = dtree(tree, env, var)
    if df is None:
        return None
    r1 = running_error(route[1], env)              # the intermediate value and its error
    di = dtree(route[1], env, var)
    if r1 is None or di is None or di == 0:
        return None
    alt, avar = route[-2], route[-1]
    if alt is not None:
        ra = running_error(alt, dict(env, **{avar: r1[0]}))
        if ra is None:
            return None
        total += ra[1]
    if route[0] == "via":
        return total + r1[1] * abs(df) / abs(di)
    if route[0] == "roundtrip":
        r2 = running_error(route[2], dict(env, x=r1[0]))   # F(G(var)), own error
        if r2 is None:
            return None
        return total + (r1[1] / abs(di) + r2[1]) * abs(df)
    raise ValueError(route)


def judge(obs: float, tree, env, var=None, route=None, rtol=RTOL, kcond=KCOND):
    """Return (ok, expected(float), err, tol, ratio) for a float observation against a spec tree."""
    exp = ev(tree, env)
    if exp is None:
        return None
    return judge_value(obs, exp, (lambda: error_budget(tree, env, var, route)) if var else None, rtol, kcond)


def judge_value(obs, exp, sens=None, rtol=RTOL, kcond=KCOND):
    """(ok, expected, err, tol, ratio): ratio = err / tol is the calibration figure (an accepted
    observation should stay below 1e-3).  The conditioning term is only computed when the error
    exceeds 1e-3 of the relative tolerance."""
    obs = float(obs)
    fexp = float(exp)
    if math.isnan(obs):
        return False, fexp, float("nan"), 0.0, float("inf")
    if math.isinf(fexp) or math.isinf(obs):
        return obs == fexp, fexp, 0.0 if obs == fexp else float("inf"), 0.0, 0.0 if obs == fexp else float("inf")
    err = float(abs(_mpf(obs) - exp))
    tol = rtol * abs(fexp)
    if err <= 1e-3 * tol:
        return True, fexp, err, tol, (err / tol if tol > 0 else 0.0)
    if sens is not None:
        s = sens()
        if s is not None:
            tol = max(tol, kcond * float(s))
    ok = err <= tol
    return ok, fexp, err, tol, (err / tol if tol > 0 else float("inf"))


# ---------------------------------------------------------------------------------------------
# library objects

def make_tf(inst: Inst, env: dict, expo=None, trim=None):
    """Instantiate the library class of a spec instance.  env: parameter name -> float;
    expo: value of the exponent parameter (k / m) when the class has one."""
    import grid.rtransform as rt
    C = getattr(rt, LIB[inst.cls])
    kw = {}
    if inst.trims and trim is not None:
        kw["trim_inf"] = trim
    c = inst.cls
    if c in ("Becke", "MultiExp"):
        return C(env["rmin"], env["R"], **kw)
    if c == "LinearFinite":
        return C(env["rmin"], env["rmax"])
    if c == "Identity":
        return C()
    if c in ("LinearInfinite", "Exp", "Power"):
        return C(env["rmin"], env["rmax"], b=env.get("b"))
    if c == "Hyperbolic":
        return C(env["a"], env["b"])
    if c in ("Knowles", "Handy"):
        return C(env["rmin"], env["R"], expo, **kw)
    if c == "HandyMod":
        return C(env["rmin"], env["rmax"], expo, **kw)
    raise KeyError(c)


def expo_of(inst: Inst, env: dict):
    if not inst.ename:
        return None
    return inst.ip if inst.ip else env[inst.ename]


def float_env(env: dict) -> dict:
    return {k: float(v) for k, v in env.items()}


def tree_env(fenv: dict, **extra) -> dict:
    """Environment for the evaluator: the EXACT binary values of the floats handed to the library."""
    e = {k: _mpf(v) for k, v in fenv.items()}
    e.update({k: _mpf(v) for k, v in extra.items()})
    return e


def admissible(inst: Inst, fenv: dict, margin=0.0) -> bool:
    e = tree_env(fenv)
    for t in inst.decl["adm"]:
        v = ev(t, e)
        if v is None or not (v > margin):
            return False
    return True


def call(fn, *a):
    """Call into the library; any exception is returned, never raised."""
    try:
        with warnings.catch_warnings():
            warnings.simplefilter("ignore")
            with np.errstate(all="ignore"):
                return fn(*a), None
    except Exception as e:  # noqa: BLE001
        return None, e


def hyper_chunk(b: float) -> int:
    """Largest array length the Hyperbolic class accepts: b * (N - 1) < 1."""
    n = int(math.floor(1.0 / b)) + 1
    while n > 1 and b * (n - 1) >= 1.0:
        n -= 1
    return max(n, 1)
