"""Shared harness code of C03 / C04 (radial transforms): run RTransform.tla, load what TLC
emitted, evaluate spec trees, build the library objects, judge float observations.

Nothing in here knows a closed form of the library: every expected value is the value of a
tree derived by TLC from the forward / inverse map written in spec/RTransform.tla (or an
exact value printed by TLC), evaluated by the generic evaluator vf/expr_eval.py.

Tolerance policy (DESIGN.md section 4, "tolerances from conditioning"): an observation ``obs``
of a quantity whose spec value is f(inputs) is accepted iff

    |obs - f| <= max( RTOL * |f| ,  KCOND * eps * S ),   S = sum_i |in_i| * |df/din_i|

where the sum runs over the float inputs (point and real parameters) and the partial
derivatives are finite differences of the SPEC tree in 50-digit arithmetic; for the methods
the library computes THROUGH the other side of the map (derivatives of the inverse via
x = inverse(r); everything on InverseRTransform) the rounding of that intermediate value is
one more input (sensitivity_via).  S * eps is the
error a backward-stable evaluation may make; it matters only near zeros of f and at strongly
ill-conditioned points (e.g. the inverse of a map with a flat start), where a purely relative
test would be a false alarm.  Calibration on the pinned tree (gen/C03-scratch/calib.py, 1.6e5
observations over all classes, methods, scalar/array, lattice + random): largest
err/(RTOL*|f|) = 2.6e-5 ... see the module docstrings of c03.py / c04.py for the numbers.
"""
from __future__ import annotations

import json
import math
import re
import warnings
from fractions import Fraction
from pathlib import Path

import numpy as np

from . import expr_eval, tlc

mp = expr_eval.mp
EPS = 2.220446049250313e-16
RTOL = 1e-9
KCOND = 1e4

# specification class name -> (library class, constructor keyword order)
LIB = {
    "Becke": "BeckeRTransform", "LinearFinite": "LinearFiniteRTransform", "Identity": "IdentityRTransform",
    "LinearInfinite": "LinearInfiniteRTransform", "Exp": "ExpRTransform", "Power": "PowerRTransform",
    "Hyperbolic": "HyperbolicRTransform", "MultiExp": "MultiExpRTransform", "Knowles": "KnowlesRTransform",
    "Handy": "HandyRTransform", "HandyMod": "HandyModRTransform",
}
FWD = (("transform", "F"), ("deriv", "d1"), ("deriv2", "d2"), ("deriv3", "d3"))
INV = (("inverse", "G"), ("deriv_inverse", "g1"), ("deriv2_inverse", "g2"), ("deriv3_inverse", "g3"))


# ---------------------------------------------------------------------------------------------
# TLC output

def tagged(stdout: str, tag: str) -> list:
    """tlc.tagged, tolerant of TLC's pretty printer (``<< "TAG",`` spread over lines)."""
    return tlc.tagged(re.sub(r'<<\s+"', '<<"', stdout), tag)


def dec(v):
    """Decode RTransform!Enc: Fraction | mp.inf | -mp.inf | mp value of a + b ln c | None."""
    if v == []:
        return None
    if v[0] == "pinf":
        return mp.inf
    if v[0] == "ninf":
        return -mp.inf
    if v[0] == "log":
        a, b, c = (Fraction(q[0], q[1]) for q in v[1:4])
        return _mpf(a) + _mpf(b) * mp.log(_mpf(c))
    return Fraction(v[0], v[1])


def _mpf(v):
    if isinstance(v, Fraction):
        return mp.mpf(v.numerator) / mp.mpf(v.denominator)
    return mp.mpf(v)


# ---------------------------------------------------------------------------------------------
# emission

class Inst:
    def __init__(self, idx, d):
        self.idx = idx
        self.cls = d["cls"]
        self.ip = d["ip"]
        self.trees = d["trees"]
        self.decl = d["decl"]
        self.inv_trees = d["inv_trees"]
        self.inv_decl = d["inv_decl"]
        self.wtree = d.get("wtree")
        self.inv_wtree = d.get("inv_wtree")
        self.params = [_env(e) for e in d["params"]]
        self.points = [[Fraction(q[0], q[1]) for q in pts] for pts in d["points"]]
        self.params4 = [_env(e) for e in d.get("params4", [])]
        self.pnames = list(self.decl["pnames"])
        self.ename = self.decl["ename"]
        self.trims = bool(self.decl["trims"])
        self.binfer = bool(self.decl["binfer"])

    @property
    def label(self):
        return LIB[self.cls] + (f":{self.ename}={self.ip}" if self.ip else "")


def _env(e):
    if isinstance(e, list):  # the empty function is serialised as []
        return {}
    return {k: Fraction(v[0], v[1]) for k, v in e.items()}


class Emission:
    def __init__(self, path: Path):
        with open(path) as f:
            d = json.load(f)
        self.instances = [Inst(i + 1, x) for i, x in enumerate(d["instances"])]
        self.rules = d.get("rules", [])
        self.gl = d.get("gl", [])
        self.trim = float(d["trim"]["mant"]) * 10.0 ** int(d["trim"]["exp10"])

    def by(self, cls, ip):
        for i in self.instances:
            if i.cls == cls and i.ip == ip:
                return i
        raise KeyError((cls, ip))


# ---------------------------------------------------------------------------------------------
# tree evaluation

def ev(tree, env):
    """50-digit value of a spec tree; the leaf ``pinf`` is +infinity; None where the tree is
    singular (division by zero, log 0)."""
    if tree.get("op") == "pinf":
        return mp.inf
    try:
        return expr_eval.evaluate(tree, env, "mp")
    except (ZeroDivisionError, ValueError, OverflowError):
        return None


def is_rational_tree(t) -> bool:
    if isinstance(t, dict):
        if t.get("op") in ("pow", "sqrt", "exp", "log", "pi", "pinf"):
            return False
        return all(is_rational_tree(v) for v in t.values())
    if isinstance(t, list):
        return all(is_rational_tree(v) for v in t)
    return True


def ev_exact(tree, env):
    """Fraction value of a rational tree (unbounded integers)."""
    return expr_eval.evaluate(tree, env, "fraction")


def sensitivity(tree, env, names):
    """S = sum_i |in_i| |df/din_i| by one-sided differences with relative step 1e-25."""
    f0 = ev(tree, env)
    if f0 is None:
        return None
    h = mp.mpf(10) ** -25
    s = mp.mpf(0)
    for n in names:
        v = env[n]
        if v == 0:
            continue
        e2 = dict(env)
        e2[n] = _mpf(v) * (1 + h)
        f1 = ev(tree, e2)
        if f1 is None:
            return None
        s += abs(f1 - f0) / h
    return s


def sensitivity_via(tree, env, var, inter_tree):
    """|i| |df/dvar| / |di/dvar|: the error a relative rounding of the intermediate quantity
    i(var) causes in f, when an implementation computes f(var) through i (e.g. the derivative of
    the inverse map through x = G(r))."""
    h = mp.mpf(10) ** -25
    f0, i0 = ev(tree, env), ev(inter_tree, env)
    e2 = dict(env)
    e2[var] = _mpf(env[var]) * (1 + h) if env[var] != 0 else h
    f1, i1 = ev(tree, e2), ev(inter_tree, e2)
    if None in (f0, i0, f1, i1) or i1 == i0:
        return None
    return abs(i0) * abs(f1 - f0) / abs(i1 - i0)


def judge(obs: float, tree, env, names, rtol=RTOL, kcond=KCOND, via=None):
    """Return (ok, expected(float), err, tol, ratio) for a float observation against a spec tree.
    ratio = err / tol-of-the-relative-test (calibration figure)."""
    exp = ev(tree, env)
    if exp is None:
        return None
    def sens():
        s = sensitivity(tree, env, names)
        if s is not None and via is not None:
            t = sensitivity_via(tree, env, via[0], via[1])
            s = None if t is None else s + t
        return s
    return judge_value(obs, exp, sens, rtol, kcond)


def judge_value(obs, exp, sens=None, rtol=RTOL, kcond=KCOND):
    """(ok, expected, err, tol, ratio): ratio = err / tol is the calibration figure (an accepted
    observation should stay below 1e-3).  The conditioning term is only computed when the error
    exceeds 1e-3 of the relative tolerance."""
    obs = float(obs)
    fexp = float(exp)
    if math.isnan(obs):
        return False, fexp, float("nan"), 0.0, float("inf")
    if math.isinf(fexp) or math.isinf(obs):
        return obs == fexp, fexp, 0.0 if obs == fexp else float("inf"), 0.0, 0.0 if obs == fexp else float("inf")
    err = float(abs(_mpf(obs) - exp))
    tol = rtol * abs(fexp)
    if err <= 1e-3 * tol:
        return True, fexp, err, tol, (err / tol if tol > 0 else 0.0)
    if sens is not None:
        s = sens()
        if s is not None:
            tol = max(tol, kcond * EPS * float(s))
    ok = err <= tol
    return ok, fexp, err, tol, (err / tol if tol > 0 else float("inf"))


# ---------------------------------------------------------------------------------------------
# library objects

def make_tf(inst: Inst, env: dict, expo=None, trim=None):
    """Instantiate the library class of a spec instance.  env: parameter name -> float;
    expo: value of the exponent parameter (k / m) when the class has one."""
    import grid.rtransform as rt
    C = getattr(rt, LIB[inst.cls])
    kw = {}
    if inst.trims and trim is not None:
        kw["trim_inf"] = trim
    c = inst.cls
    if c in ("Becke", "MultiExp"):
        return C(env["rmin"], env["R"], **kw)
    if c == "LinearFinite":
        return C(env["rmin"], env["rmax"])
    if c == "Identity":
        return C()
    if c in ("LinearInfinite", "Exp", "Power"):
        return C(env["rmin"], env["rmax"], b=env.get("b"))
    if c == "Hyperbolic":
        return C(env["a"], env["b"])
    if c in ("Knowles", "Handy"):
        return C(env["rmin"], env["R"], expo, **kw)
    if c == "HandyMod":
        return C(env["rmin"], env["rmax"], expo, **kw)
    raise KeyError(c)


def expo_of(inst: Inst, env: dict):
    if not inst.ename:
        return None
    return inst.ip if inst.ip else env[inst.ename]


def float_env(env: dict) -> dict:
    return {k: float(v) for k, v in env.items()}


def tree_env(fenv: dict, **extra) -> dict:
    """Environment for the evaluator: the EXACT binary values of the floats handed to the library."""
    e = {k: _mpf(v) for k, v in fenv.items()}
    e.update({k: _mpf(v) for k, v in extra.items()})
    return e


def admissible(inst: Inst, fenv: dict, margin=0.0) -> bool:
    e = tree_env(fenv)
    for t in inst.decl["adm"]:
        v = ev(t, e)
        if v is None or not (v > margin):
            return False
    return True


def call(fn, *a):
    """Call into the library; any exception is returned, never raised."""
    try:
        with warnings.catch_warnings():
            warnings.simplefilter("ignore")
            with np.errstate(all="ignore"):
                return fn(*a), None
    except Exception as e:  # noqa: BLE001
        return None, e


def hyper_chunk(b: float) -> int:
    """Largest array length the Hyperbolic class accepts: b * (N - 1) < 1."""
    n = int(math.floor(1.0 / b)) + 1
    while n > 1 and b * (n - 1) >= 1.0:
        n -= 1
    return max(n, 1)
