"""Helper for ``selftest``: run a check under in-process mutants of the library.

A mutant is ``(name, apply)`` where ``apply()`` monkeypatches the imported ``grid`` modules and
returns an ``undo()`` callable.  The check's ``run(tier)`` is executed with evidence and replay
files redirected to a scratch directory (so the real evidence of the property is untouched)
and must return 1 (VIOLATION) for a killing mutant, 0 for an "anti-mutant" (a repaired library
that the check must accept).  /repo is never modified.
"""
from __future__ import annotations

import contextlib
import io
import re
from pathlib import Path

from . import evidence, tlc


@contextlib.contextmanager
def patched(obj, name, value):
    old = getattr(obj, name)
    setattr(obj, name, value)
    try:
        yield
    finally:
        setattr(obj, name, old)


def run_mutants(prop: str, run, tier: str, mutants, expect=None, verbose=True) -> int:
    """mutants: list of (name, contextmanager-factory).  expect: dict name -> expected exit code
    (default 1).  Returns 0 iff every mutant produced its expected status."""
    scratch = tlc.GEN / f"{prop}-selftest"
    (scratch / "evidence").mkdir(parents=True, exist_ok=True)
    (scratch / "replays").mkdir(parents=True, exist_ok=True)
    old_e, old_r = evidence.EVID, evidence.REPLAYS
    evidence.EVID, evidence.REPLAYS = scratch / "evidence", scratch / "replays"
    bad = 0
    rows = []
    try:
        for name, factory in mutants:
            want = (expect or {}).get(name, 1)
            buf = io.StringIO()
            try:
                with factory(), contextlib.redirect_stdout(buf):
                    rc = run(tier)
            except Exception as e:  # noqa: BLE001 - a mutant must never crash the harness
                rc = f"EXC {type(e).__name__}: {e}"
            out = buf.getvalue()
            keys = sorted(set(re.findall(r"^VIOLATION .*?#\s*(.*?): ", out, re.M)))
            ok = rc == want
            bad += 0 if ok else 1
            rows.append((name, rc, want, keys[:4]))
            if verbose:
                print(f"{'ok  ' if ok else 'MISS'} mutant={name} exit={rc} expected={want} keys={keys[:3]}")
    finally:
        evidence.EVID, evidence.REPLAYS = old_e, old_r
    print(f"[{prop}] selftest: {len(rows) - bad}/{len(rows)} mutants behaved as expected")
    return 0 if bad == 0 else 1


@contextlib.contextmanager
def source_mutant(modname: str, old: str, new: str, also_rebind=()):
    """Re-execute the source of an imported module with ``old`` replaced by ``new`` IN MEMORY
    (the file is not touched).  ``also_rebind``: (module name, attribute) pairs of other modules
    that imported a function by name and must see the mutated one."""
    import importlib
    mod = importlib.import_module(modname)
    src = Path(mod.__file__).read_text()
    if src.count(old) < 1:
        raise tlc.MachineryError(f"mutant pattern not found in {modname}: {old!r}")
    code = compile(src.replace(old, new, 1), mod.__file__ + "<mutant>", "exec")
    saved = dict(mod.__dict__)
    rebound = []
    exec(code, mod.__dict__)
    try:
        for mname, attr in also_rebind:
            m2 = importlib.import_module(mname)
            rebound.append((m2, attr, getattr(m2, attr)))
            setattr(m2, attr, mod.__dict__[attr])
        yield
    finally:
        for m2, attr, val in rebound:
            setattr(m2, attr, val)
        mod.__dict__.clear()
        mod.__dict__.update(saved)


def src(modname, old, new, also_rebind=()):
    return lambda: source_mutant(modname, old, new, also_rebind)
