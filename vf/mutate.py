"""In-process mutants of the library for the selftests (never touches /repo).

``mutated(module, old, new)`` re-executes the module's source with one textual edit inside the
module's own namespace and rebinds the references other ``grid`` modules hold to the replaced
classes/functions; on exit everything is put back.  Forked worker processes inherit the mutant.

``run_mutants`` drives a property's ``run`` under each mutant with the evidence/replay
directories redirected to a scratch directory, and reports which mutants were detected.
"""
from __future__ import annotations

import contextlib
import importlib
import inspect
import io
import sys
import types


@contextlib.contextmanager
def mutated(modname: str, old: str, new: str, occurrence: int | None = None):
    """occurrence=None: ``old`` must occur exactly once; k: replace only the k-th (0-based)."""
    mod = importlib.import_module(modname)
    src = inspect.getsource(mod)
    n = src.count(old)
    if n == 0 or (occurrence is None and n != 1):
        raise RuntimeError(f"mutant text occurs {n} times in {modname}: {old!r}")
    if occurrence is None:
        msrc = src.replace(old, new)
    else:
        parts = src.split(old)
        msrc = old.join(parts[:occurrence + 1]) + new + old.join(parts[occurrence + 1:])
    before = dict(mod.__dict__)
    exec(compile(msrc, mod.__file__ + "<mutant>", "exec"), mod.__dict__)
    rebound = []
    for name, oldv in before.items():
        newv = mod.__dict__.get(name)
        if newv is oldv or not isinstance(oldv, (type, types.FunctionType)):
            continue
        if getattr(oldv, "__module__", None) != modname:
            continue
        for m in list(sys.modules.values()):
            if m is None or m is mod or not getattr(m, "__name__", "").startswith("grid"):
                continue
            for k, v in list(vars(m).items()):
                if v is oldv:
                    setattr(m, k, newv)
                    rebound.append((m, k, oldv))
    try:
        yield
    finally:
        for k in list(mod.__dict__):
            if k not in before:
                del mod.__dict__[k]
        mod.__dict__.update(before)
        for m, k, oldv in rebound:
            setattr(m, k, oldv)


def run_mutants(prop: str, run, tier: str, mutants: list, scratch_name: str | None = None) -> int:
    """mutants: list of (name, modname, old, new[, occurrence]).  Returns 0 iff all detected."""
    from . import evidence, tlc
    d = tlc.scratch(scratch_name or f"{prop}-selftest")
    saved = (evidence.EVID, evidence.REPLAYS)
    evidence.EVID, evidence.REPLAYS = d / "evidence", d / "replays"
    results = []
    import os
    only = os.environ.get("VERIF_MUTANTS")
    if only:
        mutants = [m for m in mutants if any(t.strip() and t.strip() in m[0] for t in only.split(","))]
    try:
        for mu in mutants:
            name, modname, old, new = mu[:4]
            occ = mu[4] if len(mu) > 4 else None
            buf = io.StringIO()
            try:
                with mutated(modname, old, new, occ):
                    with contextlib.redirect_stdout(buf):
                        rc = run(tier)
                lines = [l for l in buf.getvalue().splitlines() if l.startswith("VIOLATION")]
                verdict = "DETECTED" if rc == 1 else "MISSED"
                first = lines[0].split("#", 1)[1].strip()[:160] if lines else ""
            except Exception as e:  # a mutant must never crash the harness
                verdict, first = "HARNESS-ERROR", f"{type(e).__name__}: {e}"[:300]
            results.append((name, verdict, first))
            print(f"mutant {name:38s} {verdict:14s} {first}", flush=True)
    finally:
        evidence.EVID, evidence.REPLAYS = saved
    killed = sum(1 for _, v, _ in results if v == "DETECTED")
    print(f"[{prop}] selftest: {killed}/{len(results)} mutants detected")
    return 0 if killed == len(results) else 1
