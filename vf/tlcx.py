"""Small additions to vf/tlc.py used by C15/C16/C17 (vf/tlc.py itself is not edited)."""
from __future__ import annotations

import re

from .tlc import _P


def tagged(stdout: str, tag: str) -> list:
    """Like tlc.tagged, but also finds payloads that TLC pretty-printed over several lines
    (long values are printed as ``<< "TAG",\\n   ...`` with a blank after ``<<``)."""
    out = []
    for m in re.finditer(r'<<\s*"%s"' % re.escape(tag), stdout):
        p = _P(stdout, m.start())
        try:
            out.append(p.value())
        except Exception:  # noqa: BLE001
            continue
    return out
