"""Vectorised evaluator for the expression trees of spec/Expr.tla and for straight-line
programs of such trees (sequences of ``[name, tree]`` as emitted by spec/Becke.tla).

Like vf/expr_eval.py it knows nothing about theochem/grid.  Variables may be NumPy arrays
(all of one broadcastable shape); arithmetic is carried out in ``dtype`` (default: NumPy's
extended precision ``longdouble``, 64-bit mantissa on x86-64), so that the value of a spec
tree is known a few digits better than any float64 implementation can reproduce it.

``run_program`` evaluates a program in one of the modes
  "fraction" | "mp"   scalar, through vf/expr_eval.evaluate (exact / 50 digits)
  "np"                 vectorised, this module
"""
from __future__ import annotations

import numpy as np

from . import expr_eval

_UN = {
    "sqrt": np.sqrt, "exp": np.exp, "log": np.log, "sin": np.sin, "cos": np.cos, "tan": np.tan,
    "sinh": np.sinh, "cosh": np.cosh, "tanh": np.tanh, "asinh": np.arcsinh, "asin": np.arcsin,
    "acos": np.arccos, "atan": np.arctan, "abs": np.abs,
}


def evaluate_np(t, env, dtype=np.longdouble):
    op = t["op"]
    if op == "c":
        return dtype(int(t["n"])) / dtype(int(t["d"]))
    if op == "v":
        return env[t["name"]]
    if op == "pi":
        return dtype(np.pi) if dtype is np.float64 else np.arctan(dtype(1)) * 4
    if op == "neg":
        return -evaluate_np(t["a"], env, dtype)
    if op in ("add", "sub", "mul", "div"):
        a = evaluate_np(t["a"], env, dtype)
        b = evaluate_np(t["b"], env, dtype)
        if op == "add":
            return a + b
        if op == "sub":
            return a - b
        if op == "mul":
            return a * b
        return a / b
    if op == "powi":
        a = evaluate_np(t["a"], env, dtype)
        k = int(t["k"])
        return a ** k if k >= 0 else 1 / a ** (-k)
    if op == "pow":
        return evaluate_np(t["a"], env, dtype) ** evaluate_np(t["b"], env, dtype)
    if op == "sum":
        tot = dtype(0)
        for i in range(int(t["lo"]), int(t["hi"]) + 1):
            e2 = dict(env)
            e2[t["idx"]] = dtype(i)
            tot = tot + evaluate_np(t["a"], e2, dtype)
        return tot
    if op in _UN:
        return _UN[op](evaluate_np(t["a"], env, dtype))
    raise ValueError(f"unknown node {op!r}")


def run_program(prog, env, mode="np", dtype=np.longdouble):
    """Run a straight-line program; returns the final environment (inputs + every name)."""
    if mode == "np":
        e = {k: np.asarray(v, dtype=dtype) for k, v in env.items()}
        for name, tree in prog:
            e[name] = evaluate_np(tree, e, dtype)
        return e
    e = dict(env)
    for name, tree in prog:
        e[name] = expr_eval.evaluate(tree, e, mode)
    return e


def run_program_scalar(prog, env, mode="fraction"):
    """Scalar run of a straight-line program in exact Fractions ("fraction") or 50-digit mpmath ("mp").

    Same arithmetic, node for node, as ``run_program(prog, env, mode)`` (which goes through
    ``expr_eval.evaluate`` for every step), but the environment is converted once and no magnitudes
    are tracked - about ten times faster on programs with hundreds of steps.  (Added for C06.)"""
    from fractions import Fraction
    if mode == "fraction":
        conv = lambda v: v if isinstance(v, Fraction) else Fraction(v)  # noqa: E731
        num = lambda n, d: Fraction(int(n), int(d))  # noqa: E731
        un = {"abs": abs}
    elif mode == "mp":
        mp = expr_eval.mp
        conv = lambda v: expr_eval._conv(v, "mp")  # noqa: E731
        num = lambda n, d: mp.mpf(int(n)) / mp.mpf(int(d))  # noqa: E731
        un = expr_eval._UN_MP()
    else:
        raise ValueError(mode)
    e = {k: conv(v) for k, v in env.items()}

    def ev(t):
        op = t["op"]
        if op == "c":
            return num(t["n"], t["d"])
        if op == "v":
            return e[t["name"]]
        if op == "neg":
            return -ev(t["a"])
        if op == "add":
            return ev(t["a"]) + ev(t["b"])
        if op == "sub":
            return ev(t["a"]) - ev(t["b"])
        if op == "mul":
            return ev(t["a"]) * ev(t["b"])
        if op == "div":
            return ev(t["a"]) / ev(t["b"])
        if op == "powi":
            a, k = ev(t["a"]), int(t["k"])
            if mode == "fraction":
                return Fraction(1) / a ** (-k) if k < 0 else a ** k
            return a ** k
        if op in un:
            return un[op](ev(t["a"]))
        raise ValueError(f"node {op!r} not supported by run_program_scalar in mode {mode}")

    for name, tree in prog:
        e[name] = ev(tree)
    return e
