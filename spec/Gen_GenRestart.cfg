SPECIFICATION GSpec
CONSTANTS
  Sizes <- GenSizes
  Wts <- GenWts
  MaxGens = 2
  MaxLen = 5
  Fresh = TRUE
INVARIANT Emit
INVARIANT NewGenFresh
INVARIANT YieldsExactlySize
INVARIANT ItemInOrder
PROPERTY StepIndependent
