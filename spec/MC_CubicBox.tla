------------------------------ MODULE MC_CubicBox ------------------------------
(***************************************************************************)
(* C13, UniformGrid.from_molecule with rotate=False on rational templates. *)
(* Coordinates are multiples of 1/8 bohr, spacing and extension dyadic, so *)
(* that the floating-point arithmetic of the implementation is exact and   *)
(* ceil() has no boundary ambiguity.                                       *)
(*                                                                         *)
(* TLC decides, for every template x spacing x extension:                  *)
(*   - the box centred on the MIDPOINT of the nuclear extent encloses every *)
(*     nucleus with margin >= extension - spacing (the property is         *)
(*     satisfiable by the documented size rule);                           *)
(*   - the box as shipped (centred on the centre of nuclear charge) does so *)
(*     whenever the centre of charge IS the midpoint;                       *)
(* and prints, for every case, the exact box of the shipped algorithm      *)
(* (shape, origin, margin, verdict) for the replay into the implementation.*)
(***************************************************************************)
EXTENDS Cubic

CONSTANTS MaxAtoms,      \* 1..3
          ZPool,         \* set of charges used for 1 and 2 atoms
          ZPool3         \* set of charges used for 3 atoms

PosPool == << <<0, 0, 0>>, <<16, 0, 0>>, <<-16, 0, 0>>, <<24, 8, 0>>, <<0, 16, 16>>, <<-8, -16, 8>>,
              <<48, 0, 0>>, <<52, 0, 0>> >>            \* eighths of a bohr
NPos == Len(PosPool)
SpacingPool == << <<1, 2>>, <<1, 4>>, <<3, 8>>, <<1, 1>> >>
ExtensionPool == << <<0, 1>>, <<1, 2>>, <<2, 1>>, <<5, 4>> >>
PosQ(x_) == [d_ \in 1..3 |-> Q(PosPool[x_][d_], 8)]
Atom(z_, x_) == [z |-> z_, r |-> PosQ(x_)]

VARIABLES bpc, bmol, bpar
Init == bpc = "idle" /\ bmol = <<>> /\ bpar = <<>>
PickFirst == /\ bpc = "idle"
             /\ \E x_ \in 1..NPos, n_ \in 1..MaxAtoms : bmol' = <<x_, n_>>
             /\ bpc' = "first" /\ UNCHANGED bpar
\* positions strictly increasing in the pool order; charges free
PickMolecule ==
    /\ bpc = "first"
    /\ LET x1 == bmol[1] IN
       CASE bmol[2] = 1 -> \E z1_ \in ZPool : bmol' = <<Atom(z1_, x1)>>
         [] bmol[2] = 2 -> \E x2_ \in x1 + 1..NPos, z1_ \in ZPool, z2_ \in ZPool :
                              bmol' = <<Atom(z1_, x1), Atom(z2_, x2_)>>
         [] bmol[2] = 3 -> \E x2_ \in x1 + 1..NPos, x3_ \in x1 + 2..NPos,
                              z1_ \in ZPool3, z2_ \in ZPool3, z3_ \in ZPool3 :
                              x2_ < x3_ /\ bmol' = <<Atom(z1_, x1), Atom(z2_, x2_), Atom(z3_, x3_)>>
    /\ bpc' = "molecule" /\ UNCHANGED bpar
PickParams == /\ bpc = "molecule"
              /\ \E s_ \in 1..Len(SpacingPool), e_ \in 1..Len(ExtensionPool) :
                    bpar' = <<SpacingPool[s_], ExtensionPool[e_]>>
              /\ bpc' = "case" /\ UNCHANGED bmol
Next == PickFirst \/ PickMolecule \/ PickParams
Spec == Init /\ [][Next]_<<bpc, bmol, bpar>>

Sp == bpar[1]
Ex == bpar[2]
\* the constructor rejects grids with fewer than two points in a direction
Admissible == \A d_ \in 1..3 : BoxShape(bmol, Sp, Ex)[d_] >= 2
AtCase == bpc = "case" /\ Admissible

MidpointBoxEncloses == AtCase => Encloses(bmol, Sp, Ex, BoxOriginMid(bmol, Sp, Ex))
ShippedBoxEnclosesWhenCentred ==
    AtCase /\ ChargeCentred(bmol) => Encloses(bmol, Sp, Ex, BoxOriginShipped(bmol, Sp, Ex))
\* the size rule: the box is at least as long as extent + 2 extension - spacing, at most + spacing more
SizeRule ==
    AtCase => \A d_ \in 1..3 :
        LET len == QMul(QI(BoxShape(bmol, Sp, Ex)[d_] - 1), Sp)
            need == QAdd(QSub(MolMax(bmol)[d_], MolMin(bmol)[d_]), QMul(QI(2), Ex))
        IN QLe(QSub(need, Sp), len) /\ QLt(len, need)
\* the weight of the default scheme (Trapezoid) on the box: V / prod(M_d + 1) with V = spacing^3 * prod(M_d)
\* (the axes are spacing times an orthonormal frame, also for rotate=True)
BoxTrapezoidWeight ==
    QMul(SchemeW("Trapezoid", BoxShape(bmol, Sp, Ex)), QMul(QPow(Sp, 3), QI(NPoints(BoxShape(bmol, Sp, Ex)))))
\* the lower margin of the midpoint box is >= extension, the upper one >= extension - spacing
EmitCase ==
    AtCase => PrintT(<<"BOX", [a_ \in 1..Len(bmol) |-> <<bmol[a_].z, bmol[a_].r>>], Sp, Ex,
                       BoxShape(bmol, Sp, Ex), BoxOriginShipped(bmol, Sp, Ex),
                       BoxMargin(bmol, Sp, Ex, BoxOriginShipped(bmol, Sp, Ex)),
                       Encloses(bmol, Sp, Ex, BoxOriginShipped(bmol, Sp, Ex)), ChargeCentred(bmol),
                       BoxTrapezoidWeight>>)
=============================================================================
