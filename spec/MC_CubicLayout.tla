---------------------------- MODULE MC_CubicLayout ----------------------------
(***************************************************************************)
(* C13, layout clauses: index maps, "last index fastest", point law,       *)
(* tensor tuple/product law - decided for every shape in                   *)
(* {MinM..MaxM}^2 \cup {MinM..MaxM}^3 and every index, together with the   *)
(* model of the NumPy constructions of the code; and judge of the          *)
(* observations recorded from the implementation for the cases this very   *)
(* module emits (Emit = TRUE writes cases_layout.json).                    *)
(* Further cases: grids scaled by 2^-k, unsorted 1D nodes, large shapes    *)
(* with sampled indices (JudgeBig), tensor products of real 1D quadratures *)
(* (tuple law on node positions), grid attributes (JudgeAttrs).            *)
(***************************************************************************)
EXTENDS Cubic, SequencesExt, Json, Obs_layout   \* Obs_layout: LayoutObs (generated; <<>> when emitting)

CONSTANTS MinM, MaxM,      \* extents of the exhaustively checked shapes
          NumpyMaxM,       \* the NumPy model is checked for shapes with extents <= NumpyMaxM
          Seed, NRandom3,  \* pseudo-random 3D axes with entries in -2..2
          AllSmall3,       \* TRUE: also every non-singular 3D axes matrix with entries in -1..1
          VarMod,          \* the argument-representation variants are replayed for the shapes whose
                           \* extents sum to Seed modulo VarMod (1 = every shape)
          Emit

Ext == MinM..MaxM
Shapes2 == {<<a_, b_>> : a_ \in Ext, b_ \in Ext}
Shapes3 == {<<a_, b_, c_>> : a_ \in Ext, b_ \in Ext, c_ \in Ext}
Shapes == Shapes2 \cup Shapes3

(***************************************************************************)
(* Cases for the implementation.                                           *)
(***************************************************************************)
E2 == -2..2
E1 == -1..1
Axes2All == {a_ \in {<<<<p_, q_>>, <<r_, s_>>>> : p_ \in E2, q_ \in E2, r_ \in E2, s_ \in E2} : Det2(a_) # 0}
Vec3(S_) == {<<p_, q_, r_>> : p_ \in S_, q_ \in S_, r_ \in S_}
Axes3Small == {a_ \in {<<u_, v_, w_>> : u_ \in Vec3(E1), v_ \in Vec3(E1), w_ \in Vec3(E1)} : Det3(a_) # 0}
\* a small linear congruential generator (all intermediate values < 2^31)
Lcg(x_) == (x_ * 1103 + 12345) % 65536
RECURSIVE LcgSeq(_, _)
LcgSeq(x_, n_) == IF n_ = 0 THEN <<>> ELSE <<Lcg(x_)>> \o LcgSeq(Lcg(x_), n_ - 1)
Entry(x_) == ((x_ \div 7) % 5) - 2
RandomAxes3(k_) ==   \* k-th pseudo-random matrix (may be singular: filtered below)
    LET s == LcgSeq((Seed * 977 + k_ * 131 + 17) % 65536, 9)
    IN <<<<Entry(s[1]), Entry(s[2]), Entry(s[3])>>, <<Entry(s[4]), Entry(s[5]), Entry(s[6])>>,
         <<Entry(s[7]), Entry(s[8]), Entry(s[9])>>>>
RandomShape3(k_) ==
    LET s == LcgSeq((Seed * 313 + k_ * 71 + 5) % 65536, 3)
    IN <<2 + ((s[1] \div 7) % 3), 2 + ((s[2] \div 7) % 3), 2 + ((s[3] \div 7) % 3)>>
Axes2Pool == SetToSeq(Axes2All)
Axes3Pool == SetToSeq(Axes3Small)
SkewAxesFor(shape_) ==
    IF Len(shape_) = 2 THEN Axes2Pool[((7 * shape_[1] + 13 * shape_[2]) % Len(Axes2Pool)) + 1]
    ELSE Axes3Pool[((7 * shape_[1] + 13 * shape_[2] + 29 * shape_[3]) % Len(Axes3Pool)) + 1]
OriginFor(shape_) == IF Len(shape_) = 2 THEN <<shape_[1] - 3, -shape_[2]>> ELSE <<shape_[1] - 3, -shape_[2], shape_[3] - 1>>
DiagAxesFor(shape_) ==
    IF Len(shape_) = 2 THEN <<<<shape_[2], 0>>, <<0, -1 - (shape_[1] % 2)>>>>
    ELSE <<<<1 + (shape_[3] % 3), 0, 0>>, <<0, -shape_[1], 0>>, <<0, 0, 2>>>>
\* distinct integer 1D nodes (not equally spaced) and integer 1D weights
NodesFor(shape_) == [d_ \in 1..Len(shape_) |-> [x_ \in 1..shape_[d_] |-> x_ * x_ + 3 * d_ - 10]]
W1dFor(shape_) == [d_ \in 1..Len(shape_) |-> [x_ \in 1..shape_[d_] |-> 2 * x_ + d_]]
FTagsFor(shape_) == [d_ \in 1..Len(shape_) |-> [x_ \in 1..shape_[d_] |-> ((x_ * (d_ + 1)) % 5) - 2]]

\* --- further dimensions of the quantifier ------------------------------------------------------
\* non-integer origins / axes: the integer grid divided by a power of two (exact in binary floating
\* point); the observed points are multiplied back by the harness, the judge is the integer one
DenFor(shape_) == 2 ^ (1 + ((shape_[1] + 2 * shape_[2]) % 4))
\* 1D nodes that are NOT sorted (neither ascending nor descending), pairwise distinct for M <= 10:
\* the tuple law and get_points_along_axes hold for the nodes in the order given
PermNodesFor(shape_) ==
    [d_ \in 1..Len(shape_) |-> [x_ \in 1..shape_[d_] |-> (IF d_ = 2 THEN -1 ELSE 1) * ((x_ * 4 + d_) % 11) + d_]]
HasVariants(shape_) == (ISumTo(shape_, Len(shape_)) + Seed) % VarMod = 0
\* large, strongly non-cubic shapes: sampled indices instead of all (index maps and point law)
BigShapes == << <<2, 97, 3>>, <<101, 2, 5>>, <<13, 11, 17>>, <<2, 1009>>, <<503, 2>>, <<64, 64>>, <<2, 200, 170>>, <<3, 2, 211>> >>
BigSample(shape_) ==
    LET nn == NPoints(shape_)
        edge == {0, 1, nn - 1, nn - 2}
        rows == UNION {UNION {{k_ * Stride(shape_, r_) - 1, k_ * Stride(shape_, r_), k_ * Stride(shape_, r_) + 1} :
                                 k_ \in {1, 2, shape_[r_] - 1}} : r_ \in 1..Len(shape_)}
        rnd == {((LcgSeq((Seed * 59 + nn) % 65536, 24)[k_]) * 977 + k_) % nn : k_ \in 1..24}
    IN SetToSeq({x_ \in edge \cup rows \cup rnd : x_ >= 0 /\ x_ < nn})
BigCases == [b_ \in 1..Len(BigShapes) |->
                [shape |-> BigShapes[b_], origin |-> OriginFor(BigShapes[b_]), skew |-> SkewAxesFor(BigShapes[b_]),
                 nodes |-> NodesFor(BigShapes[b_]), sample |-> BigSample(BigShapes[b_])]]
\* tensor products of the library's own 1D quadratures (real nodes and weights): families, sizes, and
\* the monomial powers of a separable integrand.  The harness replaces every observed coordinate by
\* its position in the 1D node array (bit-identical look-up), which makes the tuple law an integer
\* observation judged below; weights and integrals are compared in floating point.
RealTensorCases == <<
    [grids |-> <<"GaussLegendre", "GaussChebyshev">>, sizes |-> <<4, 3>>, powers |-> <<2, 1>>],
    [grids |-> <<"UniformInteger", "GaussLegendre">>, sizes |-> <<3, 5>>, powers |-> <<1, 4>>],
    [grids |-> <<"GaussLegendre", "Trapezoidal", "GaussLaguerre">>, sizes |-> <<3, 4, 2>>, powers |-> <<2, 0, 1>>],
    [grids |-> <<"MidPoint", "Simpson", "GaussChebyshev">>, sizes |-> <<2, 5, 3>>, powers |-> <<1, 3, 2>>],
    [grids |-> <<"GaussChebyshev", "GaussLegendre", "UniformInteger">>, sizes |-> <<5, 2, 4>>, powers |-> <<0, 1, 3>>] >>

LayoutCases ==
    [shapes |-> SetToSeq({[shape |-> s_, origin |-> OriginFor(s_), skew |-> SkewAxesFor(s_), diag |-> DiagAxesFor(s_),
                           nodes |-> NodesFor(s_), w1d |-> W1dFor(s_), ftags |-> FTagsFor(s_),
                           den |-> DenFor(s_), permnodes |-> PermNodesFor(s_), variants |-> HasVariants(s_)] : s_ \in Shapes}),
     big |-> BigCases,
     realtensor |-> RealTensorCases,
     axes2 |-> Axes2Pool,
     axes3 |-> IF AllSmall3 THEN Axes3Pool ELSE <<>>,
     random3 |-> SelectSeq([k_ \in 1..NRandom3 |-> [axes |-> RandomAxes3(k_), shape |-> RandomShape3(k_)]],
                           LAMBDA x_ : Det3(x_.axes) # 0)]
ASSUME Emit => JsonSerialize("cases_layout.json", LayoutCases)

(***************************************************************************)
(* State machine: pick a shape, then an index; or pick an observation.     *)
(***************************************************************************)
VARIABLES lpc, lshape, lidx, lrec
lvars == <<lpc, lshape, lidx, lrec>>

Init == lpc = "idle" /\ lshape = <<>> /\ lidx = -1 /\ lrec = 0
PickShape == /\ lpc = "idle" /\ ~Emit
             /\ \E s_ \in Shapes : lshape' = s_
             /\ lpc' = "shape" /\ UNCHANGED <<lidx, lrec>>
PickIndex == /\ lpc = "shape"
             /\ \E x_ \in 0..NPoints(lshape) - 1 : lidx' = x_
             /\ lpc' = "index" /\ UNCHANGED <<lshape, lrec>>
RecBlock == 64
PickRecBlock == /\ lpc = "idle" /\ ~Emit
                /\ \E b_ \in 0..(Len(LayoutObs) \div RecBlock) : lrec' = b_
                /\ lpc' = "block" /\ UNCHANGED <<lshape, lidx>>
PickRecord == /\ lpc = "block"
              /\ \E x_ \in 1..RecBlock : /\ lrec * RecBlock + x_ <= Len(LayoutObs)
                                       /\ lrec' = lrec * RecBlock + x_
              /\ lpc' = "record" /\ UNCHANGED <<lshape, lidx>>
Next == PickShape \/ PickIndex \/ PickRecBlock \/ PickRecord
Spec == Init /\ [][Next]_lvars

(***************************************************************************)
(* Model invariants (per shape).                                           *)
(***************************************************************************)
AtShape == lpc = "shape"
NN == NPoints(lshape)
StridesAgree == AtShape => StridesCode(lshape) = Strides(lshape)
IndexIsBijection ==
    AtShape => /\ {IndexOf(lshape, c_) : c_ \in Coords(lshape)} = 0..NN - 1
               /\ Cardinality(Coords(lshape)) = NN
LexicographicOrder ==
    AtShape => \A c_ \in Coords(lshape), e_ \in Coords(lshape) :
                  LexLess(c_, e_) <=> IndexOf(lshape, c_) < IndexOf(lshape, e_)
NumpyShape == AtShape /\ \A r_ \in 1..Len(lshape) : lshape[r_] <= NumpyMaxM
\* the NumPy constructions of UniformGrid.__init__ produce the declarative layout (for skewed axes)
NumpyUniformLayout ==
    NumpyShape => \A x_ \in 0..NN - 1 :
        /\ UniformCoordsCode(lshape)[x_] = CoordOf(lshape, x_)
        /\ UniformPointCode(OriginFor(lshape), SkewAxesFor(lshape), lshape, x_)
             = PointOf(OriginFor(lshape), SkewAxesFor(lshape), CoordOf(lshape, x_))
\* ... and those of Tensor1DGrids.__init__ the tuple law and the product law
NumpyTensorLayout ==
    NumpyShape => \A x_ \in 0..NN - 1 :
        /\ TensorPointCode(NodesFor(lshape), lshape, x_) = TensorPoint(NodesFor(lshape), CoordOf(lshape, x_))
        /\ TensorWeightsCode(W1dFor(lshape))[x_ + 1] = TensorWeight(W1dFor(lshape), CoordOf(lshape, x_))
\* separable integrands integrate to the product of the 1D integrals
Integral1D(shape_, d_) ==
    ISumTo([x_ \in 1..shape_[d_] |-> W1dFor(shape_)[d_][x_] * FTagsFor(shape_)[d_][x_]], shape_[d_])
SeparableValue(shape_, c_) == IProdTo([d_ \in 1..Len(shape_) |-> FTagsFor(shape_)[d_][c_[d_] + 1]], Len(shape_))
SeparableIntegral(shape_) == IProdTo([d_ \in 1..Len(shape_) |-> Integral1D(shape_, d_)], Len(shape_))
Separable ==
    AtShape =>
        ISumTo([x_ \in 1..NN |-> TensorWeight(W1dFor(lshape), CoordOf(lshape, x_ - 1))
                                 * SeparableValue(lshape, CoordOf(lshape, x_ - 1))], NN)
        = SeparableIntegral(lshape)
\* distinct coordinates give distinct points when the axes are linearly independent
PointLawInjective ==
    AtShape => \A c_ \in Coords(lshape), e_ \in Coords(lshape) :
        c_ # e_ => PointOf(OriginFor(lshape), SkewAxesFor(lshape), c_) # PointOf(OriginFor(lshape), SkewAxesFor(lshape), e_)

(***************************************************************************)
(* Model invariants (per index).                                           *)
(***************************************************************************)
AtIndex == lpc = "index"
Here == CoordOf(lshape, lidx)
CodeMapsAreTheDefinition ==
    AtIndex => /\ I2CCode(lshape, lidx) = Here
               /\ C2ICode(lshape, Here) = lidx
RoundTrips ==
    AtIndex => /\ C2ICode(lshape, I2CCode(lshape, lidx)) = lidx
               /\ I2CCode(lshape, C2ICode(lshape, Here)) = Here
               /\ Here \in Coords(lshape)
StepAlong(c_, r_) == [c_ EXCEPT ![r_] = c_[r_] + 1]
LastIndexFastest ==
    AtIndex => /\ Here[Len(lshape)] < lshape[Len(lshape)] - 1
                    => IndexOf(lshape, StepAlong(Here, Len(lshape))) = lidx + 1
               /\ \A r_ \in 1..Len(lshape) :
                    Here[r_] < lshape[r_] - 1 => IndexOf(lshape, StepAlong(Here, r_)) = lidx + Stride(lshape, r_)
               /\ \A r_ \in 1..Len(lshape) - 1 : Stride(lshape, r_) > Stride(lshape, r_ + 1)

(***************************************************************************)
(* Judge of the recorded observations.                                     *)
(***************************************************************************)
AtRecord == lpc = "record"
Rec == LayoutObs[lrec]
RShape == Rec.shape
RN == NPoints(RShape)
Say(clause_, at_, want_, got_) == PrintT(<<"MISMATCH", lrec, clause_, at_, want_, got_>>)
Has(field_) == Len(field_) > 0
JudgeI2C ==
    AtRecord /\ Has(Rec.i2c) =>
        /\ Len(Rec.i2c) = RN \/ Say("i2c-length", 0, RN, Len(Rec.i2c))
        /\ \A x_ \in 0..Min2(RN, Len(Rec.i2c)) - 1 :
              Rec.i2c[x_ + 1] = CoordOf(RShape, x_) \/ Say("index_to_coordinates", x_, CoordOf(RShape, x_), Rec.i2c[x_ + 1])
JudgeC2I ==
    AtRecord /\ Has(Rec.c2i) =>
        /\ {p_[1] : p_ \in Range(Rec.c2i)} = Coords(RShape) \/ Say("c2i-coverage", 0, RN, Len(Rec.c2i))
        /\ \A x_ \in 1..Len(Rec.c2i) :
              Rec.c2i[x_][2] = IndexOf(RShape, Rec.c2i[x_][1])
                 \/ Say("coordinates_to_index", Rec.c2i[x_][1], IndexOf(RShape, Rec.c2i[x_][1]), Rec.c2i[x_][2])
ExpectedPoint(x_) ==
    IF Rec.kind = "tensor" THEN TensorPoint(Rec.nodes, CoordOf(RShape, x_))
    ELSE PointOf(Rec.origin, Rec.axes, CoordOf(RShape, x_))
JudgePoints ==
    AtRecord /\ Has(Rec.pts) =>
        /\ Len(Rec.pts) = RN \/ Say("points-length", 0, RN, Len(Rec.pts))
        /\ \A x_ \in 0..Min2(RN, Len(Rec.pts)) - 1 :
              Rec.pts[x_ + 1] = ExpectedPoint(x_) \/ Say("points", x_, ExpectedPoint(x_), Rec.pts[x_ + 1])
JudgeWeights ==
    AtRecord /\ Rec.kind = "tensor" /\ Has(Rec.wts) =>
        /\ Len(Rec.wts) = RN \/ Say("weights-length", 0, RN, Len(Rec.wts))
        /\ \A x_ \in 0..Min2(RN, Len(Rec.wts)) - 1 :
              Rec.wts[x_ + 1] = TensorWeight(Rec.w1d, CoordOf(RShape, x_))
                 \/ Say("weights", x_, TensorWeight(Rec.w1d, CoordOf(RShape, x_)), Rec.wts[x_ + 1])
\* get_points_along_axes: the 1D nodes of every direction (axis-parallel grids only)
ExpectedAlong ==
    IF Rec.kind = "tensor" THEN Rec.nodes
    ELSE [d_ \in 1..Len(RShape) |-> [x_ \in 1..RShape[d_] |-> Rec.origin[d_] + (x_ - 1) * Rec.axes[d_][d_]]]
JudgeAlong ==
    AtRecord /\ Has(Rec.along) => Rec.along = ExpectedAlong \/ Say("get_points_along_axes", 0, ExpectedAlong, Rec.along)
\* integrate(f(x) g(y) h(z)) on the tensor grid = product of the 1D integrals (tags of the case)
JudgeSeparable ==
    AtRecord /\ Rec.kind = "tensor" /\ Has(Rec.integ) =>
        Rec.integ[1] = SeparableIntegral(RShape) \/ Say("separable-integral", 0, SeparableIntegral(RShape), Rec.integ[1])
\* shape / ndim / size attributes of the grid object: <<ndim, size, M1, M2[, M3]>>
JudgeAttrs ==
    AtRecord /\ Has(Rec.attrs) =>
        Rec.attrs = <<Len(RShape), RN>> \o RShape \/ Say("ndim-size-shape", 0, <<Len(RShape), RN>> \o RShape, Rec.attrs)
\* sampled indices of a large shape: Rec.samples[x] = <<index, observed coordinates, coordinates_to_index of
\* those, observed point[index]>>.  The coordinates are THE coordinates of the index iff they lie in the
\* box and map to it (IndexIsBijection); no enumeration of the big coordinate set is needed.
InBox(shape_, c_) == Len(c_) = Len(shape_) /\ \A r_ \in 1..Len(shape_) : c_[r_] \in 0..shape_[r_] - 1
SamplePoint(c_) == IF Rec.kind = "big-tensor" THEN TensorPoint(Rec.nodes, c_) ELSE PointOf(Rec.origin, Rec.axes, c_)
JudgeBig ==
    AtRecord /\ Has(Rec.samples) =>
        \A x_ \in 1..Len(Rec.samples) :
            LET smp == Rec.samples[x_] IN
            /\ (InBox(RShape, smp[2]) /\ IndexOf(RShape, smp[2]) = smp[1])
                  \/ Say("index_to_coordinates", smp[1], I2CCode(RShape, smp[1]), smp[2])
            /\ InBox(RShape, smp[2]) =>
                  /\ smp[3] = IndexOf(RShape, smp[2]) \/ Say("coordinates_to_index", smp[2], IndexOf(RShape, smp[2]), smp[3])
                  /\ smp[4] = SamplePoint(smp[2]) \/ Say("points", smp[1], SamplePoint(smp[2]), smp[4])
\* the big cases are admissible and their samples cover both ends and every stride boundary
BigCasesAdmissible ==
    (lpc = "idle") =>
        \A b_ \in 1..Len(BigShapes) :
            /\ NPoints(BigShapes[b_]) < 70000 /\ Det(SkewAxesFor(BigShapes[b_])) # 0
            /\ {0, NPoints(BigShapes[b_]) - 1} \subseteq Range(BigSample(BigShapes[b_]))
            /\ \A r_ \in 1..Len(BigShapes[b_]) : Stride(BigShapes[b_], r_) \in Range(BigSample(BigShapes[b_]))
            /\ StridesCode(BigShapes[b_]) = Strides(BigShapes[b_])
            /\ \A x_ \in Range(BigSample(BigShapes[b_])) :
                  /\ InBox(BigShapes[b_], I2CCode(BigShapes[b_], x_))
                  /\ C2ICode(BigShapes[b_], I2CCode(BigShapes[b_], x_)) = x_
PermNodesAdmissible ==
    AtShape => \A d_ \in 1..Len(lshape) :
        LET nd == PermNodesFor(lshape)[d_] IN
        /\ Cardinality(Range(nd)) = Len(nd)
        /\ Len(nd) >= 3 => /\ \E x_ \in 1..Len(nd) - 1 : nd[x_] < nd[x_ + 1]
                           /\ \E x_ \in 1..Len(nd) - 1 : nd[x_] > nd[x_ + 1]
\* every exhaustively modelled shape was observed through both grid classes
ObsCoverShapes ==
    (lpc = "idle" /\ ~Emit) =>
        \A s_ \in Shapes : \A kd_ \in {"uniform", "tensor"} :
            (\E x_ \in 1..Len(LayoutObs) : LayoutObs[x_].shape = s_ /\ LayoutObs[x_].kind = kd_ /\ Has(LayoutObs[x_].i2c))
              \/ PrintT(<<"MISMATCH", 0, "shape-not-observed", s_, kd_, 0>>)
=============================================================================
