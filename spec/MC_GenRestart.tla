--------------------------- MODULE MC_GenRestart ---------------------------
\* exhaustive instance of GenRestart: two domains (2 and 3 nodes), up to three live handles
EXTENDS GenRestart
MC_Sizes == <<2, 3>>
MC_Wts == << <<2, 3>>, <<5, 7, 11>> >>
=============================================================================
