\* C04, quick tier: exact transformed grids of the rational rules
SPECIFICATION Spec4
CONSTANT Tier = "quick"
CONSTANT EmitFile = "rtransform_trees.json"
INVARIANT BaseRuleExact
INVARIANT WeightsNonNegative
INVARIANT DomainOrdered
INVARIANT NodesInDomain
INVARIANT DomainIsCodomain
INVARIANT InferredBHitsRmax
INVARIANT SignedWeightsFollowDirection
INVARIANT GridRoundTrip
INVARIANT ExactnessTransport
INVARIANT EmitGrid
