---------------------------- MODULE Transform1DExt ----------------------------
(***************************************************************************)
(* Property C04, second model: Transform1D of RTransform.tla applied to     *)
(*   - ARBITRARY rules (TransformG: any finite sequence of nodes / weights  *)
(*     on any sub-interval of the map's domain): nodes stored descending or *)
(*     unsorted, a node listed twice, negative and zero weights, a single   *)
(*     node, domains that share one end (or none) with the map's domain;    *)
(*   - a CHAIN of two transformations: transforming the transformed grid    *)
(*     is transforming once with the composed map (nodes F2(F1(x)), weights *)
(*     w |D(F2 o F1)(x)| - the chain rule is derived by D on the composed   *)
(*     tree, not written down), domain = ordered image of the ordered image;*)
(*   - the little STATE MACHINE of a b-scaled map built without b: the      *)
(*     object takes b from the first grid it transforms and keeps it, so    *)
(*     the second grid is transformed with the b of the first;              *)
(*   - a FAMILY OF INTEGRANDS g (trees in r, with D(g)): the sum rule       *)
(*     sum_new g(r_j) w'_j = sum_old w_i g(F(x_i)) |D(F)(x_i)|, the right   *)
(*     hand side being the old rule applied to the pulled-back integrand    *)
(*     Pullback(g) = Subst(g, r, F) * |D(F)| (one tree in x).               *)
(* TLC decides the laws exactly on the rational lattices of RTransform.tla  *)
(* and prints every exact grid (HAND / CHAIN / REUSE records); the harness  *)
(* (vf/props/c04.py) rebuilds the rules as hand-made OneDGrid objects from  *)
(* the emitted rationals and judges transform_1d_grid of the library with   *)
(* the emitted trees.  RTransform.tla itself is not modified.               *)
(***************************************************************************)
EXTENDS RTransform

CONSTANT EmitExt     \* "" or the name of the JSON file for the additional trees / rules

(***************************************************************************)
(* Generic Transform1D: nodes and weights are X-values, the domain a pair   *)
(* of X-values.  Same formulas as Transform1D (tied to it by PermutationLaw  *)
(* and SameRuleSameGrid below).                                             *)
(***************************************************************************)
XSeq(s_) == [i_ \in 1..Len(s_) |-> XQ(s_[i_])]
RECURSIVE QMaxFrom(_, _)
QMaxFrom(s_, i_) == IF i_ = Len(s_) THEN s_[i_]
                    ELSE LET m_ == QMaxFrom(s_, i_ + 1) IN IF QLt(m_, s_[i_]) THEN s_[i_] ELSE m_
QMaxSeq(s_) == QMaxFrom(s_, 1)                 \* largest element of a non-empty sequence of rationals
\* ordered pair of two images; dir_ (direction of the map) decides when the 32-bit arithmetic cannot
Ordered(a_, b_, dir_) == LET c_ == XCmp(a_, b_) IN IF c_ = 1 \/ (c_ = 9 /\ dir_ = -1) THEN <<b_, a_>> ELSE <<a_, b_>>

\* e_ is the EFFECTIVE parameter set (b present for the b-scaled maps)
TransformG(j_, e_, xs_, ws_, dom_) ==
    LET lo_ == XMax(dom_[1], EndVal(Decls[j_].use[1], e_))
        hi_ == XMin(dom_[2], EndVal(Decls[j_].use[2], e_))
        jac_ == [i_ \in 1..Len(xs_) |-> AtX(Trees[j_].d1, e_, xs_[i_])]
    IN [nodes |-> [i_ \in 1..Len(xs_) |-> AtX(Trees[j_].F, e_, xs_[i_])],
        jac |-> jac_,
        weights |-> [i_ \in 1..Len(xs_) |-> XMul(ws_[i_], XAbs(jac_[i_]))],
        domain |-> Ordered(AtX(Trees[j_].F, e_, lo_), AtX(Trees[j_].F, e_, hi_), Direction(j_, e_))]

WithBQ(j_, env_, b_) == IF Decls[j_].binfer /\ "b" \notin DOMAIN env_ THEN env_ @@ ("b" :> b_) ELSE env_

\* precondition of Transform1D for arbitrary rational nodes xs_ on the domain <<lo_, hi_>> (X-values).
\* Hyperbolic: the library restricts the class to arrays with b (N - 1) < 1 and hands the map the
\* two-element domain as well, hence b < 1; the upper end of its domain of use is a pole.
CompatibleG(j_, e_, xs_, dom_) ==
    /\ XLe(EndVal(Decls[j_].dom[1], e_), dom_[1])
    /\ XLe(dom_[2], EndVal(Decls[j_].dom[2], e_))
    /\ \A i_ \in 1..Len(xs_) : /\ XLe(EndVal(Decls[j_].use[1], e_), XQ(xs_[i_]))
                               /\ XLe(XQ(xs_[i_]), EndVal(Decls[j_].use[2], e_))
    /\ (InstSeq[j_].cls = "Hyperbolic" =>
            /\ XLt(XQ(QMaxSeq(xs_)), EndVal(Decls[j_].use[2], e_))
            /\ QLt(e_["b"], QOne) /\ QLt(QMul(e_["b"], QI(Len(xs_) - 1)), QOne))
    /\ (Decls[j_].binfer => QSgn(e_["b"]) > 0)

(***************************************************************************)
(* Hand-made rules.  "base" / "perm": the rule is the permutation perm of   *)
(* a rule defined in RTransform.tla; "degree": the rule integrates x^k over *)
(* [-1, 1] exactly for k <= degree (-1: no claim).                          *)
(***************************************************************************)
Perm(s_, p_) == [i_ \in 1..Len(p_) |-> s_[p_[i_]]]
RevP(n_) == [i_ \in 1..n_ |-> n_ + 1 - i_]
Permuted(name_, ru_, p_) ==
    [name |-> name_, nodes |-> Perm(RuleNodes(ru_), p_), weights |-> Perm(RuleWeights(ru_), p_),
     dom |-> RuleDomain(ru_), base |-> <<ru_>>, perm |-> p_, degree |-> RuleDegree(ru_)]
Made(name_, xs_, ws_, dom_, deg_) ==
    [name |-> name_, nodes |-> xs_, weights |-> ws_, dom |-> dom_, base |-> <<>>, perm |-> <<>>, degree |-> deg_]
Const4(q_) == <<q_, q_, q_, q_>>

HandSeq ==
    <<Permuted("Simpson5[descending]", Rule("Simpson", 5), RevP(5)),
      Permuted("MidPoint6[unsorted]", Rule("MidPoint", 6), <<4, 1, 6, 2, 5, 3>>),
      Permuted("Trapezoidal4[descending]", Rule("Trapezoidal", 4), RevP(4)),
      \* the middle node of the 3-point trapezoid rule listed twice, with half the weight each
      Made("Trapezoidal3[node twice]", <<Q(-1, 1), Q(0, 1), Q(0, 1), Q(1, 1)>>, Const4(Q(1, 2)), <<MinusOne, One>>, 1),
      \* Milne's open 3-point rule, h = 1/2: (4h/3) (2 f1 - f2 + 2 f3), degree 3
      Made("MilneOpen3[negative weight]", <<Q(-1, 2), Q(0, 1), Q(1, 2)>>, <<Q(4, 3), Q(-2, 3), Q(4, 3)>>, <<MinusOne, One>>, 3),
      Made("MidPoint1[single node]", <<Q(0, 1)>>, <<Q(2, 1)>>, <<MinusOne, One>>, 1),
      \* 3-point trapezoid rule plus an interior node of weight zero
      Made("Trapezoidal3[zero weight]", <<Q(-1, 1), Q(-1, 3), Q(0, 1), Q(1, 1)>>, <<Q(1, 2), Q(0, 1), Q(1, 1), Q(1, 2)>>,
           <<MinusOne, One>>, 1),
      \* midpoint rules on sub-intervals that share exactly one end with [-1, 1]
      Made("MidPoint4 on [-1,1/2]", <<Q(-13, 16), Q(-7, 16), Q(-1, 16), Q(5, 16)>>, Const4(Q(3, 8)), <<MinusOne, C(1, 2)>>, -1),
      Made("MidPoint4 on [-1/2,1]", <<Q(-5, 16), Q(1, 16), Q(7, 16), Q(13, 16)>>, Const4(Q(3, 8)), <<C(-1, 2), One>>, -1),
      \* closed rule on [0, 1]: inside [-1, 1] AND inside [0, inf); a node on the end x = 1
      Made("Trapezoidal3 on [0,1]", <<Q(0, 1), Q(1, 2), Q(1, 1)>>, <<Q(1, 4), Q(1, 2), Q(1, 4)>>, <<Zero, One>>, -1),
      Permuted("UniformInteger4[descending]", Rule("UniformInteger", 4), RevP(4)),
      Made("HalfLine5[unsorted]", <<Q(2, 1), Q(1, 2), Q(5, 1), Q(0, 1), Q(1, 1)>>,
           <<Q(1, 1), Q(1, 2), Q(2, 1), Q(1, 4), Q(3, 4)>>, <<Zero, PInfE>>, -1),
      Made("HalfLine3 on [0,2]", <<Q(1, 2), Q(1, 1), Q(3, 2)>>, <<Q(1, 2), Q(1, 1), Q(1, 2)>>, <<Zero, Two>>, -1),
      Made("HalfLine3 on [1/4,inf)", <<Q(1, 2), Q(2, 1), Q(3, 1)>>, <<Q(1, 1), Q(2, 1), Q(1, 1)>>, <<C(1, 4), PInfE>>, -1),
      Made("HalfLine4[negative weight]", <<Q(0, 1), Q(1, 1), Q(2, 1), Q(3, 1)>>, <<Q(1, 1), Q(-1, 2), Q(1, 1), Q(3, 2)>>,
           <<Zero, PInfE>>, -1),
      Made("HalfLine1[single node]", <<Q(1, 2)>>, <<Q(1, 1)>>, <<Zero, PInfE>>, -1)>>
NHand == Len(HandSeq)

(***************************************************************************)
(* Parameter sets of this model: the first, the last (thorough: also the    *)
(* middle) set of ParamLattice4 - the first model runs the whole lattice on *)
(* the rules of RTransform.tla - plus INTEGRAL parameter sets (the harness  *)
(* hands them to the library as Python ints as well as floats).             *)
(***************************************************************************)
IntParams(c_) ==
    CASE c_.cls \in {"Becke", "MultiExp", "Knowles", "Handy"} -> <<[rmin |-> Q(0, 1), R |-> Q(1, 1)], [rmin |-> Q(1, 1), R |-> Q(2, 1)]>>
      [] c_.cls = "LinearFinite" -> <<[rmin |-> Q(0, 1), rmax |-> Q(3, 1)], [rmin |-> Q(1, 1), rmax |-> Q(2, 1)]>>
      [] c_.cls = "HandyMod" -> <<[rmin |-> Q(0, 1), rmax |-> Q(10, 1)], [rmin |-> Q(1, 1), rmax |-> Q(70, 1)]>>
      [] c_.cls = "Identity" -> <<>>
      [] c_.cls = "LinearInfinite" -> <<[rmin |-> Q(0, 1), rmax |-> Q(3, 1), b |-> Q(2, 1)], [rmin |-> Q(1, 1), rmax |-> Q(4, 1)]>>
      [] c_.cls = "Exp" -> <<[rmin |-> Q(1, 1), rmax |-> Q(4, 1), b |-> Q(2, 1)], [rmin |-> Q(1, 1), rmax |-> Q(16, 1)]>>
      [] c_.cls = "Power" -> <<[rmin |-> Q(1, 1), rmax |-> Q(4, 1), b |-> Q(3, 1)], [rmin |-> Q(1, 1), rmax |-> Q(8, 1)]>>
      [] c_.cls = "Hyperbolic" -> <<[a |-> Q(1, 1), b |-> Q(1, 4)], [a |-> Q(3, 1), b |-> Q(1, 20)]>>
Pick3(s_) == IF Len(s_) <= 2 THEN s_ ELSE IF Thorough /\ Len(s_) > 3 THEN <<s_[1], s_[(Len(s_) + 1) \div 2], s_[Len(s_)]>>
             ELSE <<s_[1], s_[Len(s_)]>>
RECURSIVE Dedup(_)
Dedup(s_) == IF s_ = <<>> THEN <<>>
             ELSE LET t_ == Dedup(Tail(s_)) IN IF \E i_ \in 1..Len(t_) : t_[i_] = Head(s_) THEN t_ ELSE <<Head(s_)>> \o t_
AdmissibleB(j_, e_) == AdmissibleQ(j_, IF Decls[j_].binfer /\ "b" \notin DOMAIN e_ THEN e_ @@ ("b" :> QOne) ELSE e_)
PL5 == Force([j_ \in 1..NInst |->
          IF ~Evaluable(j_) THEN <<>>
          ELSE LET T_(e_) == AdmissibleB(j_, e_) IN Dedup(SelectSeq(IntParams(InstSeq[j_]), T_) \o Pick3(ParamLattice4[j_]))])
PickBlock5 ==
    /\ phase = "idle"
    /\ \E j_ \in 1..NInst : \E p_ \in 1..Len(PL5[j_]) : cinst' = j_ /\ cpar' = p_
    /\ phase' = "block" /\ UNCHANGED <<cpt, crule, cval, cgrid>>

HandDom(hr_) == <<EndVal(hr_.dom[1], EmptyEnv), EndVal(hr_.dom[2], EmptyEnv)>>
HandEnv(j_, env_, hr_) == WithBQ(j_, env_, QMaxSeq(hr_.nodes))
\* a zero weight at a node with an infinite Jacobian would be the indeterminate 0 * inf
NoZeroTimesInf(j_, e_, hr_) ==
    \A i_ \in 1..Len(hr_.nodes) : hr_.weights[i_] # QZero \/ ~IsInf(AtX(Trees[j_].d1, e_, XQ(hr_.nodes[i_])))
HandCompatible(j_, env_, hr_) ==
    LET e_ == HandEnv(j_, env_, hr_) IN
    /\ (Decls[j_].binfer /\ "b" \notin DOMAIN env_ => QSgn(QMaxSeq(hr_.nodes)) > 0)
    /\ CompatibleG(j_, e_, hr_.nodes, HandDom(hr_))
    /\ NoZeroTimesInf(j_, e_, hr_)
HandGrid(j_, env_, hr_) == TransformG(j_, HandEnv(j_, env_, hr_), XSeq(hr_.nodes), XSeq(hr_.weights), HandDom(hr_))

(***************************************************************************)
(* Chain: LinearFinite(lo, hi) first (the inner map, parameters renamed),   *)
(* then instance j.  ChainTrees[j] is the composed map as ONE tree in x.    *)
(***************************************************************************)
InnerF == Subst(Subst(Forward("LinearFinite", 0), "rmin", V("lo")), "rmax", V("hi"))
InnerD == D(InnerF, "x")
ChainOf(j_) == LET f_ == Subst(Trees[j_].F, "x", InnerF) IN [F |-> f_, d1 |-> D(f_, "x")]
ChainTrees == Force([j_ \in 1..NInst |-> ChainOf(j_)])

IsUnit(j_) == InstSeq[j_].cls \in {"Becke", "LinearFinite", "MultiExp", "Knowles", "Handy", "HandyMod"}
InnerUnit == IF Thorough THEN <<<<Q(-1, 2), Q(1, 2)>>, <<Q(-1, 1), Q(0, 1)>>, <<Q(0, 1), Q(1, 1)>>, <<Q(-3, 4), Q(1, 4)>>,
                                <<Q(-1, 1), Q(1, 1)>>, <<Q(1, 4), Q(1, 2)>>>>
             ELSE <<<<Q(-1, 2), Q(1, 2)>>, <<Q(-1, 1), Q(0, 1)>>, <<Q(0, 1), Q(1, 1)>>>>
InnerHalf == IF Thorough THEN <<<<Q(0, 1), Q(2, 1)>>, <<Q(1, 4), Q(3, 1)>>, <<Q(1, 1), Q(5, 1)>>, <<Q(0, 1), Q(1, 2)>>>>
             ELSE <<<<Q(0, 1), Q(2, 1)>>, <<Q(1, 4), Q(3, 1)>>>>
InnerOf(j_) == IF IsUnit(j_) THEN InnerUnit ELSE InnerHalf
ChainRules == IF Thorough THEN <<Rule("Trapezoidal", 5), Rule("MidPoint", 4), Rule("Simpson", 7), Rule("MidPoint", 9)>>
              ELSE <<Rule("Trapezoidal", 3), Rule("MidPoint", 4)>>
InnerEnv(c_) == [lo |-> c_[1], hi |-> c_[2]]

\* the intermediate grid (inner map applied to the rule): rational nodes, weights, domain
MidNodes(c_, ru_) == [i_ \in 1..ru_.n |-> AtX(InnerF, InnerEnv(c_), XQ(RuleNodes(ru_)[i_])).a]
MidWeights(c_, ru_) == [i_ \in 1..ru_.n |->
                            XMul(XQ(RuleWeights(ru_)[i_]), XAbs(AtX(InnerD, InnerEnv(c_), XQ(RuleNodes(ru_)[i_]))))]
MidDom(c_) == Ordered(AtX(InnerF, InnerEnv(c_), XI(-1)), AtX(InnerF, InnerEnv(c_), XI(1)), 1)
ChainEnv(j_, env_, c_, ru_) == WithBQ(j_, env_, QMaxSeq(MidNodes(c_, ru_)))
ChainCompatible(j_, env_, c_, ru_) ==
    /\ \A i_ \in 1..ru_.n : IsRat(AtX(InnerF, InnerEnv(c_), XQ(RuleNodes(ru_)[i_])))
    /\ (Decls[j_].binfer /\ "b" \notin DOMAIN env_ => QSgn(QMaxSeq(MidNodes(c_, ru_))) > 0)
    /\ CompatibleG(j_, ChainEnv(j_, env_, c_, ru_), MidNodes(c_, ru_), MidDom(c_))
\* two steps: Transform1D of the intermediate grid
ChainTwo(j_, env_, c_, ru_) ==
    TransformG(j_, ChainEnv(j_, env_, c_, ru_), XSeq(MidNodes(c_, ru_)), MidWeights(c_, ru_), MidDom(c_))
\* one step: the composed tree at the rule's own nodes
ChainOne(j_, env_, c_, ru_) ==
    LET ce_ == ChainEnv(j_, env_, c_, ru_) @@ InnerEnv(c_)
        t_ == ChainTrees[j_]
    IN [nodes |-> [i_ \in 1..ru_.n |-> AtX(t_.F, ce_, XQ(RuleNodes(ru_)[i_]))],
        weights |-> [i_ \in 1..ru_.n |-> XMul(XQ(RuleWeights(ru_)[i_]), XAbs(AtX(t_.d1, ce_, XQ(RuleNodes(ru_)[i_]))))],
        domain |-> Ordered(AtX(t_.F, ce_, XI(-1)), AtX(t_.F, ce_, XI(1)), Direction(j_, ChainEnv(j_, env_, c_, ru_)))]

(***************************************************************************)
(* Integrands and the pulled-back integrand g(r(x)) |r'(x)|.                *)
(***************************************************************************)
Integrand(name_, g_, pos_, rat_) == [name |-> name_, g |-> g_, dg |-> D(g_, "r"), positive |-> pos_, rational |-> rat_]
IntegrandSeq ==
    <<Integrand("r", rE, FALSE, TRUE),
      Integrand("r^2-3r+1", Add(Sub(Pow(rE, 2), Mul(CI(3), rE)), One), FALSE, TRUE),
      Integrand("1/(1+r^2)", Div(One, Add(One, Sq(rE))), TRUE, TRUE),
      Integrand("(r-1)/(1+r^2)^2", Div(Sub(rE, One), Sq(Add(One, Sq(rE)))), FALSE, TRUE),
      Integrand("exp(-r)", Exp(Neg(rE)), TRUE, FALSE),
      Integrand("exp(-r/2)cos(3r)", Mul(Exp(Neg(Div(rE, Two))), Cos(Mul(CI(3), rE))), FALSE, FALSE),
      Integrand("exp(-(r-1)^2)", Exp(Neg(Sq(Sub(rE, One)))), TRUE, FALSE)>>
RationalIntegrands == {k_ \in 1..Len(IntegrandSeq) : IntegrandSeq[k_].rational}
Pullback(j_, g_) == Mul(Subst(g_, "r", Trees[j_].F), AbsE(Trees[j_].d1))
PullbackTrees == Force([j_ \in 1..NInst |-> [k_ \in 1..Len(IntegrandSeq) |-> Pullback(j_, IntegrandSeq[k_].g)]])

(***************************************************************************)
(* The model.  Variables of RTransform.tla are reused:                      *)
(*   phase  idle -> block -> hand | chain | use1 -> use2                    *)
(*   crule  index of the hand rule / chain rule / first rule                *)
(*   cpt    index of the inner interval (chain) / of the second rule        *)
(*   cgrid  the transformed grid of the state; cval: auxiliary values       *)
(***************************************************************************)
ReuseNs == IF Thorough THEN <<2, 3, 6, 10>> ELSE <<3, 6>>
ReuseRules == [i_ \in 1..Len(ReuseNs) |-> Rule("UniformInteger", ReuseNs[i_])]
BFree(j_, p_) == Decls[j_].binfer /\ "b" \notin DOMAIN PL5[j_][p_]

PickHand ==
    /\ phase = "block"
    /\ \E h_ \in 1..NHand :
          \* "= TRUE": evaluated as ONE boolean value (TLC would otherwise branch on every disjunction
          \* inside the predicate and generate the same successor many times)
          /\ HandCompatible(cinst, PL5[cinst][cpar], HandSeq[h_]) = TRUE
          /\ crule' = h_
          /\ cgrid' = HandGrid(cinst, PL5[cinst][cpar], HandSeq[h_])
    /\ phase' = "hand" /\ UNCHANGED <<cinst, cpar, cpt, cval>>
PickChain ==
    /\ phase = "block"
    /\ \E q_ \in 1..Len(ChainRules) : \E c_ \in 1..Len(InnerOf(cinst)) :
          /\ ChainCompatible(cinst, PL5[cinst][cpar], InnerOf(cinst)[c_], ChainRules[q_]) = TRUE
          /\ crule' = q_ /\ cpt' = c_
          /\ cgrid' = ChainTwo(cinst, PL5[cinst][cpar], InnerOf(cinst)[c_], ChainRules[q_])
          /\ cval' = ChainOne(cinst, PL5[cinst][cpar], InnerOf(cinst)[c_], ChainRules[q_])
    /\ phase' = "chain" /\ UNCHANGED <<cinst, cpar>>
\* a b-scaled map built without b transforms its first grid: b := largest node, kept from now on
PickFirst ==
    /\ phase = "block" /\ BFree(cinst, cpar)
    /\ \E q_ \in 1..Len(ReuseRules) :
          /\ crule' = q_
          /\ cval' = [b |-> MaxNode(ReuseRules[q_])]
          /\ cgrid' = Transform1D(cinst, PL5[cinst][cpar], ReuseRules[q_])
    /\ phase' = "use1" /\ UNCHANGED <<cinst, cpar, cpt>>
PickSecond ==
    /\ phase = "use1"
    /\ \E q_ \in 1..Len(ReuseRules) :
          /\ cpt' = q_
          /\ cgrid' = TransformG(cinst, WithBQ(cinst, PL5[cinst][cpar], cval.b),
                                 XSeq(RuleNodes(ReuseRules[q_])), XSeq(RuleWeights(ReuseRules[q_])),
                                 <<XI(0), XPInf>>)
    /\ phase' = "use2" /\ UNCHANGED <<cinst, cpar, crule, cval>>
Next5 == PickBlock5 \/ PickHand \/ PickChain \/ PickFirst \/ PickSecond
Spec5 == Init /\ [][Next5]_vars

Handing == phase = "hand"
CHand == HandSeq[crule]
HIdx == 1..Len(CHand.nodes)
CEnvH == HandEnv(cinst, PL5[cinst][cpar], CHand)
Chaining == phase = "chain"
CChainRule == ChainRules[crule]
CIdx == 1..CChainRule.n
GIdx == 1..Len(cgrid.nodes)
AnyGrid == phase \in {"hand", "chain", "use1", "use2"}

\* ---- laws for every grid of this model -------------------------------------
DomainOrderedG == AnyGrid => XCmp(cgrid.domain[1], cgrid.domain[2]) \in {-1, 9}
NodesInDomainG == AnyGrid => \A i_ \in GIdx :
    /\ XCmp(cgrid.domain[1], cgrid.nodes[i_]) \in {-1, 0, 9}
    /\ XCmp(cgrid.nodes[i_], cgrid.domain[2]) \in {-1, 0, 9}
\* the sign of a weight is kept (the Jacobian enters by its magnitude): positive stays non-negative,
\* negative stays non-positive, zero stays zero
WeightSignKept == Handing => \A i_ \in HIdx :
    \/ IsOvf(cgrid.weights[i_]) \/ XSgn(cgrid.weights[i_]) = 0
    \/ XSgn(cgrid.weights[i_]) = QSgn(CHand.weights[i_])
ZeroWeightKept == Handing => \A i_ \in HIdx :
    CHand.weights[i_] = QZero => IsOvf(cgrid.weights[i_]) \/ cgrid.weights[i_] = XI(0)

\* ---- hand rules ---------------------------------------------------------------
\* TransformG is Transform1D: a permuted rule gives the permuted grid of the base rule
PermutationLaw == Handing /\ CHand.base # <<>> =>
    LET g_ == Transform1D(cinst, PL5[cinst][cpar], CHand.base[1]) IN
    /\ \A i_ \in HIdx : /\ cgrid.nodes[i_] = g_.nodes[CHand.perm[i_]]
                        /\ cgrid.weights[i_] = g_.weights[CHand.perm[i_]]
    /\ cgrid.domain = g_.domain
\* the rules that claim a degree have it on [-1, 1] ...
HandBaseExact == Handing /\ CHand.degree >= 0 =>
    \A k_ \in 0..CHand.degree :
        LET s_ == QSumF([i_ \in HIdx |-> QMulS(CHand.weights[i_], QPowS(CHand.nodes[i_], k_))], Len(CHand.nodes))
        IN QBad(s_) \/ s_ = (IF k_ % 2 = 0 THEN Q(2, k_ + 1) ELSE QZero)
\* ... and the linear map transports it to [rmin, rmax] (also with a negative or a zero weight)
HandExactnessTransport == Handing /\ CHand.degree >= 0 /\ InstSeq[cinst].cls = "LinearFinite" =>
    \A k_ \in 0..CHand.degree :
        XEqU(XSumF([i_ \in HIdx |-> XMul(cgrid.weights[i_], XPowI(cgrid.nodes[i_], k_))], Len(CHand.nodes)),
             EndVal(MomentTree(k_), CEnvH))
\* sub-interval rules: the new domain is the image of the RULE's domain, strictly inside the codomain
\* at every end the rule does not share with the map (maps without inferred b)
SubDomainInside == Handing /\ ~Decls[cinst].binfer /\ InstSeq[cinst].cls # "Hyperbolic" =>
    LET lo_ == EndVal(Decls[cinst].cod[1], CEnvH)  hi_ == EndVal(Decls[cinst].cod[2], CEnvH)
        full_ == HandDom(CHand) = <<EndVal(Decls[cinst].dom[1], CEnvH), EndVal(Decls[cinst].dom[2], CEnvH)>>
    IN IF full_ THEN cgrid.domain = <<lo_, hi_>>
       ELSE /\ XCmp(lo_, cgrid.domain[1]) \in {-1, 0, 9} /\ XCmp(cgrid.domain[2], hi_) \in {-1, 0, 9}
            /\ cgrid.domain # <<lo_, hi_>>

\* ---- chain ------------------------------------------------------------------------
\* transforming twice = transforming once with the composed map (chain rule included)
ChainLaw == Chaining =>
    /\ \A i_ \in CIdx : /\ XEqU(cgrid.nodes[i_], cval.nodes[i_])
                        /\ XEqU(cgrid.weights[i_], cval.weights[i_])
    /\ cgrid.domain = cval.domain
\* an inner map onto the whole reference interval changes nothing
ChainIdentityInner == Chaining /\ InnerOf(cinst)[cpt] = <<Q(-1, 1), Q(1, 1)>> =>
    LET g_ == Transform1D(cinst, PL5[cinst][cpar], CChainRule) IN
    \A i_ \in CIdx : XEqU(cgrid.nodes[i_], g_.nodes[i_]) /\ XEqU(cgrid.weights[i_], g_.weights[i_])

\* ---- reuse ------------------------------------------------------------------------
\* the first grid sends its last node to rmax; the second grid is mapped with the SAME b:
\* its node x = b (if it has one) goes to rmax, larger nodes go beyond rmax
Reusing == phase = "use2"
RRule1 == ReuseRules[crule]
RRule2 == ReuseRules[cpt]
REnv == WithBQ(cinst, PL5[cinst][cpar], cval.b)
FirstHitsRmax == phase = "use1" => XEqU(cgrid.nodes[RRule1.n], XQ(PL5[cinst][cpar]["rmax"]))
SecondUsesFirstB == Reusing => \A i_ \in 1..RRule2.n :
    LET c_ == XCmp(cgrid.nodes[i_], XQ(REnv["rmax"]))
        x_ == RuleNodes(RRule2)[i_]
    IN c_ = 9 \/ c_ = (IF QLt(x_, cval.b) THEN -1 ELSE IF x_ = cval.b THEN 0 ELSE 1)
SameRuleSameGrid == Reusing /\ crule = cpt =>
    cgrid = Transform1D(cinst, PL5[cinst][cpar], RRule1)

\* ---- sum rule with the pulled-back integrand (all-rational finite grids) -------------
AllRational(g_) == \A i_ \in 1..Len(g_.nodes) : IsRat(g_.nodes[i_]) /\ IsRat(g_.weights[i_])
WithR(v_) == [n_ \in {"r"} |-> v_]
SumRuleExact == Handing /\ AllRational(cgrid) /\ Len(CHand.nodes) <= 6 =>
    \A k_ \in RationalIntegrands :
        LET new_ == XSumF([i_ \in HIdx |-> XMul(cgrid.weights[i_], EvalX(IntegrandSeq[k_].g, WithR(cgrid.nodes[i_])))],
                          Len(CHand.nodes))
            \* the Jacobian enters by its magnitude: |w| |D(F)| carries the sign of w
            old_ == XSumF([i_ \in HIdx |-> XMul(XQ(CHand.weights[i_]),
                                                AtX(PullbackTrees[cinst][k_], CEnvH, XQ(CHand.nodes[i_])))],
                          Len(CHand.nodes))
        IN XEqU(new_, old_)
\* a positive integrand is positive at every finite rational node
PositiveIntegrands == Handing /\ AllRational(cgrid) =>
    \A k_ \in RationalIntegrands : IntegrandSeq[k_].positive =>
        \A i_ \in HIdx : LET v_ == EvalX(IntegrandSeq[k_].g, WithR(cgrid.nodes[i_])) IN IsOvf(v_) \/ XSgn(v_) > 0

\* ---- emission (always TRUE) ------------------------------------------------------------
EncSeq(s_) == [i_ \in 1..Len(s_) |-> Enc(s_[i_])]
EmitHand == Handing =>
    PrintT(<<"HAND", cinst, cpar, crule, EncSeq(cgrid.nodes), EncSeq(cgrid.weights),
             <<Enc(cgrid.domain[1]), Enc(cgrid.domain[2])>>, Direction(cinst, CEnvH)>>)
EmitChain == Chaining =>
    PrintT(<<"CHAIN", cinst, cpar, crule, cpt, EncSeq(cgrid.nodes), EncSeq(cgrid.weights),
             <<Enc(cgrid.domain[1]), Enc(cgrid.domain[2])>>,
             Direction(cinst, ChainEnv(cinst, PL5[cinst][cpar], InnerOf(cinst)[cpt], CChainRule))>>)
EmitReuse == Reusing =>
    PrintT(<<"REUSE", cinst, cpar, crule, cpt, cval.b, EncSeq(cgrid.nodes), EncSeq(cgrid.weights),
             <<Enc(cgrid.domain[1]), Enc(cgrid.domain[2])>>, Direction(cinst, REnv)>>)

\* non-vacuity witnesses (as INVARIANT each must be reported violated; the harness establishes
\* the same facts from the HAND / CHAIN / REUSE records)
NoNegativeHandWeight == ~(Handing /\ \E i_ \in HIdx : ~IsOvf(cgrid.weights[i_]) /\ XSgn(cgrid.weights[i_]) < 0)
NoSecondBeyondRmax == ~(Reusing /\ RRule2.n > RRule1.n)

EmissionExt ==
    [hand |-> [h_ \in 1..NHand |->
        [name |-> HandSeq[h_].name, nodes |-> HandSeq[h_].nodes, weights |-> HandSeq[h_].weights,
         domain |-> HandSeq[h_].dom, degree |-> HandSeq[h_].degree, permuted |-> HandSeq[h_].base # <<>>]],
     integrands |-> IntegrandSeq,
     chain |-> [j_ \in 1..NInst |-> [F |-> ChainTrees[j_].F, d1 |-> ChainTrees[j_].d1,
                                      wtree |-> Mul(V("w"), AbsE(ChainTrees[j_].d1)),
                                      inner |-> InnerOf(j_)]],
     inner_tree |-> InnerF,
     chain_rules |-> ChainRules,
     reuse_rules |-> ReuseRules,
     params5 |-> PL5,
     pullback |-> [j_ \in 1..NInst |-> IF Decls[j_].ename = "" THEN PullbackTrees[j_] ELSE <<>>]]

ASSUME EmitExt = "" \/ JsonSerialize(EmitExt, EmissionExt)
=============================================================================
