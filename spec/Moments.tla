------------------------------- MODULE Moments -------------------------------
(***************************************************************************)
(* Multipole moments (property C14): definitions only, no state.           *)
(*                                                                         *)
(*  1. Horton orders: declaratively (a set and a strict order on it) and   *)
(*     as the loop nests of the code; stacking over orders 0..L; the row   *)
(*     index arithmetic (l,m) -> row and (n,l,m) -> row                    *)
(*  2. the basis functions about a centre: Cartesian monomials (exact      *)
(*     rationals), |r|^n, the real regular solid harmonics R_l^m (Racah    *)
(*     normalisation, no Condon-Shortley phase, m > 0 cosine / m < 0 sine  *)
(*     type) from an explicit formula, and |r|^n R_l^m - as expression     *)
(*     trees in the variables x, y, z (= components of r - R_c)            *)
(*  3. moment = sum_i w_i f_i B(p_i - R_c); the dipole of a molecule       *)
(* State machines and judges: MC_Moments.tla.                              *)
(***************************************************************************)
EXTENDS Expr, FiniteSets, TLC

Range(f_) == {f_[x_] : x_ \in DOMAIN f_}
RECURSIVE ISumTo(_, _)
ISumTo(f_, n_) == IF n_ = 0 THEN 0 ELSE f_[n_] + ISumTo(f_, n_ - 1)
RECURSIVE QSumTo(_, _)
QSumTo(f_, n_) == IF n_ = 0 THEN QZero ELSE QAdd(f_[n_], QSumTo(f_, n_ - 1))
RECURSIVE QProdTo(_, _)
QProdTo(f_, n_) == IF n_ = 0 THEN QOne ELSE QMul(f_[n_], QProdTo(f_, n_ - 1))
RECURSIVE Concat(_, _)        \* f[1] \o f[2] \o ... \o f[n]
Concat(f_, n_) == IF n_ = 0 THEN <<>> ELSE Concat(f_, n_ - 1) \o f_[n_]
RECURSIVE AddTo(_, _)         \* tree f[1] + ... + f[n]
AddTo(f_, n_) == IF n_ = 0 THEN CI(0) ELSE Add(AddTo(f_, n_ - 1), f_[n_])

(***************************************************************************)
(* 1. Horton orders.                                                       *)
(***************************************************************************)
Types == {"cartesian", "radial", "pure", "pure-radial"}
\* --- declarative: the set of rows of one order and the strict order in which they are listed
CartSet(n_, dim_) == {t_ \in [1..dim_ -> 0..n_] : ISumTo(t_, dim_) = n_}
LexGreater(a_, b_) == \E r_ \in 1..Len(a_) : a_[r_] > b_[r_] /\ \A q_ \in 1..r_ - 1 : a_[q_] = b_[q_]
\* m = 0, 1, -1, 2, -2, ... : by increasing |m|, the positive one first
HortonBeforeM(m1_, m2_) == Abs(m1_) < Abs(m2_) \/ (Abs(m1_) = Abs(m2_) /\ m1_ > m2_)
PureSet(l_) == {<<l_, m_>> : m_ \in -l_..l_}
PureBefore(a_, b_) == HortonBeforeM(a_[2], b_[2])
PureRadialSet(n_) == {t_ \in {<<n_, l_, m_>> : l_ \in 0..n_ - 1, m_ \in -n_..n_} : Abs(t_[3]) <= t_[2]}
PureRadialBefore(a_, b_) == a_[2] < b_[2] \/ (a_[2] = b_[2] /\ HortonBeforeM(a_[3], b_[3]))
RowSet(type_, n_, dim_) ==
    CASE type_ = "cartesian" -> CartSet(n_, dim_)
      [] type_ = "radial" -> {<<n_>>}
      [] type_ = "pure" -> PureSet(n_)
      [] type_ = "pure-radial" -> PureRadialSet(n_)
RowBefore(type_, a_, b_) ==
    CASE type_ = "cartesian" -> LexGreater(a_, b_)
      [] type_ = "radial" -> FALSE
      [] type_ = "pure" -> PureBefore(a_, b_)
      [] type_ = "pure-radial" -> PureRadialBefore(a_, b_)
\* seq_ lists exactly the rows of the set, each once, in the prescribed order
IsHortonListing(seq_, type_, n_, dim_) ==
    /\ Len(seq_) = Cardinality(RowSet(type_, n_, dim_))
    /\ Range(seq_) = RowSet(type_, n_, dim_)
    /\ \A x_ \in 1..Len(seq_) : \A y_ \in x_ + 1..Len(seq_) : RowBefore(type_, seq_[x_], seq_[y_])

\* --- the loop nests of generate_orders_horton_order
RECURSIVE Cart3Inner(_, _, _)
Cart3Inner(n_, mx_, my_) ==
    IF my_ < 0 THEN <<>> ELSE << <<mx_, my_, n_ - mx_ - my_>> >> \o Cart3Inner(n_, mx_, my_ - 1)
RECURSIVE Cart3Outer(_, _)
Cart3Outer(n_, mx_) == IF mx_ < 0 THEN <<>> ELSE Cart3Inner(n_, mx_, n_ - mx_) \o Cart3Outer(n_, mx_ - 1)
RECURSIVE Cart2Outer(_, _)
Cart2Outer(n_, mx_) == IF mx_ < 0 THEN <<>> ELSE << <<mx_, n_ - mx_>> >> \o Cart2Outer(n_, mx_ - 1)
RECURSIVE PureTail(_, _)      \* for x = from .. l: (l, x), (l, -x)
PureTail(l_, x_) == IF x_ > l_ THEN <<>> ELSE << <<l_, x_>>, <<l_, -x_>> >> \o PureTail(l_, x_ + 1)
PureLoop(l_) == << <<l_, 0>> >> \o PureTail(l_, 1)
RECURSIVE PRInner(_, _, _)    \* for m = from .. l
PRInner(n_, l_, m_) ==
    IF m_ > l_ THEN <<>>
    ELSE (IF m_ # 0 THEN << <<n_, l_, m_>>, <<n_, l_, -m_>> >> ELSE << <<n_, l_, 0>> >>) \o PRInner(n_, l_, m_ + 1)
RECURSIVE PROuter(_, _)       \* for l = from .. n-1
PROuter(n_, l_) == IF l_ >= n_ THEN <<>> ELSE PRInner(n_, l_, 0) \o PROuter(n_, l_ + 1)
OrdersLoop(type_, n_, dim_) ==
    CASE type_ = "cartesian" -> (IF dim_ = 3 THEN Cart3Outer(n_, n_) ELSE IF dim_ = 2 THEN Cart2Outer(n_, n_) ELSE << <<n_>> >>)
      [] type_ = "radial" -> << <<n_>> >>
      [] type_ = "pure" -> PureLoop(n_)
      [] type_ = "pure-radial" -> PROuter(n_, 0)
\* Grid.moments stacks the orders 0..L (1..L for pure-radial)
FirstOrder(type_) == IF type_ = "pure-radial" THEN 1 ELSE 0
AllOrders(type_, ll_, dim_) ==
    Concat([x_ \in 1..ll_ - FirstOrder(type_) + 1 |-> OrdersLoop(type_, FirstOrder(type_) + x_ - 1, dim_)],
           ll_ - FirstOrder(type_) + 1)

\* --- row index arithmetic (0-based rows)
RowLM(l_, m_) == l_ * l_ + (IF m_ > 0 THEN 2 * m_ - 1 ELSE -2 * m_)     \* the code's index into the solid-harmonic rows
RowNLM(n_, l_, m_) == ((n_ - 1) * n_ * (2 * n_ - 1)) \div 6 + RowLM(l_, m_)
RowCart(t_) ==
    LET dim == Len(t_)
        n == ISumTo(t_, dim)
    IN CASE dim = 1 -> n
         [] dim = 2 -> (n * (n + 1)) \div 2 + (n - t_[1])
         [] dim = 3 -> (n * (n + 1) * (n + 2)) \div 6 + ((n - t_[1]) * (n - t_[1] + 1)) \div 2 + (n - t_[1] - t_[2])

(***************************************************************************)
(* 2. Basis functions.                                                     *)
(***************************************************************************)
\* Cartesian monomial at the displacement d_ (rationals), exactly; 0^0 = 1
CartBasisQ(t_, d_) == QProdTo([r_ \in 1..Len(t_) |-> QPow(d_[r_], t_[r_])], Len(t_))
\* trees in x, y, z
VarNames == <<"x", "y", "z">>
R2Tree(dim_) == AddTo([r_ \in 1..dim_ |-> Sq(V(VarNames[r_]))], dim_)
RadialTree(n_, dim_) == Pow(Sqrt(R2Tree(dim_)), n_)
RECURSIVE Binom(_, _)
Binom(n_, k_) == IF k_ < 0 \/ k_ > n_ THEN 0 ELSE IF k_ = 0 \/ k_ = n_ THEN 1 ELSE Binom(n_ - 1, k_ - 1) + Binom(n_ - 1, k_)
RECURSIVE Falling(_, _)
Falling(n_, k_) == IF k_ = 0 THEN 1 ELSE n_ * Falling(n_ - 1, k_ - 1)
CosHalfPi(k_) == IF k_ % 4 = 0 THEN 1 ELSE IF k_ % 4 = 2 THEN -1 ELSE 0      \* cos(k pi / 2)
SinHalfPi(k_) == IF k_ % 4 = 1 THEN 1 ELSE IF k_ % 4 = 3 THEN -1 ELSE 0      \* sin(k pi / 2)
Sign(k_) == IF k_ % 2 = 0 THEN 1 ELSE -1
\* 2^l r^(l-m) d^m P_l / d(cos)^m as a polynomial in z and r^2  (m >= 0):
\*   sum_k (-1)^k C(l,k) C(2l-2k, l) (l-2k)!/(l-2k-m)! r^(2k) z^(l-2k-m)
PiTreeInt(l_, m_) ==
    AddTo([x_ \in 1..((l_ - m_) \div 2) + 1 |->
              LET k == x_ - 1 IN
              Mul(CI(Sign(k) * Binom(l_, k) * Binom(2 * l_ - 2 * k, l_) * Falling(l_ - 2 * k, m_)),
                  Mul(Pow(R2Tree(3), k), Pow(V("z"), l_ - 2 * k - m_)))], ((l_ - m_) \div 2) + 1)
\* Re (x + i y)^m and Im (x + i y)^m
ATree(m_) == AddTo([x_ \in 1..m_ + 1 |-> Mul(CI(CosHalfPi(m_ - x_ + 1) * Binom(m_, x_ - 1)),
                                            Mul(Pow(V("x"), x_ - 1), Pow(V("y"), m_ - x_ + 1)))], m_ + 1)
BTree(m_) == AddTo([x_ \in 1..m_ + 1 |-> Mul(CI(SinHalfPi(m_ - x_ + 1) * Binom(m_, x_ - 1)),
                                            Mul(Pow(V("x"), x_ - 1), Pow(V("y"), m_ - x_ + 1)))], m_ + 1)
\* 2^l times the un-normalised solid harmonic (integer coefficients)
SolidPolyInt(l_, m_) == IF m_ >= 0 THEN Mul(PiTreeInt(l_, m_), ATree(m_)) ELSE Mul(PiTreeInt(l_, -m_), BTree(-m_))
\* squared normalisation: 1 for m = 0, 2 (l-|m|)!/(l+|m|)! otherwise
NormSq(l_, m_) ==
    IF m_ = 0 THEN QOne
    ELSE QMul(QI(2), QProdTo([x_ \in 1..2 * Abs(m_) |-> Q(1, l_ - Abs(m_) + x_)], 2 * Abs(m_)))
\* R_l^m(x, y, z) = sqrt(4 pi/(2l+1)) r^l Y_l^m
SolidTree(l_, m_) ==
    LET poly == Mul(C(1, 2 ^ l_), SolidPolyInt(l_, m_))
    IN IF m_ = 0 THEN poly ELSE Mul(Sqrt(CQ(NormSq(l_, m_))), poly)
BasisTree(type_, row_, dim_) ==
    CASE type_ = "radial" -> RadialTree(row_[1], dim_)
      [] type_ = "pure" -> SolidTree(row_[1], row_[2])
      [] type_ = "pure-radial" -> Mul(RadialTree(row_[1], 3), SolidTree(row_[2], row_[3]))
Laplacian(e_) == Add(Add(Dn(e_, "x", 2), Dn(e_, "y", 2)), Dn(e_, "z", 2))
EulerOp(e_) == Add(Add(Mul(V("x"), D(e_, "x")), Mul(V("y"), D(e_, "y"))), Mul(V("z"), D(e_, "z")))

(***************************************************************************)
(* 3. Moments of a discrete quadrature: points p_i (tuples of rationals),  *)
(* weights w_i, function values f_i, about the centre c_.                  *)
(***************************************************************************)
Displacement(p_, c_) == [r_ \in 1..Len(p_) |-> QSub(p_[r_], c_[r_])]
CartMoment(t_, pts_, wts_, fvals_, c_) ==
    QSumTo([x_ \in 1..Len(pts_) |-> QMul(QMul(wts_[x_], fvals_[x_]), CartBasisQ(t_, Displacement(pts_[x_], c_)))], Len(pts_))
\* for tree-valued bases the harness evaluates  sum_i Terms[i].coef * Basis(Terms[i].at)
MomentTerms(pts_, wts_, fvals_, c_) ==
    [x_ \in 1..Len(pts_) |-> [coef |-> QMul(wts_[x_], fvals_[x_]), at |-> Displacement(pts_[x_], c_)]]

\* dipole of a molecule: nuclei (charge z, position r: rationals, mass = variable MassNames[a]) and an
\* electron density rho_g on quadrature points: sum_a Z_a (R_a - R_c) - sum_g w_g rho_g (p_g - R_c),
\* R_c the centre of mass
MassNames == <<"m1", "m2", "m3", "m4", "m5", "m6">>
CentreOfMassTree(mol_, r_) ==
    Div(AddTo([a_ \in 1..Len(mol_) |-> Mul(V(MassNames[a_]), CQ(mol_[a_].r[r_]))], Len(mol_)),
        AddTo([a_ \in 1..Len(mol_) |-> V(MassNames[a_])], Len(mol_)))
DipoleTree(mol_, pts_, wts_, rho_, r_) ==
    Sub(AddTo([a_ \in 1..Len(mol_) |-> Mul(CI(mol_[a_].z), Sub(CQ(mol_[a_].r[r_]), CentreOfMassTree(mol_, r_)))], Len(mol_)),
        AddTo([x_ \in 1..Len(pts_) |-> Mul(CQ(QMul(wts_[x_], rho_[x_])), Sub(CQ(pts_[x_][r_]), CentreOfMassTree(mol_, r_)))], Len(pts_)))
=============================================================================
