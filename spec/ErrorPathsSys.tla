---------------------------- MODULE ErrorPathsSys ----------------------------
(***************************************************************************)
(* X01 - accepted and rejected calls interleaved on ONE object.            *)
(*                                                                         *)
(* The object is a Grid (3 x 2 points), a OneDGrid (3 points), a           *)
(* PeriodicGrid (3 x 2 points, two lattice vectors), an AtomGrid (no       *)
(* points setter) or a "Scaled" radial transformation (LinearInfinite /    *)
(* Exp / Power, which remember the scale b taken from the first array).    *)
(* What survives a call:                                                   *)
(*   pv, wv   which of the values the caller ever assigned is held as      *)
(*            points / weights (0 = the arrays given to the constructor)   *)
(*   psh, wsh the shapes of the held arrays                                *)
(*   ex       "none" / "built": the harmonics basis of an AtomGrid;        *)
(*            "none" / "set": the remembered scale b of a transformation   *)
(* An action is a record [act, v, k]:                                      *)
(*   SP  grid.points = value number v of shape kind k   ("same", "short", "wide")           *)
(*   SW  grid.weights = value number v of shape kind k  ("same", "short", "col")            *)
(*   IN  grid.integrate(one array of kind k)            ("ok", "short", "list")             *)
(*   LG  grid.get_localgrid(center, radius) k = "ok", "neg" (radius -1), "long" (center)    *)
(*   IP  atgrid.interpolate(values) k = "N", "short"                                        *)
(*   TF  tf.transform(x) k = "positive", "zeros"                                            *)
(*   RD  read every observable attribute                                                    *)
(* Whether an action is rejected, and with which class, is NOT restated    *)
(* here: it is Verdict(op, a) of ErrorPaths for the entry point and the    *)
(* abstract argument the action stands for IN THE CURRENT STATE (the       *)
(* transformation rejects an all-zero array only while no scale is         *)
(* remembered).  A rejected action leaves every variable unchanged.        *)
(*                                                                         *)
(* Validate = FALSE models setters without their shape check: TLC refutes  *)
(* SizeConsistent on it (the instance exists to show the model can see a   *)
(* dropped validation).                                                    *)
(***************************************************************************)
EXTENDS ErrorPaths
CONSTANTS Kinds, Validate

VARIABLES kind, pv, wv, psh, wsh, ex, last
svars == <<kind, pv, wv, psh, wsh, ex, last>>
allvars == <<evars, svars>>

PD(kd_) == IF kd_ = "OneDGrid" THEN 1 ELSE 2
InitPShape(kd_) == Shape(3, PD(kd_), IF kd_ = "AtomGrid" THEN 3 ELSE 2)
PShapeOf(kd_, k_) == CASE k_ = "same" -> InitPShape(kd_)
                       [] k_ = "short" -> Shape(2, PD(kd_), 2)
                       [] k_ = "wide" -> Shape(3, 2, 3)
WShapeOf(k_) == CASE k_ = "same" -> <<3>> [] k_ = "short" -> <<2>> [] k_ = "col" -> <<3, 1>>

Act(act_, v_, k_) == [act |-> act_, v |-> v_, k |-> k_]
Alphabet(kd_) ==
    IF kd_ = "Scaled" THEN {Act("TF", 0, "positive"), Act("TF", 0, "zeros"), Act("RD", 0, "")}
    ELSE {Act("SP", 1, "same"), Act("SP", 2, "same"), Act("SP", 1, "short"), Act("SP", 1, "wide"),
          Act("SW", 1, "same"), Act("SW", 2, "same"), Act("SW", 1, "short"), Act("SW", 1, "col"),
          Act("IN", 0, "ok"), Act("IN", 0, "short"), Act("IN", 0, "list"),
          Act("LG", 0, "ok"), Act("LG", 0, "neg"), Act("LG", 0, "long"), Act("RD", 0, "")}
         \cup (IF kd_ = "AtomGrid" THEN {Act("IP", 0, "N"), Act("IP", 0, "short")} ELSE {})

\* the entry point and abstract argument of ErrorPaths an action stands for in the current state
OpOf(x_) == CASE x_.act = "SP" -> "Grid.points.set" [] x_.act = "SW" -> "Grid.weights.set"
              [] x_.act = "IN" -> "Grid.integrate" [] x_.act = "LG" -> "Grid.get_localgrid"
              [] x_.act = "IP" -> "AtomGrid.interpolate" [] x_.act = "TF" -> "Scaled.transform"
ArgOf(x_) ==
    CASE x_.act = "SP" -> [pd |-> PD(kind), vn |-> IF x_.k = "short" THEN 2 ELSE 3,
                           vd |-> IF x_.k = "wide" THEN 2 ELSE PD(kind), vc |-> IF x_.k = "wide" THEN 3 ELSE 2]
      [] x_.act = "SW" -> [vn |-> IF x_.k = "short" THEN 2 ELSE 3, vd |-> IF x_.k = "col" THEN 2 ELSE 1]
      [] x_.act = "IN" -> [ks |-> <<x_.k>>]
      [] x_.act = "LG" -> [cls |-> "Grid2", cs |-> IF x_.k = "long" THEN "long" ELSE "match",
                           r |-> IF x_.k = "neg" THEN "neg" ELSE "pos"]
      [] x_.act = "IP" -> [fl |-> x_.k, state |-> IF ex = "none" THEN "fresh" ELSE "warm"]
      [] x_.act = "TF" -> [cls |-> "LinearInfinite", b |-> IF ex = "none" THEN "none" ELSE "given", x |-> x_.k]
\* "" = accepted, otherwise the exception class
AE == "AttributeError"
ClassOf(x_) ==
    IF x_.act = "RD" THEN ""
    ELSE IF x_.act = "SP" /\ kind = "AtomGrid" THEN AE      \* atomgrid.py:336 `points` is a property without a setter
    ELSE IF x_.act \in {"SP", "SW"} /\ ~Validate THEN ""
    ELSE Verdict(OpOf(x_), ArgOf(x_)).cls

SInit == /\ EInit /\ kind \in Kinds /\ pv = 0 /\ wv = 0
         /\ psh = InitPShape(kind) /\ wsh = <<3>>
         /\ ex = "none" /\ last = [act |-> Act("RD", 0, ""), cls |-> ""]

Do(x_) ==
    /\ x_ \in Alphabet(kind)
    /\ last' = [act |-> x_, cls |-> ClassOf(x_)]
    /\ IF ClassOf(x_) # "" THEN UNCHANGED <<pv, wv, psh, wsh, ex>>
       ELSE /\ pv' = IF x_.act = "SP" THEN x_.v ELSE pv
            /\ psh' = IF x_.act = "SP" THEN PShapeOf(kind, x_.k) ELSE psh
            /\ wv' = IF x_.act = "SW" THEN x_.v ELSE wv
            /\ wsh' = IF x_.act = "SW" THEN WShapeOf(x_.k) ELSE wsh
            /\ ex' = IF x_.act = "IP" THEN "built" ELSE IF x_.act = "TF" THEN "set" ELSE ex
    /\ UNCHANGED <<kind, evars>>
StepSP == \E x_ \in Alphabet(kind) : x_.act = "SP" /\ Do(x_)
StepSW == \E x_ \in Alphabet(kind) : x_.act = "SW" /\ Do(x_)
StepIN == \E x_ \in Alphabet(kind) : x_.act = "IN" /\ Do(x_)
StepLG == \E x_ \in Alphabet(kind) : x_.act = "LG" /\ Do(x_)
StepIP == \E x_ \in Alphabet(kind) : x_.act = "IP" /\ Do(x_)
StepTF == \E x_ \in Alphabet(kind) : x_.act = "TF" /\ Do(x_)
StepRD == \E x_ \in Alphabet(kind) : x_.act = "RD" /\ Do(x_)
SNext == StepSP \/ StepSW \/ StepIN \/ StepLG \/ StepIP \/ StepTF \/ StepRD
SSpec == SInit /\ [][SNext]_allvars

\* ---- properties ----------------------------------------------------------------------------
\* the invariant the constructor establishes survives every interleaving of accepted and rejected calls
SizeConsistent == kind # "Scaled" => psh[1] = wsh[1] /\ Len(wsh) = 1 /\ psh = InitPShape(kind)
\* a rejected call changes nothing
RejectIsAtomic == [][last'.cls # "" => <<pv, wv, psh, wsh, ex>>' = <<pv, wv, psh, wsh, ex>>]_allvars
\* only mutators change anything
OnlyMutatorsMutate ==
    [][<<pv, wv, psh, wsh, ex>>' # <<pv, wv, psh, wsh, ex>> => last'.act.act \in {"SP", "SW", "IP", "TF"}]_allvars
\* non-vacuity witnesses (negated in the cfg of the witness runs: TLC must reach them)
\* - the same call is rejected in one state and accepted in another
WitnessStateDependent == ~(kind = "Scaled" /\ ex = "set" /\ last.act = Act("TF", 0, "zeros") /\ last.cls = "")
\* - a rejected assignment arrives after an accepted one (the value to keep is not the constructor's)
WitnessRejectAfterAccept == ~(pv = 2 /\ last.act.act = "SP" /\ last.cls # "")
=============================================================================
