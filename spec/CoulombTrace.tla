---------------------------- MODULE CoulombTrace ----------------------------
(***************************************************************************)
(* Trace validation for the Coulomb parameter table.  traces_coulomb.json:  *)
(* every event carries the action, its arguments and what the harness       *)
(* measured after the call: the returned arrays compared with the shipped   *)
(* JSON file read independently (c, a), whether they share memory with an   *)
(* array kept by the module (ca, aa) or with a result handed out earlier    *)
(* and still held (ua), whether they equal what the FIRST lookup of that    *)
(* element in this process returned (same), and whether everything the      *)
(* module keeps still equals the shipped file (clean).                      *)
(***************************************************************************)
EXTENDS CoulombSys, Json
Traces == JsonDeserialize("traces_coulomb.json")
VARIABLES tid, l
tvars == <<cvars, tid, l>>
Ev == Traces[tid][l]
Clause(e_) ==
    CASE e_.ev = "Load" ->
             IF e_.exc # "" THEN "raised:" \o e_.exc
             ELSE IF e_.z \notin Fitted \/ e_.sp \notin Spell THEN "not-a-lookup-the-specification-knows"
             ELSE IF e_.c # tab[e_.z].c THEN "coefficients-differ-from-the-shipped-table"
             ELSE IF e_.a # tab[e_.z].a THEN "exponents-differ-from-the-shipped-table"
             ELSE IF ~e_.same THEN "values-differ-from-an-earlier-call"
             ELSE IF e_.ca \/ e_.aa THEN "array-aliases-the-cached-table"
             ELSE IF e_.ua THEN "array-shared-with-an-earlier-result"
             ELSE IF ~e_.clean THEN "cached-table-modified"
             ELSE "ok"
      [] e_.ev \in {"Edit", "Drop", "Refused"} ->
             IF ~e_.clean THEN "cached-table-modified" ELSE "ok"
      [] OTHER -> "unknown-event"
Apply(e_) ==
    CASE e_.ev = "Load" -> Load(e_.z, e_.sp)
      [] e_.ev = "Edit" -> CEdit(e_.i, e_.part)
      [] e_.ev = "Drop" -> CDrop(e_.i)
      [] e_.ev = "Refused" -> Refused(e_.kind)
Reset(t_) == /\ tid' = t_ /\ l' = 1
             /\ tab' = [zz_ \in Fitted |-> [c |-> "ok", a |-> "ok"]]
             /\ held' = <<>> /\ cobs' = NoCObs
TInit == CInit /\ tid = 1 /\ l = 1
TNext ==
    /\ tid <= Len(Traces)
    /\ IF l > Len(Traces[tid])
         THEN PrintT(<<"ACCEPT", tid>>) /\ Reset(tid + 1)
         ELSE IF Clause(Ev) = "ok"
                THEN Apply(Ev) /\ l' = l + 1 /\ tid' = tid
                ELSE PrintT(<<"REJECT", tid, l, Ev.ev, Clause(Ev)>>) /\ Reset(tid + 1)
TSpec == TInit /\ [][TNext]_tvars
=============================================================================
