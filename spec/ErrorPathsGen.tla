---------------------------- MODULE ErrorPathsGen ----------------------------
(***************************************************************************)
(* Behaviour generation for X01: ErrorPathsSys with a history variable.    *)
(* Every behaviour of MaxLen actions is printed once per kind of object    *)
(* and replayed by the harness on a real object of that kind.              *)
(***************************************************************************)
EXTENDS ErrorPathsSys
CONSTANT MaxLen
VARIABLE hist
gvars == <<allvars, hist>>
GInit == SInit /\ hist = <<>>
GNext == /\ Len(hist) < MaxLen
         /\ \E x_ \in Alphabet(kind) : Do(x_) /\ hist' = Append(hist, <<x_.act, x_.v, x_.k>>)
GSpec == GInit /\ [][GNext]_gvars
EmitBeh == Len(hist) = MaxLen => PrintT(<<"BEH", kind, hist>>)
=============================================================================
