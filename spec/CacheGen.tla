------------------------------ MODULE CacheGen ------------------------------
\* CacheSys with a history variable: every behaviour of length MaxLen is printed once.
EXTENDS CacheSys
CONSTANT MaxLen
VARIABLE hist
gvars == <<vars, hist>>
GInit == Init /\ hist = <<>>
GNext ==
    /\ Len(hist) < MaxLen
    /\ \/ \E mm_ \in Methods, dd_ \in Degrees, ff_ \in BOOLEAN :
            NewAngular(mm_, dd_, ff_) /\ hist' = Append(hist, <<"New", mm_, dd_, IF ff_ THEN 1 ELSE 0>>)
       \/ \E i_ \in 1..MaxObjs, pp_ \in {"p", "w"} :
            Edit(i_, pp_) /\ hist' = Append(hist, <<"Edit", pp_, i_, 0>>)
       \/ \E i_ \in 1..MaxObjs : Drop(i_) /\ hist' = Append(hist, <<"Drop", "", i_, 0>>)
       \/ \E mm_ \in Methods, dd_ \in Degrees :
            \/ NewAtom(mm_, dd_) /\ hist' = Append(hist, <<"Atom", mm_, dd_, 0>>)
            \/ Shell(mm_, dd_) /\ hist' = Append(hist, <<"Shell", mm_, dd_, 0>>)
            \/ AtomOp(mm_, dd_) /\ hist' = Append(hist, <<"AtomOp", mm_, dd_, 0>>)
            \/ NewAtomRot(mm_, dd_) /\ hist' = Append(hist, <<"AtomRot", mm_, dd_, 0>>)
            \/ NewMol(mm_, dd_) /\ hist' = Append(hist, <<"Mol", mm_, dd_, 0>>)
       \* an atomic grid over all degrees of the model at once (single degrees are NewAtom), and read-only uses
       \/ \E mm_ \in Methods : NewAtomSet(mm_, Degrees) /\ hist' = Append(hist, <<"AtomSet", mm_, 0, 0>>)
       \/ \E i_ \in 1..MaxObjs : Use(i_) /\ hist' = Append(hist, <<"Use", "", i_, 0>>)
GSpec == GInit /\ [][GNext]_gvars
Emit == Len(hist) = MaxLen => PrintT(<<"BEH", hist>>)
=============================================================================
