------------------------------- MODULE Angular -------------------------------
(***************************************************************************)
(* Resolution of a requested angular degree or size to a supported grid    *)
(* (property C12) and the catalogue of shipped angular grids (C02).        *)
(*                                                                         *)
(* The tables are NOT written here: Tables_angular is generated at check   *)
(* time from /repo (grid.angular's dictionaries in their iteration order   *)
(* and the listing of the four data directories), so an edit to a table or *)
(* a data directory changes the model that TLC checks.                     *)
(*                                                                         *)
(*   DegTab[m]  : sequence of <<degree, size>>, order of the degree table  *)
(*   SizeTab[m] : sequence of <<size, degree>>, order of the size table    *)
(*   FileSet[m] : set of <<degree, size>> with a file m_degree_size.npz    *)
(*   Obs        : observations recorded from the implementation            *)
(*                Obs[m][kind][q+1] = <<degree, size>> built for request q *)
(*                <<-1,-1>> = rejected (ValueError), <<-2,-2>> = not run   *)
(***************************************************************************)
EXTENDS Integers, Sequences, FiniteSets, TLC, Tables_angular

Kinds == {"degree", "size"}
Reject == <<-1, -1>>
NotRun == <<-2, -2>>

Tab(m, k)    == IF k = "degree" THEN DegTab[m] ELSE SizeTab[m]

\* Derived catalogue data, computed ONCE by TLC (constant-level definitions; comparing a
\* function with itself forces TLC to tabulate it instead of re-evaluating its body on every
\* application).
Force(f) == IF f = f THEN f ELSE f
MKs == Methods \X Kinds
MaxOf(S) == CHOOSE x \in S : \A y \in S : y <= x
KeysOf   == Force([p \in MKs |-> [i \in 1..Len(Tab(p[1], p[2])) |-> Tab(p[1], p[2])[i][1]]])
KeySetOf == Force([p \in MKs |-> {Tab(p[1], p[2])[i][1] : i \in 1..Len(Tab(p[1], p[2]))}])
MaxKeyOf == Force([p \in MKs |-> MaxOf(KeySetOf[p])])
PairSetOf == Force([p \in MKs |-> {Tab(p[1], p[2])[i] : i \in 1..Len(Tab(p[1], p[2]))}])
\* first table row carrying key v (a dictionary lookup takes the first match as well)
RowOf == Force([p \in MKs |-> [v \in KeySetOf[p] |->
             CHOOSE j \in 1..Len(Tab(p[1], p[2])) :
                 /\ Tab(p[1], p[2])[j][1] = v
                 /\ \A i \in 1..j - 1 : Tab(p[1], p[2])[i][1] # v]])

Keys(m, k)   == KeysOf[<<m, k>>]
KeySet(m, k) == KeySetOf[<<m, k>>]
MaxKey(m, k) == MaxKeyOf[<<m, k>>]
PairSet(m, k) == PairSetOf[<<m, k>>]

(***************************************************************************)
(* Declarative definition (what the property states).  No sortedness of    *)
(* the table is assumed.                                                   *)
(***************************************************************************)
Admissible(m, k, q) == q >= 0 /\ q <= MaxKey(m, k)
Resolve(m, k, q) ==
    CHOOSE v \in KeySet(m, k) : v >= q /\ \A w \in KeySet(m, k) : w >= q => v <= w
Partner(m, k, v) == Tab(m, k)[RowOf[<<m, k>>][v]][2]
\* the <<degree, size>> pair the property prescribes for request q of kind k
Expected(m, k, q) ==
    IF ~Admissible(m, k, q) THEN Reject
    ELSE LET v == Resolve(m, k, q) p == Partner(m, k, v)
         IN IF k = "degree" THEN <<v, p>> ELSE <<p, v>>

(***************************************************************************)
(* Static catalogue laws.                                                  *)
(***************************************************************************)
StrictlyIncreasing(s) == \A i \in 1..Len(s) - 1 : s[i] < s[i + 1]
TablesSorted == \A m \in Methods : \A k \in Kinds : StrictlyIncreasing(Keys(m, k))
\* degree table and size table are inverse bijections of each other
TablesInverse ==
    \A m \in Methods :
        /\ PairSet(m, "degree") = {<<p[2], p[1]>> : p \in PairSet(m, "size")}
        /\ Cardinality(KeySet(m, "degree")) = Len(DegTab[m])
        /\ Cardinality(KeySet(m, "size")) = Len(SizeTab[m])
        /\ Len(DegTab[m]) = Len(SizeTab[m])
\* sizes grow with degrees (so "not coarser in degree" and "not smaller in size" agree)
TablesComonotone ==
    \A m \in Methods : \A p1, p2 \in PairSet(m, "degree") : p1[1] < p2[1] => p1[2] < p2[2]
\* every table entry has its data file
TableFilesExist == \A m \in Methods : PairSet(m, "degree") \subseteq FileSet[m]
\* (informational, NOT claimed: the data directories ship a few extra files, e.g.
\* lebedev_3_8, lebedev_3_12, lebedev_5_14, maxdet_200_40401, that no table names)
NoOrphanFiles == \A m \in Methods : FileSet[m] \subseteq PairSet(m, "degree")

(***************************************************************************)
(* The algorithm of the code: range check, direct hit, else bisect_left on *)
(* the key list IN TABLE ORDER.  One request at a time; requests are       *)
(* picked block-wise so that the initial state set stays a singleton.      *)
(***************************************************************************)
VARIABLES pc, cm, ck, blk, cq, lo, hi, res
vars == <<pc, cm, ck, blk, cq, lo, hi, res>>

BlockSize == 64
NBlocks(mm, kk) == (MaxKey(mm, kk) + 3) \div BlockSize + 1   \* requests -1 .. max+2

Init ==
    /\ pc = "idle" /\ cm = "none" /\ ck = "none" /\ blk = 0 /\ cq = 0
    /\ lo = 0 /\ hi = 0 /\ res = NotRun

PickBlock ==
    /\ pc = "idle"
    /\ \E mm \in Methods, kk \in Kinds :
         \E b \in 0..NBlocks(mm, kk) - 1 :
            /\ cm' = mm /\ ck' = kk /\ blk' = b
    /\ pc' = "block"
    /\ UNCHANGED <<cq, lo, hi, res>>

PickRequest ==
    /\ pc = "block"
    /\ \E j \in 0..BlockSize - 1 :
         LET qq == blk * BlockSize + j - 1 IN
         /\ qq <= MaxKey(cm, ck) + 2
         /\ cq' = qq
    /\ pc' = "check"
    /\ UNCHANGED <<cm, ck, blk, lo, hi, res>>

Pair(i) == IF ck = "degree" THEN Tab(cm, ck)[i] ELSE <<Tab(cm, ck)[i][2], Tab(cm, ck)[i][1]>>
IndexOfKey(v) == RowOf[<<cm, ck>>][v]

RangeCheck ==
    /\ pc = "check"
    /\ IF cq < 0 \/ cq > MaxKey(cm, ck)
         THEN /\ res' = Reject /\ pc' = "done" /\ UNCHANGED <<lo, hi>>
         ELSE IF cq \in KeySet(cm, ck)
                THEN /\ res' = Pair(IndexOfKey(cq)) /\ pc' = "done" /\ UNCHANGED <<lo, hi>>
                ELSE /\ lo' = 0 /\ hi' = Len(Tab(cm, ck)) /\ pc' = "bisect" /\ UNCHANGED res
    /\ UNCHANGED <<cm, ck, blk, cq>>

\* bisect_left: while lo < hi: mid = (lo+hi)//2; if a[mid] < x: lo = mid+1 else: hi = mid
BisectStep ==
    /\ pc = "bisect" /\ lo < hi
    /\ LET mid == (lo + hi) \div 2 IN
         IF Keys(cm, ck)[mid + 1] < cq
            THEN lo' = mid + 1 /\ hi' = hi
            ELSE hi' = mid /\ lo' = lo
    /\ UNCHANGED <<pc, cm, ck, blk, cq, res>>

BisectEnd ==
    /\ pc = "bisect" /\ lo >= hi
    /\ res' = IF lo + 1 \in 1..Len(Tab(cm, ck)) THEN Pair(lo + 1) ELSE Reject
    /\ pc' = "done"
    /\ UNCHANGED <<cm, ck, blk, cq, lo, hi>>

StaticOnly == pc = "idle"   \* constraint of the catalogue-law runs: initial state only

Next == PickBlock \/ PickRequest \/ RangeCheck \/ BisectStep \/ BisectEnd

Spec == Init /\ [][Next]_vars

(***************************************************************************)
(* Properties of the algorithm (C12).                                      *)
(***************************************************************************)
Done == pc = "done"
KeyOf(r) == IF ck = "degree" THEN r[1] ELSE r[2]

AlgoEqualsDefinition == Done => res = Expected(cm, ck, cq)
RejectsExactlyOutOfRange == Done => ((res = Reject) <=> ~Admissible(cm, ck, cq))
NotBelowRequest == Done /\ res # Reject => KeyOf(res) >= cq
Minimal == Done /\ res # Reject => \A w \in KeySet(cm, ck) : w >= cq => KeyOf(res) <= w
MatchingPair ==
    Done /\ res # Reject =>
        /\ res \in PairSet(cm, "degree")
        /\ <<res[2], res[1]>> \in PairSet(cm, "size")
FileExists == Done /\ res # Reject => res \in FileSet[cm]
\* loop invariant of the bisection (needs the table to be sorted; that is the point)
BisectInvariant ==
    pc = "bisect" =>
        /\ 0 <= lo /\ lo <= hi /\ hi <= Len(Tab(cm, ck))
        /\ \A i \in 1..lo : Keys(cm, ck)[i] < cq
        /\ \A i \in hi + 1..Len(Tab(cm, ck)) : Keys(cm, ck)[i] >= cq

(***************************************************************************)
(* Conformance: what the implementation built for this very request.       *)
(* Mismatches are printed (one line each) instead of stopping at the first,*)
(* so that the harness can report every distinct failing request.          *)
(***************************************************************************)
\* Obs[cm][ck][cq+1] (ObsNeg[cm][ck] for cq = -1) is the sequence of DISTINCT observations
\* <<route, degree, size>> made for request cq through the public routes:
\*   "ctor"  AngularGrid(degree=cq | size=cq, method=cm)  -> .degree, .size
\*   "conv"  AngularGrid.convert_angular_sizes_to_degrees -> degree (size logged as 0)
\*   "atom"  AtomGrid(rgrid, degrees=[..cq..] | sizes=[..cq..]).degrees and the shell size from .indices
\*   "pruned" AtomGrid.from_pruned with the same request cq in every sector: every shell's degree / size
\* rejected requests are logged with degree = size = -1.
Observed == IF cq >= 0 /\ cq + 1 <= Len(Obs[cm][ck]) THEN Obs[cm][ck][cq + 1]
            ELSE IF cq = -1 THEN ObsNeg[cm][ck] ELSE <<>>
Agrees(o) == /\ o[2] = res[1]
             /\ (o[3] = 0 \/ o[3] = res[2])
ObsConforms ==
    Done => \A i \in 1..Len(Observed) :
               Agrees(Observed[i]) \/ PrintT(<<"MISMATCH", cm, ck, cq, res, Observed[i]>>)
=============================================================================
