SPECIFICATION JSpec
CONSTANT LTree = 1
CONSTANT LExact = 1
CONSTANT LOrth = 1
CONSTANT LRow = 1
CONSTANT LForm = 5
CONSTANT EmitFile = ""
CONSTANT AuditFile = ""
CONSTANT ObsFile = "harmonics_obs.json"
INVARIANT FormJudged
INVARIANT FormsComplete
