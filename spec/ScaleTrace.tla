----------------------------- MODULE ScaleTrace -----------------------------
\* Trace validation of recorded call sequences on the b-inferring transforms.
EXTENDS ScaleSys, Json
Traces == JsonDeserialize("traces_scale.json")
VARIABLES tid, l
tvars == <<vars, tid, l>>
Ev == Traces[tid][l]
Clause(e_) ==
    IF e_.exc # "" THEN "raised:" \o e_.exc
    ELSE IF e_.bpre # b THEN "scale-changed-between-calls"
    ELSE IF b # None /\ e_.bpost # b THEN "fixed-scale-overwritten"
    ELSE IF b = None /\ e_.bpost \notin {None, e_.xmax} THEN "scale-not-from-first-grid"
    ELSE IF b = None /\ e_.dep /\ e_.bpost = None THEN "scale-dependent-result-without-fixing-the-scale"
    ELSE IF ~e_.pure THEN "result-depends-on-history"
    ELSE "ok"
Reset(t_) == /\ tid' = t_ /\ l' = 2 /\ obs' = [kind |-> "none", b |-> None]
             /\ b' = IF t_ <= Len(Traces) THEN Traces[t_][1].b0 ELSE None
TInit == /\ tid = 1 /\ l = 2 /\ b = Traces[1][1].b0 /\ obs = [kind |-> "none", b |-> None]
TNext ==
    /\ tid <= Len(Traces)
    /\ IF l > Len(Traces[tid])
         THEN PrintT(<<"ACCEPT", tid>>) /\ Reset(tid + 1)
         ELSE IF Clause(Ev) = "ok"
                THEN /\ b' = Ev.bpost /\ obs' = [kind |-> Ev.op, b |-> Ev.bpost]
                     /\ (b = None => Ev.bpost \in {None, Ev.xmax}) /\ (b # None => Ev.bpost = b)
                     /\ l' = l + 1 /\ tid' = tid
                ELSE PrintT(<<"REJECT", tid, l, Ev.op, Clause(Ev)>>) /\ Reset(tid + 1)
TSpec == TInit /\ [][TNext]_tvars
=============================================================================
