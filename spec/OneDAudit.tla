------------------------------ MODULE OneDAudit ------------------------------
(***************************************************************************)
(* C01, conformance direction: the integer / boolean observables recorded  *)
(* by the harness while it replayed the cases emitted by OneD.tla into the *)
(* real rule constructors are judged HERE, by TLC, against the catalogue:  *)
(*   size       number of points (= number of weights = .size)             *)
(*   asc, dom   nodes non-decreasing (strictly where the definition        *)
(*              separates them by more than rounding) / inside the         *)
(*              declared domain, and .domain equals the declared domain    *)
(*   nobl       number of exactness obligations discharged                 *)
(*   ndef       number of node/weight values compared with the definition  *)
(*   nint       number of obligations discharged through .integrate        *)
(*   nform      number of call forms replayed and judged                   *)
(* so that no case and no obligation can be skipped silently.              *)
(* oned_obs.json: rule name -> sequence of records aligned with CasesOf.   *)
(* Mismatches are printed (all of them), the invariant itself stays TRUE.  *)
(***************************************************************************)
EXTENDS MC_OneD

ObsAll == JsonDeserialize("oned_obs.json")
(* oned_sig.json: what the harness read off the library itself before any case was built:   *)
(*   classes   names of all OneDGrid subclasses defined in grid.onedgrid                    *)
(*   defaults  rule name -> default of the optional parameter declared by the signature of  *)
(*             the constructor as a rational <<p, q>>, <<0, 0>> if there is none / it is    *)
(*             not a small rational                                                          *)
SigAll == JsonDeserialize("oned_sig.json")
DefaultOf(r_) == SigAll.defaults[r_]

ExpectedObl(c_) == IF Family(c_.rule) = "none" THEN 0
                   ELSE IF Family(c_.rule) = "sine" THEN c_.n
                   ELSE Degree(c_.rule, c_.n) + 1
\* Gauss rules have no closed form (characterised by exactness); a mapped rule over a Gauss
\* base is compared with the map applied to the base rule's own nodes
ExpectedDef(c_) == IF Kind(c_.rule) = "gauss" THEN 0 ELSE 2 * c_.n
\* obligations discharged through OneDGrid.integrate: every obligation as "product" and as
\* "factors", plus the squares of the orthonormal family (OneD.tla section 7b)
ExpectedInt(c_) == 2 * ExpectedObl(c_) + SquareCount(c_.rule, c_.n)
\* call forms replayed and judged (OneD.tla section 7b)
ExpectedForms(c_) == Cardinality(FormsOf(c_, DefaultOf(c_.rule)))

IndexOf(r_, c_) == CHOOSE q_ \in 1..Len(CasesOf[r_]) : CasesOf[r_][q_] = c_
ObsOfCase == ObsAll[vrule][IndexOf(vrule, vcase)]
Agrees(o_) ==
    /\ o_.n = vcase.n /\ o_.par = vcase.par /\ o_.base = vcase.base
    /\ (o_.built =>
          /\ o_.size = vcase.n /\ o_.asc /\ o_.dom
          /\ o_.nobl = ExpectedObl(vcase) /\ o_.ndef = ExpectedDef(vcase)
          /\ o_.nint = ExpectedInt(vcase) /\ o_.nform = ExpectedForms(vcase))
AuditOK ==
    AtCase => \/ Agrees(ObsOfCase)
              \/ PrintT(<<"MISMATCH", vcase, ObsOfCase,
                          [size |-> vcase.n, nobl |-> ExpectedObl(vcase), ndef |-> ExpectedDef(vcase),
                           nint |-> ExpectedInt(vcase), nform |-> ExpectedForms(vcase)]>>)
AuditComplete == AtStatic => \A r_ \in Rules : Len(ObsAll[r_]) = Len(CasesOf[r_])
\* "for all rule classes": every OneDGrid subclass the library defines is in the catalogue (a
\* class the specification does not know cannot be judged and must not pass silently) ...
AuditCatalogue ==
    AtStatic => \A q_ \in 1..Len(SigAll.classes) :
                    SigAll.classes[q_] \in Rules \/ PrintT(<<"UNCATALOGUED", SigAll.classes[q_]>>)
\* ... and the default of every optional parameter is an admissible value of it (the request
\* without the optional argument is a request of the statement)
DefaultKnown(r_) == DefaultOf(r_)[2] > 0
AuditDefaults ==
    AtStatic => \A r_ \in Rules :
                    \/ ParKind(r_) = "none"
                    \/ DefaultKnown(r_) /\ AdmissiblePar(r_, MinN(r_), DefaultOf(r_))
                    \/ PrintT(<<"BADDEFAULT", r_, DefaultOf(r_)>>)
=============================================================================
