------------------------------ MODULE OneDAudit ------------------------------
(***************************************************************************)
(* C01, conformance direction: the integer / boolean observables recorded  *)
(* by the harness while it replayed the cases emitted by OneD.tla into the *)
(* real rule constructors are judged HERE, by TLC, against the catalogue:  *)
(*   size       number of points (= number of weights = .size)             *)
(*   asc, dom   nodes non-decreasing (strictly where the definition        *)
(*              separates them by more than rounding) / inside the         *)
(*              declared domain, and .domain equals the declared domain    *)
(*   nobl       number of exactness obligations discharged                 *)
(*   ndef       number of node/weight values compared with the definition  *)
(* so that no case and no obligation can be skipped silently.              *)
(* oned_obs.json: rule name -> sequence of records aligned with CasesOf.   *)
(* Mismatches are printed (all of them), the invariant itself stays TRUE.  *)
(***************************************************************************)
EXTENDS MC_OneD

ObsAll == JsonDeserialize("oned_obs.json")

ExpectedObl(c_) == IF Family(c_.rule) = "none" THEN 0
                   ELSE IF Family(c_.rule) = "sine" THEN c_.n
                   ELSE Degree(c_.rule, c_.n) + 1
\* Gauss rules have no closed form (characterised by exactness); a mapped rule over a Gauss
\* base is compared with the map applied to the base rule's own nodes
ExpectedDef(c_) == IF Kind(c_.rule) = "gauss" THEN 0 ELSE 2 * c_.n

IndexOf(r_, c_) == CHOOSE q_ \in 1..Len(CasesOf[r_]) : CasesOf[r_][q_] = c_
ObsOfCase == ObsAll[vrule][IndexOf(vrule, vcase)]
Agrees(o_) ==
    /\ o_.n = vcase.n /\ o_.par = vcase.par /\ o_.base = vcase.base
    /\ (o_.built =>
          /\ o_.size = vcase.n /\ o_.asc /\ o_.dom
          /\ o_.nobl = ExpectedObl(vcase) /\ o_.ndef = ExpectedDef(vcase))
AuditOK ==
    AtCase => \/ Agrees(ObsOfCase)
              \/ PrintT(<<"MISMATCH", vcase, ObsOfCase,
                          [size |-> vcase.n, nobl |-> ExpectedObl(vcase), ndef |-> ExpectedDef(vcase)]>>)
AuditComplete == AtStatic => \A r_ \in Rules : Len(ObsAll[r_]) = Len(CasesOf[r_])
=============================================================================
