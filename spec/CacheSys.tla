------------------------------ MODULE CacheSys ------------------------------
(***************************************************************************)
(* Module-level angular-grid caches, the arrays handed to instances, and   *)
(* what in-place edits of returned arrays can reach (property C19, first   *)
(* sentence).                                                               *)
(*                                                                          *)
(* Abstraction.  An array buffer carries one bit of content: "ok" (equal to *)
(* the shipped data, or correctly derived from it) or "dirty".  The cache   *)
(* of a method maps a degree to a pair of buffers (points, weights).  A     *)
(* user-held angular grid either owns private buffers or ALIASES the cache  *)
(* buffers of its (method, degree); an aliasing object has no content of    *)
(* its own - it shows the cache's.                                          *)
(*                                                                          *)
(* Aliasing = "copying"   every instance gets private copies (the design    *)
(*                        the property demands; the library after c8137f6). *)
(* Aliasing = "asShipped" the instance receives the cached points array     *)
(*                        itself, and the cached weights array for methods  *)
(*                        whose weights are not rescaled.  TLC refutes      *)
(*                        FreshIsShipped on it in three steps; the instance *)
(*                        exists to show the specification sees the defect. *)
(*                                                                          *)
(* Actions = public entry points:                                           *)
(*   NewAngular(m, d, flag)   AngularGrid(degree=d, method=m, cache=flag)   *)
(*   Edit(o, part)            in-place modification of a returned array     *)
(*   Drop(o)                  the caller forgets a grid                     *)
(*   NewAtom(m, d)            AtomGrid(...): per shell an internal angular  *)
(*                            grid (cache=True), then private scaled copies *)
(*   Shell(m, d)              AtomGrid.get_shell_grid: internal angular     *)
(*                            grid, copies, handed out as a new user object *)
(*   AtomOp(m, d)             integrate_angular_coordinates at r ~ 0 etc.:  *)
(*                            internal angular grid, read only              *)
(*   NewAtomRot / NewMol      rotated atomic grid, two-atom molecular grid  *)
(*   NewAtomSet(m, D)         atomic grid whose shells use the degrees D    *)
(*                            (degree / size lists, pruned, preset)         *)
(*   Use(o)                   read-only use of a returned grid              *)
(***************************************************************************)
EXTENDS Integers, Sequences, FiniteSets, TLC

CONSTANTS Methods,      \* set of method names
          Scaled,       \* subset of Methods whose weights are multiplied by 4 pi (fresh array)
          Degrees,      \* set of supported degrees used in the model
          MaxObjs,      \* bound on simultaneously live user objects
          Aliasing      \* "copying" | "asShipped"

VARIABLES cache,  \* [Methods -> [Degrees -> [present, p, w]]]   p, w \in {"ok", "dirty"}
          objs,   \* sequence of user-held angular grids [m, d, pa, wa, pc, wc]
          obs     \* observation made by the last action
vars == <<cache, objs, obs>>

Absent == [present |-> FALSE, p |-> "ok", w |-> "ok"]
NoObs == [kind |-> "none", p |-> "ok", w |-> "ok", pa |-> FALSE, wa |-> FALSE]

Init == /\ cache = [mm_ \in Methods |-> [dd_ \in Degrees |-> Absent]]
        /\ objs = <<>>
        /\ obs = NoObs

\* content a user sees in object o
PtsOf(o_) == IF o_.pa THEN cache[o_.m][o_.d].p ELSE o_.pc
WtsOf(o_) == IF o_.wa THEN cache[o_.m][o_.d].w ELSE o_.wc

\* The angular grid built for (m, d) with the given cache flag, and the cache afterwards.
Hit(mm_, dd_) == cache[mm_][dd_].present
SrcP(mm_, dd_) == IF Hit(mm_, dd_) THEN cache[mm_][dd_].p ELSE "ok"     \* a miss loads the shipped file
SrcW(mm_, dd_) == IF Hit(mm_, dd_) THEN cache[mm_][dd_].w ELSE "ok"
CacheAfter(mm_, dd_, flag_) ==
    IF ~Hit(mm_, dd_) /\ flag_
      THEN [cache EXCEPT ![mm_][dd_] = [present |-> TRUE, p |-> "ok", w |-> "ok"]]
      ELSE cache
InCacheAfter(mm_, dd_, flag_) == Hit(mm_, dd_) \/ flag_
Built(mm_, dd_, flag_) ==
    IF Aliasing = "copying"
      THEN [m |-> mm_, d |-> dd_, pa |-> FALSE, wa |-> FALSE, pc |-> SrcP(mm_, dd_), wc |-> SrcW(mm_, dd_)]
      ELSE [m |-> mm_, d |-> dd_,
            pa |-> InCacheAfter(mm_, dd_, flag_),
            wa |-> InCacheAfter(mm_, dd_, flag_) /\ mm_ \notin Scaled,
            pc |-> SrcP(mm_, dd_), wc |-> SrcW(mm_, dd_)]

NewAngular(mm_, dd_, flag_) ==
    /\ Len(objs) < MaxObjs
    /\ cache' = CacheAfter(mm_, dd_, flag_)
    /\ objs' = Append(objs, Built(mm_, dd_, flag_))
    /\ obs' = [kind |-> "new", p |-> SrcP(mm_, dd_), w |-> SrcW(mm_, dd_),
               pa |-> Built(mm_, dd_, flag_).pa, wa |-> Built(mm_, dd_, flag_).wa]

Edit(i_, part_) ==
    /\ i_ \in 1..Len(objs)
    /\ LET o == objs[i_] IN
       IF part_ = "p"
         THEN IF o.pa THEN /\ cache' = [cache EXCEPT ![o.m][o.d].p = "dirty"] /\ objs' = objs
                      ELSE /\ objs' = [objs EXCEPT ![i_].pc = "dirty"] /\ cache' = cache
         ELSE IF o.wa THEN /\ cache' = [cache EXCEPT ![o.m][o.d].w = "dirty"] /\ objs' = objs
                      ELSE /\ objs' = [objs EXCEPT ![i_].wc = "dirty"] /\ cache' = cache
    /\ obs' = NoObs

Drop(i_) ==
    /\ i_ \in 1..Len(objs)
    /\ objs' = [k_ \in 1..Len(objs) - 1 |-> IF k_ < i_ THEN objs[k_] ELSE objs[k_ + 1]]
    /\ obs' = NoObs /\ UNCHANGED cache

\* everything built from an angular grid: content derived from the source arrays at that time
NewAtom(mm_, dd_) ==
    /\ cache' = CacheAfter(mm_, dd_, TRUE)
    /\ obs' = [kind |-> "atom", p |-> SrcP(mm_, dd_), w |-> SrcW(mm_, dd_), pa |-> FALSE, wa |-> FALSE]
    /\ UNCHANGED objs
Shell(mm_, dd_) ==
    /\ Len(objs) < MaxObjs
    /\ cache' = CacheAfter(mm_, dd_, TRUE)
    \* the shell grid's arrays are fresh (copied, then scaled): a private user object
    /\ objs' = Append(objs, [m |-> mm_, d |-> dd_, pa |-> FALSE, wa |-> FALSE,
                             pc |-> SrcP(mm_, dd_), wc |-> SrcW(mm_, dd_)])
    /\ obs' = [kind |-> "shell", p |-> SrcP(mm_, dd_), w |-> SrcW(mm_, dd_), pa |-> FALSE, wa |-> FALSE]
AtomOp(mm_, dd_) ==
    /\ cache' = CacheAfter(mm_, dd_, TRUE)
    /\ obs' = [kind |-> "atomop", p |-> SrcP(mm_, dd_), w |-> SrcW(mm_, dd_), pa |-> FALSE, wa |-> FALSE]
    /\ UNCHANGED objs

\* a rotated atomic grid (seeded rotation of every shell) and a molecular grid of two atoms: both are
\* built from internal angular grids exactly like NewAtom; they differ in what the harness measures
\* (orthogonal image of the shipped points / concatenation with atom-in-molecule weights)
NewAtomRot(mm_, dd_) ==
    /\ cache' = CacheAfter(mm_, dd_, TRUE)
    /\ obs' = [kind |-> "atomrot", p |-> SrcP(mm_, dd_), w |-> SrcW(mm_, dd_), pa |-> FALSE, wa |-> FALSE]
    /\ UNCHANGED objs
NewMol(mm_, dd_) ==
    /\ cache' = CacheAfter(mm_, dd_, TRUE)
    /\ obs' = [kind |-> "mol", p |-> SrcP(mm_, dd_), w |-> SrcW(mm_, dd_), pa |-> FALSE, wa |-> FALSE]
    /\ UNCHANGED objs

\* an atomic grid whose shells use SEVERAL degrees (degree / size lists, pruned and preset constructors): one
\* internal angular grid (cache=True) per shell; every degree of the set DD_ is looked up, missing ones are
\* loaded and cached, and the grid is the shipped data iff every source was
CacheAfterSet(mm_, DD_) ==
    [cache EXCEPT ![mm_] = [dd_ \in Degrees |->
        IF dd_ \in DD_ /\ ~Hit(mm_, dd_) THEN [present |-> TRUE, p |-> "ok", w |-> "ok"] ELSE cache[mm_][dd_]]]
AllOk(mm_, DD_, part_) ==
    IF \A dd_ \in DD_ : (IF part_ = "p" THEN SrcP(mm_, dd_) ELSE SrcW(mm_, dd_)) = "ok" THEN "ok" ELSE "dirty"
NewAtomSet(mm_, DD_) ==
    /\ DD_ # {}
    /\ cache' = CacheAfterSet(mm_, DD_)
    /\ obs' = [kind |-> "atomset", p |-> AllOk(mm_, DD_, "p"), w |-> AllOk(mm_, DD_, "w"), pa |-> FALSE, wa |-> FALSE]
    /\ UNCHANGED objs
\* a read-only use of a live user object (integration, indexing, local grids): nothing changes
Use(i_) ==
    /\ i_ \in 1..Len(objs)
    /\ obs' = NoObs /\ UNCHANGED <<cache, objs>>

Next == \/ \E mm_ \in Methods, dd_ \in Degrees, ff_ \in BOOLEAN : NewAngular(mm_, dd_, ff_)
        \/ \E mm_ \in Methods, dd_ \in Degrees : NewAtomRot(mm_, dd_) \/ NewMol(mm_, dd_)
        \/ \E mm_ \in Methods, DD_ \in SUBSET Degrees : NewAtomSet(mm_, DD_)
        \/ \E i_ \in 1..MaxObjs : Use(i_)
        \/ \E i_ \in 1..MaxObjs, pp_ \in {"p", "w"} : Edit(i_, pp_)
        \/ \E i_ \in 1..MaxObjs : Drop(i_)
        \/ \E mm_ \in Methods, dd_ \in Degrees : NewAtom(mm_, dd_) \/ Shell(mm_, dd_) \/ AtomOp(mm_, dd_)
Spec == Init /\ [][Next]_vars

\* ---- properties (C19) --------------------------------------------------------------------
\* whatever happened before, a newly built grid (and anything built from one) is the shipped data
FreshIsShipped == obs.kind # "none" => obs.p = "ok" /\ obs.w = "ok"
\* nothing a caller can do reaches the cached arrays
CacheClean == \A mm_ \in Methods, dd_ \in Degrees : cache[mm_][dd_].p = "ok" /\ cache[mm_][dd_].w = "ok"
\* no user-visible array is a cached array
NoAliasCacheUser == \A i_ \in 1..Len(objs) : ~objs[i_].pa /\ ~objs[i_].wa
\* the cache only ever grows (an entry is never replaced)
CacheMonotone == [][\A mm_ \in Methods, dd_ \in Degrees : cache[mm_][dd_].present => cache'[mm_][dd_].present]_vars
\* witnesses (negated; TLC must reach them)
WitnessEditThenRebuild ==
    ~(obs.kind = "new" /\ \E i_ \in 1..Len(objs) - 1 :
          objs[i_].m = objs[Len(objs)].m /\ objs[i_].d = objs[Len(objs)].d /\ PtsOf(objs[i_]) = "dirty")
=============================================================================
