--------------------------- MODULE GenRestartGen ---------------------------
(***************************************************************************)
(* Behaviour generation for X02 (d): GenRestart with a history variable.   *)
(* Every behaviour of length MaxLen over a one-domain grid with two nodes  *)
(* (so that a handle can be exhausted inside a short behaviour) is printed *)
(* once; the harness replays each on real MultiDomainGrid objects of       *)
(* several shapes (the actions are abstract: handle numbers, not items).   *)
(***************************************************************************)
EXTENDS GenRestart
CONSTANT MaxLen
VARIABLE gr_hist
gvars == <<grvars, gr_hist>>
KindSeq == <<"p", "w">>
RouteSeq == <<"vec", "nonvec">>
GInit == GRInit /\ gr_hist = <<>>
GNext ==
    /\ Len(gr_hist) < MaxLen
    /\ \/ \E ki_ \in 1..2 : NewGen(KindSeq[ki_]) /\ gr_hist' = Append(gr_hist, <<"N", ki_>>)
       \/ \E g_ \in 1..Len(gr_gens) : Step(g_) /\ gr_hist' = Append(gr_hist, <<"S", g_>>)
       \/ Size /\ gr_hist' = Append(gr_hist, <<"Z", 0>>)
       \/ \E ri_ \in 1..2 : Integrate(RouteSeq[ri_]) /\ gr_hist' = Append(gr_hist, <<"I", ri_>>)
GSpec == GInit /\ [][GNext]_gvars
Emit == Len(gr_hist) = MaxLen => PrintT(<<"BEH", gr_hist>>)
GenSizes == <<2>>
GenWts == << <<3, 5>> >>
=============================================================================
