SPECIFICATION GSpec
INVARIANT TablesSane
