------------------------------ MODULE OneDSeed ------------------------------
(***************************************************************************)
(* C01: the draws of VERIF_SEED, <<start index, count>> per pool of        *)
(* MC_OneD.tla.  This file is the default "no draws" (fixed lattices       *)
(* only); every run of the check replaces it in its scratch directory by   *)
(* the draws of the seed and the tier (vf/props/c01.py, _write_inputs).    *)
(***************************************************************************)
SeedAlpha == <<0, 0>>
SeedStep == <<0, 0>>
SeedRho == <<0, 0>>
SeedN == <<0, 0>>
=============================================================================
