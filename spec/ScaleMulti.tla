----------------------------- MODULE ScaleMulti -----------------------------
(***************************************************************************)
(* C19, second sentence, for SEVERAL transform objects living in one       *)
(* process (ScaleSys is the single-object machine and stays as it is).     *)
(*                                                                          *)
(* Every object i remembers a scale bs[i]: None (0) or a value.  A call on *)
(* object i with an argument array whose maximum is xm                      *)
(*   - may fix bs[i] to xm while bs[i] is None and xm > 0,                  *)
(*   - never changes a scale that is fixed or was passed explicitly,        *)
(*   - never changes the scale of another object (the scale belongs to the  *)
(*     object, not to the class or the module),                             *)
(*   - remembers a NUMBER: what the caller does afterwards with the array   *)
(*     it passed (Scribble) changes no scale,                               *)
(*   - with an all-zero array (xm = 0) while the scale is undetermined      *)
(*     cannot fix a scale; whether the library refuses the call or not,     *)
(*     nothing is remembered (ZeroCall).                                    *)
(* What a call returns is a function of (operation, array, bs[i]) alone -   *)
(* measured by the harness against a fresh object built with that scale.    *)
(***************************************************************************)
EXTENDS Integers, Sequences, TLC
CONSTANTS Inst, Ops, XMaxs, BInit     \* objects, operations, maxima of argument arrays (> 0), initial scales (0 = None)
None == 0
VARIABLES bs, last
mvars == <<bs, last>>
NoCall == [kind |-> "none", i |-> 0, xm |-> 0]
Init == bs \in [Inst -> BInit] /\ last = NoCall
Call(i_, op_, xm_) ==
    /\ xm_ > 0
    /\ \E nb_ \in (IF bs[i_] = None THEN {None, xm_} ELSE {bs[i_]}) : bs' = [bs EXCEPT ![i_] = nb_]
    /\ last' = [kind |-> op_, i |-> i_, xm |-> xm_]
ZeroCall(i_, op_) ==
    /\ UNCHANGED bs
    /\ last' = [kind |-> op_, i |-> i_, xm |-> 0]
Scribble(i_) ==
    /\ last.i = i_                   \* the array of the last call on that object
    /\ UNCHANGED bs
    /\ last' = [kind |-> "scribble", i |-> i_, xm |-> last.xm]
Next == \/ \E i_ \in Inst, op_ \in Ops, xm_ \in XMaxs : Call(i_, op_, xm_)
        \/ \E i_ \in Inst, op_ \in Ops : ZeroCall(i_, op_)
        \/ \E i_ \in Inst : Scribble(i_)
Spec == Init /\ [][Next]_mvars

ScaleStable == [][\A i_ \in Inst : bs[i_] # None => bs'[i_] = bs[i_]]_mvars
ScaleFromOwnGrid == [][\A i_ \in Inst : bs[i_] = None /\ bs'[i_] # None => last'.i = i_ /\ bs'[i_] = last'.xm /\ last'.xm > 0]_mvars
Isolation == [][\A i_ \in Inst : bs'[i_] # bs[i_] => last'.i = i_ /\ last'.kind \notin {"scribble", "none"}]_mvars
\* witness (negated): two objects with different fixed scales are reached
WitnessTwoScales == ~(\E i_, j_ \in Inst : bs[i_] # None /\ bs[j_] # None /\ bs[i_] # bs[j_])
=============================================================================
