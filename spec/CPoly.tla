-------------------------------- MODULE CPoly --------------------------------
(***************************************************************************)
(* Sparse (Laurent) polynomials in one indeterminate over Q for TLC.       *)
(*                                                                         *)
(* A polynomial is a SET of terms <<k, q>> (exponent k \in Int, coefficient*)
(* q = <<n, d>> a normalised rational # 0), at most one term per exponent. *)
(* The representation is canonical, so TLC's set equality is polynomial    *)
(* equality: an identity  P = Q  checked by TLC holds for EVERY value of   *)
(* the indeterminate at once.                                              *)
(*                                                                         *)
(* Used by Coulomb.tla (C17, coefficients of the {erf, Gaussian}           *)
(* differential algebra) and by Ode.tla (C15, manufactured polynomial      *)
(* problems, Faa di Bruno as a polynomial identity).  All parameter names  *)
(* carry a trailing underscore (see BUILDING.md, TLC pitfalls).            *)
(***************************************************************************)
EXTENDS Expr, FiniteSets

PZero == {}
PMono(q_, k_) == IF q_[1] = 0 THEN {} ELSE {<<k_, q_>>}
PConst(q_) == PMono(q_, 0)
PInt(i_) == PConst(QI(i_))
PX == {<<1, QOne>>}                       \* the indeterminate itself

PExps(p_) == {t_[1] : t_ \in p_}
PCoef(p_, k_) == IF k_ \in PExps(p_) THEN (CHOOSE t_ \in p_ : t_[1] = k_)[2] ELSE QZero
PNorm(s_) == {t_ \in s_ : t_[2][1] # 0}
PWellFormed(p_) == /\ \A t_ \in p_ : t_[2][1] # 0 /\ t_[2][2] > 0 /\ t_[2] = Q(t_[2][1], t_[2][2])
                   /\ Cardinality(PExps(p_)) = Cardinality(p_)

PAdd(p_, q_) == PNorm({<<k_, QAdd(PCoef(p_, k_), PCoef(q_, k_))>> : k_ \in PExps(p_) \cup PExps(q_)})
PScale(c_, p_) == PNorm({<<t_[1], QMul(c_, t_[2])>> : t_ \in p_})
PNeg(p_) == {<<t_[1], QNeg(t_[2])>> : t_ \in p_}
PSub(p_, q_) == PAdd(p_, PNeg(q_))
PShift(p_, n_) == {<<t_[1] + n_, t_[2]>> : t_ \in p_}            \* multiply by x^n
PDer(p_) == PNorm({<<t_[1] - 1, QMul(QI(t_[1]), t_[2])>> : t_ \in p_})

RECURSIVE PDerN(_, _)
PDerN(p_, n_) == IF n_ = 0 THEN p_ ELSE PDerN(PDer(p_), n_ - 1)

\* product: fold over the terms of the first factor
RECURSIVE PMulF(_, _)
PMulF(s_, q_) == IF s_ = {} THEN {}
                 ELSE LET t_ == CHOOSE x_ \in s_ : \A y_ \in s_ : x_[1] <= y_[1]
                      IN PAdd(PShift(PScale(t_[2], q_), t_[1]), PMulF(s_ \ {t_}, q_))
PMul(p_, q_) == PMulF(p_, q_)

RECURSIVE PPow(_, _)
PPow(p_, n_) == IF n_ = 0 THEN PInt(1) ELSE PMul(p_, PPow(p_, n_ - 1))

\* sum of a sequence of polynomials
RECURSIVE PSumSeq(_)
PSumSeq(s_) == IF s_ = <<>> THEN {} ELSE PAdd(Head(s_), PSumSeq(Tail(s_)))

IsOrdinary(p_) == \A t_ \in p_ : t_[1] >= 0          \* no negative exponents
PDeg(p_) == IF p_ = {} THEN -1 ELSE CHOOSE k_ \in PExps(p_) : \A j_ \in PExps(p_) : j_ <= k_
PLow(p_) == IF p_ = {} THEN 0 ELSE CHOOSE k_ \in PExps(p_) : \A j_ \in PExps(p_) : j_ >= k_

\* composition p o g for ordinary p:  sum_k c_k g^k
RECURSIVE PCompF(_, _)
PCompF(s_, g_) == IF s_ = {} THEN {}
                  ELSE LET t_ == CHOOSE x_ \in s_ : \A y_ \in s_ : x_[1] <= y_[1]
                       IN PAdd(PScale(t_[2], PPow(g_, t_[1])), PCompF(s_ \ {t_}, g_))
PCompose(p_, g_) == PCompF(p_, g_)

\* value at a rational point (x # 0 if p has negative exponents)
RECURSIVE PEvalF(_, _)
PEvalF(s_, x_) == IF s_ = {} THEN QZero
                  ELSE LET t_ == CHOOSE y_ \in s_ : TRUE
                       IN QAdd(QMul(t_[2], QPow(x_, t_[1])), PEvalF(s_ \ {t_}, x_))
PEval(p_, x_) == PEvalF(p_, x_)

\* polynomial from a sequence of integer coefficients <<c0, c1, ...>>
PFromInts(s_) == PNorm({<<i_ - 1, QI(s_[i_])>> : i_ \in 1..Len(s_)})
\* ... and back: coefficient sequence c0..c_deg as rationals (ordinary polynomials)
PToSeq(p_, n_) == [i_ \in 1..n_ + 1 |-> PCoef(p_, i_ - 1)]

\* expression tree (Expr.tla) of p in the variable named v_, terms by increasing exponent
RECURSIVE PExprF(_, _)
PExprF(s_, v_) == IF s_ = {} THEN CI(0)
                  ELSE LET t_ == CHOOSE x_ \in s_ : \A y_ \in s_ : x_[1] >= y_[1]
                       IN Add(PExprF(s_ \ {t_}, v_), Mul(CQ(t_[2]), Pow(V(v_), t_[1])))
PExpr(p_, v_) == PExprF(p_, v_)
=============================================================================
