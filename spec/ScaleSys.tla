------------------------------ MODULE ScaleSys ------------------------------
(***************************************************************************)
(* The remembered scale parameter b of LinearInfinite/Exp/PowerRTransform  *)
(* (property C19, second sentence).  b is either None or a value; a call   *)
(* on an argument array x may fix b to max(x) only while b is None.         *)
(* Once fixed (or passed explicitly) b never changes, and what a call       *)
(* returns is a function of (operation, x, b) alone - the harness measures  *)
(* that by repeating the call on a fresh transform built with b explicit.   *)
(***************************************************************************)
EXTENDS Integers, Sequences, TLC
CONSTANTS Ops, XMaxs, BInit        \* operations, maxima of argument arrays, initial b values (0 = None)
None == 0   \* (a scale of zero is rejected by the library, so 0 is free to stand for None)
VARIABLES b, obs
vars == <<b, obs>>
Init == b \in BInit /\ obs = [kind |-> "none", b |-> None]
\* An operation whose result depends on the scale ("dependent") must fix it from the first grid it
\* sees; an operation that does not use the scale at all (e.g. a constant higher derivative of the
\* linear map) may leave it undetermined.  Which operations are dependent is measured by the harness.
Call(op_, xmax_) ==
    /\ b' \in (IF b = None THEN {None, xmax_} ELSE {b})
    /\ obs' = [kind |-> op_, b |-> b']
Next == \E op_ \in Ops, xm_ \in XMaxs : Call(op_, xm_)
Spec == Init /\ [][Next]_vars
ScaleStable == [][b # None => b' = b]_vars
ScaleFromFirstGrid == [][b = None /\ b' # None => \E xm_ \in XMaxs : b' = xm_]_vars
=============================================================================
